"""C10 - function activations and closures do not interfere (re-entrancy).

(a) The recursion/closure-dense part of SyltGen's universe (expressions evaluated live across a recursive call on
    either side, in closures created per loop iteration, in blob methods; closure/counter/iterclo/casebindclo/
    nestedfn/twice/applyn templates everywhere) is executed by the reference semantics (TLC, SyltSem) and the
    compiled program's trace must equal the specified one.
(b) The interpreter's activation event log of every such run is validated by TLC against SyltActivation:
    NoInterference (no activation reads a global temporary last written by another activation) is evaluated at
    every event, so a shared temporary is caught even when the clobbered value never reaches a print.
(c) Three further dimensions (spec/MC_Reent.tla; same procedure as (a) and (b)): SyltOrder's CHAINS (a chain of field /
    index / method links held across a sibling call that changes the chain at one of its links), SyltCapture (one
    expression reads x and creates closures over x; later changes by the creator and by a sibling closure must be seen
    through every closure: capture by reference, per activation / iteration), SyltLibReent (library higher-order
    functions whose callbacks call the library again, the same function nested included).
"""
import importlib.util
import os
from concurrent.futures import ThreadPoolExecutor
import vlib

PID = "C10"
DENSE = {"capture", "iife", "counter", "nestedfn", "twice", "rec", "iterclo", "casebindclo", "applyn", "meth",
         "fldthencall", "earlyret", "loopsum", "fold", "lmap", "lfilter", "bumpg", "ifx", "ifelif", "casex", "caseelse",
         "and", "or", "sif", "tick", "callinc"}


def load_c01():
    spec = importlib.util.spec_from_file_location("c01", os.path.join(vlib.ROOT, "checks", "C01.py"))
    m = importlib.util.module_from_spec(spec)
    spec.loader.exec_module(m)
    return m


# quick tier: the keys of each family whose index sum is divisible by the stride (a diagonal through the product: every
# value of every axis still occurs, with varying partners); thorough: everything
STRIDES = {"quick": {"STRIDE_CHAIN": 6, "STRIDE_CAP": 4, "STRIDE_LIB": 2},
           "thorough": {"STRIDE_CHAIN": 1, "STRIDE_CAP": 1, "STRIDE_LIB": 1}}
FAMILY_FLOOR = {"quick": {"chain": 400, "capture": 300, "libreent": 300},
                "thorough": {"chain": 3000, "capture": 1500, "libreent": 800}}


def reent_tlc(wd, tier):
    env = dict(STRIDES[tier], MODE="all")
    return vlib.tlc("MC_Reent", wd=wd, env=env, timeout=2400, xmx="6g", workers=4, coverage=False)


def axis_values(cases, fam):
    """the values every axis of a family takes among the given cases (ids are o = fam-a-b, i = c-d-e)"""
    seen = {}
    for c in cases:
        if c["id"]["h"] != fam:
            continue
        parts = c["id"]["o"].split("-")[1:] + c["id"]["i"].split("-")
        for k, v in enumerate(parts):
            seen.setdefault(k, set()).add(v)
    return seen


def run(ctx):
    tier = ctx.tier
    wd = vlib.workdir(PID)
    ev = vlib.Evidence(PID, tier, "model_checking")
    verdicts = vlib.Verdicts(PID)
    c01 = load_c01()

    # spec self-test: SyltActivation alone; the invariant must hold for StackOk and be violable for NoInterference
    r0 = vlib.tlc("MC_Activation", cfg="MC_Activation.cfg", wd=wd, workers=4, timeout=600)
    vlib.require_tlc_ok(r0, "SyltActivation model")
    r1 = vlib.tlc("MC_Activation", cfg="MC_Activation_neg.cfg", wd=wd, workers=4, timeout=600,
                  out_file=os.path.join(wd, "tlc-act-neg.out"))
    if r1.invariant_violated != "NoInterference":
        vlib.tool_error("spec self-test: NoInterference is not violable in the free model (vacuous invariant?)")
    ev.set(spec_model={"states": r0.distinct, "actions": {k: v[1] for k, v in r0.coverage.items()}})

    if ctx.replay:
        import json
        cases = [json.load(open(ctx.replay))["replay"]]
    else:
        pool = ThreadPoolExecutor(max_workers=1)
        reent_future = pool.submit(reent_tlc, wd, tier)       # the three small universes run beside the big one
        r = vlib.tlc("MC_Sem", wd=wd, env={"MODE": "pairs"}, timeout=2400, xmx="16g", workers=8, coverage=False)
        rx = reent_future.result()
        pool.shutdown()
        vlib.require_tlc_ok(r, "SyltSem over the pairwise-nesting universe")
        vlib.require_tlc_ok(rx, "SyltSem over the chain / capture / library re-entrancy universes")
        reent = c01.collect(rx)
        fam_n = {}
        for c in reent:
            fam_n[c["id"]["h"]] = fam_n.get(c["id"]["h"], 0) + 1
            if c["status"] != "done":
                vlib.tool_error("a program of the chain / capture / library universes does not run to its end in the "
                                "specification: %s %s" % (c["id"], c["status"]))
        thin = [f for f, n in FAMILY_FLOOR[tier].items() if fam_n.get(f, 0) < n]
        # every value of every axis must occur (the stride must not cut an axis value away)
        want_axes = {"chain": (13, 2, 9, 11, 2), "capture": (6, 4, 4, 10, 2), "libreent": (11, 2, 11, 9, 2)}
        for fam, sizes in want_axes.items():
            got = axis_values(reent, fam)
            if tuple(len(got.get(k, ())) for k in range(len(sizes))) != sizes:
                thin.append("%s axes %s" % (fam, [len(got.get(k, ())) for k in range(len(sizes))]))
        if thin:
            vlib.tool_error("vacuity: chain / capture / library universes too small: %s (%s)" % (thin, fam_n))
        allcases = c01.collect(r)
        # SyltOrder's universes are always taken whole: effects interleaved with held operands (order) and values that
        # differ per activation, live across a re-entrant call (recdep)
        whole = [c for c in allcases if c["id"]["h"] in ("order", "orderstmt", "recdep", "recdepbig")]
        cases = [c for c in allcases
                 if c["id"]["h"] in ("recl", "recr", "loopclo", "method")
                 or c["id"]["h"] not in ("order", "orderstmt", "recdep", "recdepbig") and c["id"]["o"] in DENSE and c["id"]["i"] in DENSE]
        if tier == "quick":
            cases = cases[::3]
            whole = [c for k, c in enumerate(whole) if c["id"]["h"] in ("order", "orderstmt", "recdepbig") or c["id"]["pos"] == 0 or k % 2 == 0]
        cases = whole + reent + cases
        ev.set(states=r.distinct + rx.distinct, transitions=r.generated + rx.generated, universe_total=len(allcases) + len(reent),
               reent={"programs": len(reent), "by_family": fam_n, "strides": STRIDES[tier], "tlc_states": rx.distinct,
                      "tlc_wall_s": round(rx.wall_s, 1),
                      "distinct_expected_traces": len({vlib.sha(c["out"]) for c in reent}),
                      "samples": [{"id": c["id"], "expected_prints": len(c["out"])} for c in reent[:1] + reent[len(reent) // 2:len(reent) // 2 + 1] + reent[-1:]]})
        if len(cases) < 1000:
            vlib.tool_error("vacuity: only %d recursion/closure-dense programs" % len(cases))

    cf = os.path.join(wd, "cases.ndjson")
    rf = os.path.join(wd, "results.ndjson")
    ef = os.path.join(wd, "events.ndjson")
    vlib.write_ndjson(cf, cases)
    vlib.harness("c10", ["replay", cf, rf, ef], timeout=3000)
    results = vlib.read_ndjson(rf)
    events = vlib.read_ndjson(ef)
    counts = {}
    for res in results:
        v = res["verdict"]
        counts[v] = counts.get(v, 0) + 1
        case = cases[res["i"]]
        if v == "tool":
            vlib.tool_error("minilua unsupported: %s" % str(res.get("got"))[:300])
        if v in ("mismatch", "load_error", "panic"):
            verdicts.add(c01.signature(PID, case, res),
                         "%s: want %s got %s" % (v, str(res.get("want"))[:160], str(res.get("got", res.get("error")))[:200]),
                         {"id": case["id"], "tops": case["tops"], "out": case["out"], "status": case["status"],
                          "source": res.get("source")})
    # (b) event logs through TLC
    # a run of Closure events of one activation with nothing in between is one Closure step of SyltActivation (the action
    # changes no variable): such runs - above all the ~110 function definitions of the library's main chunk - are handed to
    # TLC as one record each
    def merge_closures(evs):
        out = []
        for x in evs:
            if x["e"] == "clo" and out and out[-1]["e"] == "clo" and out[-1]["a"] == x["a"]:
                continue
            out.append(x)
        return out
    slim = [{"i": e["i"], "ev": merge_closures(e["ev"])} for e in events]
    tf = os.path.join(wd, "trace.ndjson")
    vlib.write_ndjson(tf, slim)
    # validated in slices: the whole thorough log does not fit TLC's heap at once (one after the other: side by side they
    # only compete for memory)
    CH = 1200
    rej, t = {}, None
    tdistinct = tgenerated = 0
    tcov = {}

    def validate_slice(off):
        swd = os.path.join(wd, "slice-%d" % off)
        os.makedirs(swd, exist_ok=True)
        stf = os.path.join(swd, "trace.ndjson")
        vlib.write_ndjson(stf, slim[off:off + CH])
        return off, vlib.tlc("Trace_Activation", cfg="Trace_Activation.cfg", wd=swd, env={"TRACE": stf}, tags=("REJECT",),
                             timeout=7200, xmx="12g", out_file=os.path.join(wd, "tlc-trace-%d.out" % off))

    slices = [validate_slice(off) for off in range(0, len(slim), CH)]
    for off, t in slices:
        vlib.require_tlc_ok(t, "Trace_Activation")
        for (_, p) in t.records:
            p["rec"] += off
            rej[p["rec"]] = p
        tdistinct += t.distinct
        tgenerated += t.generated
        for k_, v_ in t.coverage.items():
            tcov[k_] = (tcov.get(k_, (0, 0))[0] + v_[0], tcov.get(k_, (0, 0))[1] + v_[1])
    t.distinct, t.generated, t.coverage = tdistinct, tgenerated, tcov
    for k, p in rej.items():
        e = events[k - 1]
        case = cases[e["i"]]
        if p["why"] == "malformed-log":
            vlib.tool_error("event log of program %d is not a behaviour of SyltActivation: %s" % (k, str(p)[:300]))
        cid = case["id"]
        sig = "C10|shared-temp|%s|%s|%s" % (cid.get("o"), cid.get("i"), cid.get("h"))
        verdicts.add(sig, "global temporaries read across activations: %s" % str(p["bad"])[:200],
                     {"id": cid, "tops": case["tops"], "out": case["out"], "status": case["status"],
                      "interference": p["bad"], "source": e.get("source")})
    for act in ("TEnter", "TExit", "TWrite", "TRead", "TClosure", "TFinish"):
        if t.coverage.get(act, (0, 0))[1] == 0:
            vlib.tool_error("vacuity: trace action %s never taken" % act)

    # negative control: a hand-made log with a clobbered temporary must be rejected, a clean one accepted
    neg = [{"i": 0, "ev": [{"e": "gw", "a": 0, "p": 0, "n": "V1"}, {"e": "enter", "a": 1, "p": 0, "n": ""},
                           {"e": "gr", "a": 1, "p": 0, "n": "V1"}, {"e": "gw", "a": 1, "p": 0, "n": "V5"},
                           {"e": "enter", "a": 2, "p": 1, "n": ""}, {"e": "gw", "a": 2, "p": 0, "n": "V5"},
                           {"e": "gr", "a": 2, "p": 0, "n": "V5"}, {"e": "exit", "a": 2, "p": 0, "n": ""},
                           {"e": "gr", "a": 1, "p": 0, "n": "V5"}, {"e": "exit", "a": 1, "p": 0, "n": ""}]},
           {"i": 1, "ev": [{"e": "enter", "a": 1, "p": 0, "n": ""}, {"e": "gw", "a": 1, "p": 0, "n": "V5"},
                           {"e": "gr", "a": 1, "p": 0, "n": "V5"}, {"e": "exit", "a": 1, "p": 0, "n": ""}]}]
    nf = os.path.join(wd, "neg.ndjson")
    vlib.write_ndjson(nf, neg)
    nt = vlib.tlc("Trace_Activation", cfg="Trace_Activation.cfg", wd=wd, env={"TRACE": nf}, tags=("REJECT",), workers=2,
                  out_file=os.path.join(wd, "tlc-neg.out"))
    vlib.require_tlc_ok(nt, "Trace_Activation negative control")
    nrej = {p["rec"] for (_, p) in nt.records}
    if nrej != {1}:
        vlib.tool_error("negative control: expected exactly the clobbered log to be rejected, got %s" % sorted(nrej))

    # negative control of binding (a) on the new dimensions: an expected trace with one print dropped / the program run
    # against the expectation of its neighbour must be reported as a mismatch
    nneg = 0
    if not ctx.replay:
        neg2 = []
        for fam in ("chain", "capture", "libreent"):
            fc = [c for c in cases if c["id"]["h"] == fam]
            for j, c in enumerate(fc[:40]):
                d = dict(c)
                d["out"] = c["out"][:-1] if j % 2 == 0 else c["out"][:-1] + [dict(c["out"][-1], v={"k": "int", "v": 424242})]
                neg2.append(d)
        ncf, nrf, nef = (os.path.join(wd, n) for n in ("neg-cases.ndjson", "neg-results.ndjson", "neg-events.ndjson"))
        vlib.write_ndjson(ncf, neg2)
        vlib.harness("c10", ["replay", ncf, nrf, nef], timeout=3000)
        nres = vlib.read_ndjson(nrf)
        nneg = sum(1 for x in nres if x["verdict"] == "mismatch")
        if nneg != len(neg2) or not neg2:
            vlib.tool_error("negative control: %d of %d corrupted expectations of the chain / capture / library universes were accepted"
                            % (len(neg2) - nneg, len(neg2)))

    nev = sum(len(e["ev"]) for e in events)
    ev.add("states", t.distinct)
    ev.add("transitions", t.generated)
    ev.set(traces_validated_against_impl=len(events), programs=len(cases), evaluations=len(cases),
           distinct_nontrivial=sum(1 for e in events if e["depth"] >= 2 or e["closures"] >= 1),
           events_validated=nev, event_records_after_merging_closure_runs=sum(len(x["ev"]) for x in slim), max_call_depth=max(e["depth"] for e in events),
           programs_with_closures=sum(1 for e in events if e["closures"] > 0),
           trace_actions={k: v[1] for k, v in t.coverage.items() if k.startswith("T")},
           verdict_counts=counts, negative_controls_rejected=1 + nneg, known_findings_hit=verdicts.known_hits,
           rule="programs of SyltGen's universe in the harnesses recl/recr/loopclo/method or built from two recursion/closure "
                "constructs (quick: every third); SyltOrder's order / re-entrancy universes; the chain / capture / library re-entrancy products of "
                "MC_Reent (quick: the keys whose index sum is divisible by the family's stride); non-trivial = call depth >= 2 or at least "
                "one closure created (measured from the event log)",
           samples=[{"id": cases[e["i"]]["id"], "events": len(e["ev"]), "depth": e["depth"], "closures": e["closures"]} for e in events[:3]])
    ev.assume("minilua's event log (Enter/Exit/GlobalRead/GlobalWrite/Closure) is faithful; only names V<digits> are logged",
              "globals written only by the main chunk are constants and exempt")
    rc = verdicts.finish()
    ev.violations = len(verdicts.violations)
    ev.write()
    return rc
