"""C05 - blob, enum, tuple, loop and entry-point shape rules are enforced.

SyltShapes (TLA+) defines the universe: every violation kind at every declaration shape (field / variant sets of
size 0-3 from a small pool, generic or not; tuple lengths 1-3) as an accepted base snippet plus the same snippet with
the violation planted, placed in every context (start, helper, global initialiser, closure, branches, case arms,
loop body, blob method), and the entry-point programs (single- and two-file projects). MC_Shapes checks the universe
itself (ASSUMEs: cells inhabited, planted # base, ids unique, clause total) and emits one record per case. The harness
renders, compiles and loads; MC_Shapes (MODE=validate) then evaluates the expectation on every recorded observation:
base accepted and its Lua loads, planted rejected (after the parser). FULL=1 makes TLC also require that the trace
covers exactly the universe.

SyltShapesFam (TLA+) states two clauses as rules over the program text and varies the constructs they talk about:
loop-control (LoopControlOk: a walk over the AST) over every function flavour x loop-carrying context x word x position,
each with and without a loop of the function's own; case-totality (CaseOk) over every multiset of arms (repeats and an
unknown name included) of enums of 1-3 (thorough: 1-4) variants x bindings x else x statement / expression x scrutinee.
One program per case, expectation "accept" / "reject" derived by the rule; MC_ShapesFam emits the cases from KEYS and
re-derives every recorded case from its key when it validates the observations (phase 2b).

SyltShapesFam2 (TLA+) adds three families to phase 2b: (ord) the field / variant / totality rules (UseOk) on a value of a user
type B reached through a member of a carrier type A whose type mentions B in every position (plain, function result / parameter,
list, tuple, generic argument, nested) x every textual order of the declarations x provenance of the A value; (lpos) LoopControlOk
on break / continue / ret at every syntactic site of a loop (blocks inside its CONDITION, body, closures, inner loops, after it) x
what encloses the loop; (seq) sequences of 2-3 uses (cases with different arm sets, field reads / writes, constant indices) of one
value, linked to it in every way the type checker links them - every use is judged on its own.
"""
import json
import os
import random
import vlib

PID = "C05"
VERDICT_WHYS = ("planted-accepted", "planted-panic", "base-panic", "base-does-not-load")
GENERATOR_WHYS = ("base-rejected", "planted-rejected-by-parser")
FAM_VERDICT_WHYS = ("invalid-accepted", "invalid-panic", "valid-panic", "valid-does-not-load")
FAM_GENERATOR_WHYS = ("valid-rejected", "invalid-stopped-by-parser")


def dedupe(records):
    seen = {}
    for (_, p) in records:
        seen.setdefault(json.dumps(p["id"], sort_keys=True), p)
    return list(seen.values())


def record_and_validate(wd, name, cases, pool, full, env=None, workers=None):
    cf = os.path.join(wd, name + "-cases.ndjson")
    tf = os.path.join(wd, name + "-trace.ndjson")
    vlib.write_ndjson(cf, cases)
    vlib.harness("c05", ["record", cf, tf], env=env)
    recs = vlib.read_ndjson(tf)
    if len(recs) != len(cases):
        vlib.tool_error("%s: %d cases but %d records" % (name, len(cases), len(recs)))
    e = {"MODE": "validate", "TRACE": tf, "POOL": pool}
    if full:
        e["FULL"] = "1"
    v = vlib.tlc("MC_Shapes", wd=wd, env=e, tags=("REJECT",), workers=workers, timeout=1500,
                 out_file=os.path.join(wd, "tlc-%s.out" % name))
    rejects = list({p["rec"]: p for (_, p) in v.records}.values())
    return recs, v, rejects


def signature(rej):
    i = rej["id"]
    return "C05|%s|%s|%s|%s" % (i["kind"], i["shape"], i["ctx"], rej["why"])


def fam_signature(rej):
    # flavours: word x purity x form, purity of the enclosing function (the loop context is in the replay, not the signature);
    # arm lists: class of the list (unknown / missing / repeat), enum size, kind of scrutinee
    # declaration order: clause x position of B in the member type x which of A / B is declared first
    # loop positions: word x class of the site (condition / body / closure ...) x purity x "is there a loop around L"
    # sequences: kind of value x which use is the illegal one x how the uses are linked to the value
    i = rej["id"]
    key = rej["key"]
    fam = key[0]
    if fam == "ord":
        order = "A-before-B" if key[4].index("A") < key[4].index("B") else "B-before-A"
        return "C05|ord-%s|member-%s|%s|%s" % (rej["clause"], key[2], order, rej["why"])
    if fam == "lpos":
        site = key[3]
        cls = ("closure-in-" + site.split("-")[0]) if site.endswith("closure") else \
            "loop-inside-condition" if site in ("cond-inner-cond", "cond-inner-body") else \
            "condition" if site.startswith("cond-") else "after-loop" if site == "after" else "body"
        around = "loop-around" if key[2] in ("loop-body", "loop-body-if") else "no-loop-around"
        return "C05|lpos-%s-at-%s|%s|%s|%s" % (key[4], cls, i["shape"], around, rej["why"])
    if fam == "seq":
        return "C05|%s|linked-by-%s|any-length|%s" % (i["kind"], key[2], rej["why"])
    ctx = "any-loop-context" if fam == "flav" else i["ctx"].split("/")[0]
    return "C05|%s|%s|%s|%s" % (i["kind"], i["shape"], ctx, rej["why"])


def fam_record_and_validate(wd, name, cases, maxv, full, env=None):
    cf = os.path.join(wd, name + "-cases.ndjson")
    tf = os.path.join(wd, name + "-trace.ndjson")
    vlib.write_ndjson(cf, cases)
    vlib.harness("c05", ["famrecord", cf, tf], env=env)
    recs = vlib.read_ndjson(tf)
    if [r["key"] for r in recs] != [c["key"] for c in cases]:
        vlib.tool_error("%s: the recorded keys are not the emitted keys" % name)
    e = {"MODE": "validate", "TRACE": tf, "MAXV": maxv}
    if full:
        e["FULL"] = "1"
    v = vlib.tlc("MC_ShapesFam", wd=wd, env=e, tags=("REJECT",), workers=4, timeout=1500, coverage=False,
                 out_file=os.path.join(wd, "tlc-%s.out" % name))
    rejects = list({p["rec"]: p for (_, p) in v.records}.values())
    return recs, v, rejects


def family_phase(ctx, wd, ev, verdicts, maxv, replay_case=None):
    """phase 2b: the families of SyltShapesFam. Returns (number of records, number that exercise their rule)."""
    if replay_case is not None:
        cases = [replay_case]
    else:
        # (no -coverage for this module: TLC's cost-model walk expands every operator reference of SyltShapesFam2 as a tree and
        #  does not finish; the vacuity guards count states instead: one "start" and one "done" state per case)
        r = vlib.tlc("MC_ShapesFam", wd=wd, env={"MODE": "emit", "MAXV": maxv}, workers=4, timeout=1500, coverage=False,
                     out_file=os.path.join(wd, "tlc-fam-emit.out"))
        vlib.require_tlc_ok(r, "MC_ShapesFam emit (universe sanity + emission)")
        seen = {}
        for (_, p) in r.records:
            seen.setdefault(json.dumps(p["key"]), p)
        cases = list(seen.values())
        nfam = {f: sum(1 for c in cases if c["key"][0] == f) for f in ("flav", "arms", "ord", "lpos", "seq")}
        nflav, narms = nfam["flav"], nfam["arms"]
        if r.distinct < 2 * len(cases) or nflav < 5000 or narms < 4000 or nfam["ord"] < 3000 or nfam["lpos"] < 500 or nfam["seq"] < 3000 \
                or sum(nfam.values()) != len(cases):
            vlib.tool_error("vacuity: families: %s cases emitted, %d distinct states" % (nfam, r.distinct))
        # the classes the clause is about are there: accepted total cases with a repeated arm, rejected cases with as many
        # arms as variants of which one is a repeat, and both verdicts for both purities of every flavour
        need = {"arms-repeat-accepted": lambda c: c["id"]["kind"] == "case-arms-repeat" and c["expect"] == "accept" and "/noelse/" in c["id"]["ctx"],
                "arms-missing+repeat-rejected": lambda c: c["id"]["kind"] == "case-arms-missing+repeat" and c["expect"] == "reject"
                                                 and len(c["key"][2]) == c["key"][1],
                "pu-flavour-rejected": lambda c: c["key"][0] == "flav" and c["key"][2] == "pu" and c["expect"] == "reject",
                "pu-flavour-accepted": lambda c: c["key"][0] == "flav" and c["key"][2] == "pu" and c["expect"] == "accept",
                "fn-flavour-rejected": lambda c: c["key"][0] == "flav" and c["key"][2] == "fn" and c["expect"] == "reject",
                # declaration order: B after A / before A, in a function-result position, both verdicts
                "ord-fn-result-A-first-rejected": lambda c: c["key"][0] == "ord" and c["key"][2].startswith("fn-ret") and c["key"][4].index("A") < c["key"][4].index("B") and c["expect"] == "reject",
                "ord-fn-result-A-first-accepted": lambda c: c["key"][0] == "ord" and c["key"][2].startswith("fn-ret") and c["key"][4].index("A") < c["key"][4].index("B") and c["expect"] == "accept",
                "ord-B-first-rejected": lambda c: c["key"][0] == "ord" and c["key"][4].index("B") < c["key"][4].index("A") and c["expect"] == "reject",
                # loop positions: a word in the condition is rejected without, accepted with a loop around
                "lpos-condition-rejected": lambda c: c["key"][0] == "lpos" and c["key"][3].startswith("cond-") and c["expect"] == "reject" and c["key"][4] != "ret",
                "lpos-condition-accepted": lambda c: c["key"][0] == "lpos" and c["key"][3].startswith("cond-") and c["expect"] == "accept" and c["key"][4] != "ret",
                # sequences: only a later use illegal / only the first / none
                "seq-later-illegal": lambda c: c["key"][0] == "seq" and c["id"]["kind"].endswith("later-illegal") and c["expect"] == "reject",
                "seq-first-illegal": lambda c: c["key"][0] == "seq" and c["id"]["kind"].endswith("first-illegal") and c["expect"] == "reject",
                "seq-all-legal": lambda c: c["key"][0] == "seq" and c["id"]["kind"].endswith("all-legal") and c["expect"] == "accept"}
        for name, pred in need.items():
            if sum(1 for c in cases if pred(c)) < 20:
                vlib.tool_error("vacuity: families: fewer than 20 cases of class %s" % name)
        ev.add("states", r.distinct)
        ev.add("transitions", r.generated)
        ev.set(family_cases={"function-flavours": nflav, "arm-multisets": narms, "declaration-order": nfam["ord"],
                             "loop-positions": nfam["lpos"], "use-sequences": nfam["seq"]}, family_max_variants=maxv)

    recs, v, rejects = fam_record_and_validate(wd, "fam", cases, maxv, full=replay_case is None)
    vlib.require_tlc_ok(v, "MC_ShapesFam validate")
    if v.distinct < 2 * len(recs):
        vlib.tool_error("vacuity: families: %d distinct states for %d records (Validate did not fire for every record)" % (v.distinct, len(recs)))
    ngen = 0
    for rej in rejects:
        rec = recs[rej["rec"] - 1]
        case = cases[rej["rec"] - 1]
        if rej["why"] in FAM_GENERATOR_WHYS:
            ngen += 1
            if ngen <= 10:
                print("NOTE generator (families): %s %s :: %s" % (rej["why"], json.dumps(rej["key"]), rec["obs"]["detail"][:200]))
            continue
        if rej["why"] not in FAM_VERDICT_WHYS:
            vlib.tool_error("unexpected reject class %r" % rej["why"])
        what = "%s (%s): the rule says %s, observed %s/%s %s" % (
            rej["why"], rej["clause"], rej["expect"], rec["obs"]["class"], rec["obs"]["loads"], rec["obs"]["detail"][:160])
        verdicts.add(fam_signature(rej), what, {"fam_case": case, "maxv": maxv, "observed": rec["obs"], "src": rec.get("src")})
    if ngen * 20 > len(recs):
        vlib.tool_error("vacuity: families: %d of %d cases do not exercise their rule (valid program rejected / invalid one stopped by the parser)" % (ngen, len(recs)))
    ev.add("states", v.distinct)
    ev.add("transitions", v.generated)

    if replay_case is None:
        # the rejections come from the rule under test, not from something else in the program
        kinds = {}
        for x in recs:
            if x["expect"] == "reject" and x["obs"]["class"] == "err":
                for kd in x["obs"]["kinds"][:1]:
                    kinds[x["key"][0] + ":" + kd] = kinds.get(x["key"][0] + ":" + kd, 0) + 1
        ev.set(family_rejection_kinds=kinds, family_expect={"accept": sum(1 for c in cases if c["expect"] == "accept"),
                                                            "reject": sum(1 for c in cases if c["expect"] == "reject")},
               family_generator_problems=ngen, family_rejects=len(rejects),
               family_samples=[{"key": recs[i]["key"], "id": recs[i]["id"], "expect": recs[i]["expect"], "observed": recs[i]["obs"]["class"],
                                "error_kinds": recs[i]["obs"]["kinds"]} for i in (0, len(recs) // 3, 2 * len(recs) // 3, len(recs) - 1)])
        # negative controls: (a) a compiler that answers the opposite on a seeded sample: every record must be rejected
        # (sampled among the cases the real compiler answered as specified: flipping a wrong answer gives a right one)
        rnd = random.Random(ctx.seed + 1)
        wrong = {rej["rec"] for rej in rejects}
        sub = rnd.sample([c for (ix, c) in enumerate(cases) if ix + 1 not in wrong], 80)
        _, nv, nrej = fam_record_and_validate(wd, "fam-neg-flip", sub, maxv, False, env={"C05_STUB": "flip"})
        vlib.require_tlc_ok(nv, "families: negative control (flip stub)")
        good = sum(1 for x in nrej if x["why"] == ("invalid-accepted" if x["expect"] == "reject" else "valid-rejected"))
        if len(nrej) != len(sub) or good != len(sub):
            vlib.tool_error("negative control accepted: a compiler answering the opposite was rejected only %d/%d times" % (good, len(sub)))
        # (b) a record that claims another expectation than the rule derives for its key must stop TLC (Assert)
        bad = json.loads(json.dumps(recs[:5]))
        bad[2]["expect"] = "accept" if bad[2]["expect"] == "reject" else "reject"
        btf = os.path.join(wd, "fam-neg-expect-trace.ndjson")
        vlib.write_ndjson(btf, bad)
        bv = vlib.tlc("MC_ShapesFam", wd=wd, env={"MODE": "validate", "TRACE": btf, "MAXV": maxv}, tags=("REJECT",), workers=1,
                      coverage=False, out_file=os.path.join(wd, "tlc-fam-neg-expect.out"))
        if bv.ok:
            vlib.tool_error("negative control accepted: a family record with a corrupted expectation passed validation")
        # (c) a trace that misses a case must fail the completeness assumption
        mtf = os.path.join(wd, "fam-neg-missing-trace.ndjson")
        vlib.write_ndjson(mtf, recs[1:])
        mv = vlib.tlc("MC_ShapesFam", wd=wd, env={"MODE": "validate", "TRACE": mtf, "MAXV": maxv, "FULL": "1"}, tags=("REJECT",),
                      workers=1, coverage=False, out_file=os.path.join(wd, "tlc-fam-neg-missing.out"))
        if mv.ok:
            vlib.tool_error("negative control accepted: an incomplete family trace passed the completeness assumption")
        ev.add("negative_controls_rejected", len(nrej) + 2)
    return len(recs), len(recs) - ngen


def unify_phase():
    import importlib.util
    spec = importlib.util.spec_from_file_location("unify_phase", os.path.join(vlib.ROOT, "checks", "unify_phase.py"))
    m = importlib.util.module_from_spec(spec)
    spec.loader.exec_module(m)
    return m


def run(ctx):
    tier = ctx.tier
    wd = vlib.workdir(PID)
    ev = vlib.Evidence(PID, tier, "model_checking")
    verdicts = vlib.Verdicts(PID)
    vlib.build_harness()
    pool = 3 if tier == "quick" else 4

    if ctx.replay and "unify-trace" in json.load(open(ctx.replay)).get("signature", ""):
        # a replay of the union-find trace validation (phase 4)
        unify_phase().run(ctx, ev, verdicts, PID, wd)
        ev.set(samples=[json.load(open(ctx.replay))["signature"]], traces_validated_against_impl=1)
        rc = verdicts.finish()
        ev.violations = len(verdicts.violations)
        ev.write()
        return rc
    maxv = 3 if tier == "quick" else 4
    if ctx.replay and "fam_case" in json.load(open(ctx.replay)).get("replay", {}):
        # a replay of a case of the families (phase 2b)
        rp = json.load(open(ctx.replay))["replay"]
        n, _ = family_phase(ctx, wd, ev, verdicts, rp.get("maxv", 4), replay_case=rp["fam_case"])
        ev.set(samples=[{"key": rp["fam_case"]["key"], "expect": rp["fam_case"]["expect"]}], traces_validated_against_impl=n)
        rc = verdicts.finish()
        ev.violations = len(verdicts.violations)
        ev.write()
        return rc
    if ctx.replay:
        rp = json.load(open(ctx.replay))["replay"]
        cases = [rp["case"]]
        pool = rp.get("pool", 4)
    else:
        # 1. the universe: spec-level sanity (ASSUMEs) and emission
        r = vlib.tlc("MC_Shapes", wd=wd, env={"MODE": "emit", "POOL": pool}, timeout=1500,
                     out_file=os.path.join(wd, "tlc-emit.out"))
        vlib.require_tlc_ok(r, "MC_Shapes emit (universe sanity + emission)")
        cases = dedupe(r.records)
        if r.coverage.get("Emit", (0, 0))[1] < len(cases) or len(cases) < 900:
            vlib.tool_error("vacuity: %d cases emitted, Emit fired %s times" % (len(cases), r.coverage.get("Emit")))
        ev.set(states=r.distinct, transitions=r.generated, universe_cases=len(cases),
               spec_assumptions_checked=["IdsUnique", "PlantedDiffers", "ClauseTotal", "CellsInhabited", "ShapesCovered",
                                         "EntryCovered", "TraceComplete"])

    # 2. conformance: render, compile, load; TLC evaluates the expectation
    recs, v, rejects = record_and_validate(wd, "main", cases, pool, full=not ctx.replay)
    vlib.require_tlc_ok(v, "MC_Shapes validate")
    if v.coverage.get("Validate", (0, 0))[1] < len(recs):
        vlib.tool_error("vacuity: Validate fired %s times for %d records" % (v.coverage.get("Validate"), len(recs)))
    generator_problems = []
    for rej in rejects:
        rec = recs[rej["rec"] - 1]
        case = cases[rej["rec"] - 1]
        if rej["why"] in GENERATOR_WHYS:
            generator_problems.append((rej, rec))
            continue
        if rej["why"] not in VERDICT_WHYS:
            vlib.tool_error("unexpected reject class %r" % rej["why"])
        what = "%s (%s): base %s/%s, planted %s/%s %s" % (
            rej["why"], rej["clause"], rec["base"]["class"], rec["base"]["loads"], rec["planted"]["class"],
            rec["planted"]["loads"], (rec["planted"]["detail"] or rec["base"]["detail"])[:160])
        verdicts.add(signature(rej), what,
                     {"case": case, "pool": pool, "observed": {"base": rec["base"], "planted": rec["planted"]},
                      "src_base": rec.get("src_base"), "src_planted": rec.get("src_planted")})
    # a base the compiler rejects, or a planted program that does not get past the parser, says nothing about the
    # rule: the generator has to be repaired when that is more than a few cases
    ngen = len(generator_problems)
    for (rej, rec) in generator_problems[:10]:
        print("NOTE generator: %s %s :: %s" % (rej["why"], json.dumps(rej["id"], sort_keys=True),
                                               (rec["base"]["detail"] or rec["planted"]["detail"])[:200]))
    if ngen * 20 > len(recs):
        vlib.tool_error("vacuity: %d of %d cases do not exercise their rule (base rejected / planted stopped by the parser)" % (ngen, len(recs)))

    kinds = sorted({c["id"]["kind"] for c in cases})
    clauses = {}
    for c in cases:
        clauses[c["clause"]] = clauses.get(c["clause"], 0) + 1
    effective = len(recs) - ngen

    fam_n = fam_effective = 0
    if not ctx.replay:
        if len(clauses) != 9:
            vlib.tool_error("vacuity: only %d of the 9 clauses have cases" % len(clauses))
        # 2b. the rule-derived families: function flavours x loop contexts, case arm multisets
        fam_n, fam_effective = family_phase(ctx, wd, ev, verdicts, maxv)
        # 3. negative controls (binding demonstration) on a seeded sample
        rnd = random.Random(ctx.seed)
        sub = rnd.sample(cases, 60)
        _, nv, nrej = record_and_validate(wd, "neg-accept", sub, pool, False, env={"C05_STUB": "accept"}, workers=4)
        vlib.require_tlc_ok(nv, "negative control (accept stub)")
        if len(nrej) != len(sub) or any(x["why"] != "planted-accepted" for x in nrej):
            vlib.tool_error("negative control accepted: a compiler accepting every planted program was rejected only %d/%d times" % (len(nrej), len(sub)))
        _, nv2, nrej2 = record_and_validate(wd, "neg-noload", sub, pool, False, env={"C05_STUB": "noload"}, workers=4)
        vlib.require_tlc_ok(nv2, "negative control (noload stub)")
        nload = sum(1 for x in nrej2 if x["why"] == "base-does-not-load")
        if len(nrej2) != len(sub) or nload * 2 < len(sub):
            vlib.tool_error("negative control accepted: unloadable base Lua was rejected only %d/%d times" % (nload, len(sub)))
        # a record that names another clause than the specification derives for its kind must stop TLC (Assert)
        bad = json.loads(json.dumps(recs[:5]))
        bad[2]["clause"] = "tuple-index" if bad[2]["clause"] != "tuple-index" else "entry-point"
        btf = os.path.join(wd, "neg-clause-trace.ndjson")
        vlib.write_ndjson(btf, bad)
        bv = vlib.tlc("MC_Shapes", wd=wd, env={"MODE": "validate", "TRACE": btf, "POOL": pool}, tags=("REJECT",), workers=1,
                      out_file=os.path.join(wd, "tlc-neg-clause.out"))
        if bv.ok:
            vlib.tool_error("negative control accepted: a record with a corrupted clause passed validation")
        # a trace that misses a case must fail the completeness assumption
        mtf = os.path.join(wd, "neg-missing-trace.ndjson")
        vlib.write_ndjson(mtf, recs[1:])
        mv = vlib.tlc("MC_Shapes", wd=wd, env={"MODE": "validate", "TRACE": mtf, "POOL": pool, "FULL": "1"}, tags=("REJECT",),
                      workers=1, out_file=os.path.join(wd, "tlc-neg-missing.out"))
        if mv.ok:
            vlib.tool_error("negative control accepted: an incomplete trace passed the completeness assumption")
        ev.add("negative_controls_rejected", len(nrej) + len(nrej2) + 2)

        # 4. the deferred shape constraints live in the type checker's union-find: its event log (hooks, --cfg sylt_verif)
        #    must be a behaviour of SyltUnify, constraint counts included
        n_unify = unify_phase().run(ctx, ev, verdicts, PID, wd)
        ev.set(unify_logs_validated=n_unify)

    ev.add("states", v.distinct)
    ev.add("transitions", v.generated)
    sample_ix = [0, len(recs) // 2, len(recs) - 1] if len(recs) > 2 else [0]
    ev.set(traces_validated_against_impl=len(recs) + fam_n, programs=2 * len(recs) + fam_n, evaluations=2 * len(recs) + fam_n,
           distinct_nontrivial=effective + fam_effective, cases=len(recs), kinds=len(kinds), cases_per_clause=clauses,
           rejected_by_compiler=sum(1 for (rj, _) in generator_problems if rj["why"] == "base-rejected"),
           planted_stopped_by_parser=sum(1 for (rj, _) in generator_problems if rj["why"] == "planted-rejected-by-parser"),
           bases_loaded=sum(1 for x in recs if x["base"]["loads"] == "yes"),
           rejects=len(rejects), pool=pool, exhaustive=not ctx.replay,
           rule="every case of SyltShapes!Cases for a pool of %d member names (sets of size 0-3, generic or not): violation kind x "
                "declaration shape x context, plus the entry-point programs; each case = accepted base + planted variant, both compiled with "
                "std, accepted bases loaded in minilua; a case is non-trivial when its base is accepted and its planted variant gets past "
                "the parser (so the verdict is about the rule under test); distinct by case id (TLC: IdsUnique). Plus every key of "
                "SyltShapesFam (one program each, compiled without std, accepted ones loaded): function flavour x loop-carrying context x "
                "word x position x own loop or not, and arm multiset (enums of 1-%d variants, <= variants+1 arms over the variants and one "
                "unknown name, 3 orders) x bindings x else x statement/expression x scrutinee; non-trivial when the program is accepted where "
                "the rule accepts, or gets past the parser where the rule rejects; distinct by key. Plus every key of SyltShapesFam2: "
                "(ord) carrier blob / enum x 14 positions of a user type B in the member type x B blob / enum / generic x every order "
                "of the declarations x provenance x 5 uses; (lpos) 17 sites of a loop x 7 enclosing contexts x break / continue / ret x "
                "purity; (seq) all pairs (and triples over a core set) of uses of an enum / generic enum / blob / generic blob / tuple "
                "value x 12 links" % (pool, maxv),
           samples=[{"id": recs[i]["id"], "clause": recs[i]["clause"], "base": recs[i]["base"]["class"],
                     "planted": recs[i]["planted"]["class"], "planted_error_kinds": recs[i]["planted"]["kinds"]} for i in sample_ix],
           known_findings_hit=verdicts.known_hits)
    ev.assume("one variant may be listed by several arms of a case (the unchanged compiler accepts a total case with a repeated arm): only the "
              "SET of listed names counts for totality",
              "a `pu` start is within 'a start function of type fn -> void' (used as an accepted control); `from other use start` is left out",
              "minilua's loader stands in for Lua 5.3's (break outside a loop, goto without a visible label, syntax errors are load errors)",
              "the printer renders the case ASTs faithfully; a planted program stopped by the parser is counted as a generator problem, not as a rejection")
    rc = verdicts.finish()
    ev.violations = len(verdicts.violations)
    ev.write()
    return rc
