"""C05 - blob, enum, tuple, loop and entry-point shape rules are enforced.

SyltShapes (TLA+) defines the universe: every violation kind at every declaration shape (field / variant sets of
size 0-3 from a small pool, generic or not; tuple lengths 1-3) as an accepted base snippet plus the same snippet with
the violation planted, placed in every context (start, helper, global initialiser, closure, branches, case arms,
loop body, blob method), and the entry-point programs (single- and two-file projects). MC_Shapes checks the universe
itself (ASSUMEs: cells inhabited, planted # base, ids unique, clause total) and emits one record per case. The harness
renders, compiles and loads; MC_Shapes (MODE=validate) then evaluates the expectation on every recorded observation:
base accepted and its Lua loads, planted rejected (after the parser). FULL=1 makes TLC also require that the trace
covers exactly the universe.
"""
import json
import os
import random
import vlib

PID = "C05"
VERDICT_WHYS = ("planted-accepted", "planted-panic", "base-panic", "base-does-not-load")
GENERATOR_WHYS = ("base-rejected", "planted-rejected-by-parser")


def dedupe(records):
    seen = {}
    for (_, p) in records:
        seen.setdefault(json.dumps(p["id"], sort_keys=True), p)
    return list(seen.values())


def record_and_validate(wd, name, cases, pool, full, env=None, workers=None):
    cf = os.path.join(wd, name + "-cases.ndjson")
    tf = os.path.join(wd, name + "-trace.ndjson")
    vlib.write_ndjson(cf, cases)
    vlib.harness("c05", ["record", cf, tf], env=env)
    recs = vlib.read_ndjson(tf)
    if len(recs) != len(cases):
        vlib.tool_error("%s: %d cases but %d records" % (name, len(cases), len(recs)))
    e = {"MODE": "validate", "TRACE": tf, "POOL": pool}
    if full:
        e["FULL"] = "1"
    v = vlib.tlc("MC_Shapes", wd=wd, env=e, tags=("REJECT",), workers=workers, timeout=1500,
                 out_file=os.path.join(wd, "tlc-%s.out" % name))
    rejects = list({p["rec"]: p for (_, p) in v.records}.values())
    return recs, v, rejects


def signature(rej):
    i = rej["id"]
    return "C05|%s|%s|%s|%s" % (i["kind"], i["shape"], i["ctx"], rej["why"])


def unify_phase():
    import importlib.util
    spec = importlib.util.spec_from_file_location("unify_phase", os.path.join(vlib.ROOT, "checks", "unify_phase.py"))
    m = importlib.util.module_from_spec(spec)
    spec.loader.exec_module(m)
    return m


def run(ctx):
    tier = ctx.tier
    wd = vlib.workdir(PID)
    ev = vlib.Evidence(PID, tier, "model_checking")
    verdicts = vlib.Verdicts(PID)
    vlib.build_harness()
    pool = 3 if tier == "quick" else 4

    if ctx.replay and "unify-trace" in json.load(open(ctx.replay)).get("signature", ""):
        # a replay of the union-find trace validation (phase 4)
        unify_phase().run(ctx, ev, verdicts, PID, wd)
        ev.set(samples=[json.load(open(ctx.replay))["signature"]], traces_validated_against_impl=1)
        rc = verdicts.finish()
        ev.violations = len(verdicts.violations)
        ev.write()
        return rc
    if ctx.replay:
        rp = json.load(open(ctx.replay))["replay"]
        cases = [rp["case"]]
        pool = rp.get("pool", 4)
    else:
        # 1. the universe: spec-level sanity (ASSUMEs) and emission
        r = vlib.tlc("MC_Shapes", wd=wd, env={"MODE": "emit", "POOL": pool}, timeout=1500,
                     out_file=os.path.join(wd, "tlc-emit.out"))
        vlib.require_tlc_ok(r, "MC_Shapes emit (universe sanity + emission)")
        cases = dedupe(r.records)
        if r.coverage.get("Emit", (0, 0))[1] < len(cases) or len(cases) < 900:
            vlib.tool_error("vacuity: %d cases emitted, Emit fired %s times" % (len(cases), r.coverage.get("Emit")))
        ev.set(states=r.distinct, transitions=r.generated, universe_cases=len(cases),
               spec_assumptions_checked=["IdsUnique", "PlantedDiffers", "ClauseTotal", "CellsInhabited", "ShapesCovered",
                                         "EntryCovered", "TraceComplete"])

    # 2. conformance: render, compile, load; TLC evaluates the expectation
    recs, v, rejects = record_and_validate(wd, "main", cases, pool, full=not ctx.replay)
    vlib.require_tlc_ok(v, "MC_Shapes validate")
    if v.coverage.get("Validate", (0, 0))[1] < len(recs):
        vlib.tool_error("vacuity: Validate fired %s times for %d records" % (v.coverage.get("Validate"), len(recs)))
    generator_problems = []
    for rej in rejects:
        rec = recs[rej["rec"] - 1]
        case = cases[rej["rec"] - 1]
        if rej["why"] in GENERATOR_WHYS:
            generator_problems.append((rej, rec))
            continue
        if rej["why"] not in VERDICT_WHYS:
            vlib.tool_error("unexpected reject class %r" % rej["why"])
        what = "%s (%s): base %s/%s, planted %s/%s %s" % (
            rej["why"], rej["clause"], rec["base"]["class"], rec["base"]["loads"], rec["planted"]["class"],
            rec["planted"]["loads"], (rec["planted"]["detail"] or rec["base"]["detail"])[:160])
        verdicts.add(signature(rej), what,
                     {"case": case, "pool": pool, "observed": {"base": rec["base"], "planted": rec["planted"]},
                      "src_base": rec.get("src_base"), "src_planted": rec.get("src_planted")})
    # a base the compiler rejects, or a planted program that does not get past the parser, says nothing about the
    # rule: the generator has to be repaired when that is more than a few cases
    ngen = len(generator_problems)
    for (rej, rec) in generator_problems[:10]:
        print("NOTE generator: %s %s :: %s" % (rej["why"], json.dumps(rej["id"], sort_keys=True),
                                               (rec["base"]["detail"] or rec["planted"]["detail"])[:200]))
    if ngen * 20 > len(recs):
        vlib.tool_error("vacuity: %d of %d cases do not exercise their rule (base rejected / planted stopped by the parser)" % (ngen, len(recs)))

    kinds = sorted({c["id"]["kind"] for c in cases})
    clauses = {}
    for c in cases:
        clauses[c["clause"]] = clauses.get(c["clause"], 0) + 1
    effective = len(recs) - ngen

    if not ctx.replay:
        if len(clauses) != 9:
            vlib.tool_error("vacuity: only %d of the 9 clauses have cases" % len(clauses))
        # 3. negative controls (binding demonstration) on a seeded sample
        rnd = random.Random(ctx.seed)
        sub = rnd.sample(cases, 60)
        _, nv, nrej = record_and_validate(wd, "neg-accept", sub, pool, False, env={"C05_STUB": "accept"}, workers=4)
        vlib.require_tlc_ok(nv, "negative control (accept stub)")
        if len(nrej) != len(sub) or any(x["why"] != "planted-accepted" for x in nrej):
            vlib.tool_error("negative control accepted: a compiler accepting every planted program was rejected only %d/%d times" % (len(nrej), len(sub)))
        _, nv2, nrej2 = record_and_validate(wd, "neg-noload", sub, pool, False, env={"C05_STUB": "noload"}, workers=4)
        vlib.require_tlc_ok(nv2, "negative control (noload stub)")
        nload = sum(1 for x in nrej2 if x["why"] == "base-does-not-load")
        if len(nrej2) != len(sub) or nload * 2 < len(sub):
            vlib.tool_error("negative control accepted: unloadable base Lua was rejected only %d/%d times" % (nload, len(sub)))
        # a record that names another clause than the specification derives for its kind must stop TLC (Assert)
        bad = json.loads(json.dumps(recs[:5]))
        bad[2]["clause"] = "tuple-index" if bad[2]["clause"] != "tuple-index" else "entry-point"
        btf = os.path.join(wd, "neg-clause-trace.ndjson")
        vlib.write_ndjson(btf, bad)
        bv = vlib.tlc("MC_Shapes", wd=wd, env={"MODE": "validate", "TRACE": btf, "POOL": pool}, tags=("REJECT",), workers=1,
                      out_file=os.path.join(wd, "tlc-neg-clause.out"))
        if bv.ok:
            vlib.tool_error("negative control accepted: a record with a corrupted clause passed validation")
        # a trace that misses a case must fail the completeness assumption
        mtf = os.path.join(wd, "neg-missing-trace.ndjson")
        vlib.write_ndjson(mtf, recs[1:])
        mv = vlib.tlc("MC_Shapes", wd=wd, env={"MODE": "validate", "TRACE": mtf, "POOL": pool, "FULL": "1"}, tags=("REJECT",),
                      workers=1, out_file=os.path.join(wd, "tlc-neg-missing.out"))
        if mv.ok:
            vlib.tool_error("negative control accepted: an incomplete trace passed the completeness assumption")
        ev.set(negative_controls_rejected=len(nrej) + len(nrej2) + 2)

        # 4. the deferred shape constraints live in the type checker's union-find: its event log (hooks, --cfg sylt_verif)
        #    must be a behaviour of SyltUnify, constraint counts included
        n_unify = unify_phase().run(ctx, ev, verdicts, PID, wd)
        ev.set(unify_logs_validated=n_unify)

    ev.add("states", v.distinct)
    ev.add("transitions", v.generated)
    sample_ix = [0, len(recs) // 2, len(recs) - 1] if len(recs) > 2 else [0]
    ev.set(traces_validated_against_impl=len(recs), programs=2 * len(recs), evaluations=2 * len(recs),
           distinct_nontrivial=effective, cases=len(recs), kinds=len(kinds), cases_per_clause=clauses,
           rejected_by_compiler=sum(1 for (rj, _) in generator_problems if rj["why"] == "base-rejected"),
           planted_stopped_by_parser=sum(1 for (rj, _) in generator_problems if rj["why"] == "planted-rejected-by-parser"),
           bases_loaded=sum(1 for x in recs if x["base"]["loads"] == "yes"),
           rejects=len(rejects), pool=pool, exhaustive=not ctx.replay,
           rule="every case of SyltShapes!Cases for a pool of %d member names (sets of size 0-3, generic or not): violation kind x "
                "declaration shape x context, plus the entry-point programs; each case = accepted base + planted variant, both compiled with "
                "std, accepted bases loaded in minilua; a case is non-trivial when its base is accepted and its planted variant gets past "
                "the parser (so the verdict is about the rule under test); distinct by case id (TLC: IdsUnique)" % pool,
           samples=[{"id": recs[i]["id"], "clause": recs[i]["clause"], "base": recs[i]["base"]["class"],
                     "planted": recs[i]["planted"]["class"], "planted_error_kinds": recs[i]["planted"]["kinds"]} for i in sample_ix],
           known_findings_hit=verdicts.known_hits)
    ev.assume("a `pu` start is within 'a start function of type fn -> void' (used as an accepted control); `from other use start` is left out",
              "minilua's loader stands in for Lua 5.3's (break outside a loop, goto without a visible label, syntax errors are load errors)",
              "the printer renders the case ASTs faithfully; a planted program stopped by the parser is counted as a generator problem, not as a rejection")
    rc = verdicts.finish()
    ev.violations = len(verdicts.violations)
    ev.write()
    return rc
