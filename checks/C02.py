"""C02 - type soundness: accepted programs never hit dynamic type errors.

SyltSound (TLA+) defines the universe of ALMOST-WELL-TYPED programs: a menu of 30 perturbation kinds (P1..P30: literal of
another type, operator of another class, argument dropped/added, declaration moved into a branch with the use left
after it, use before declaration, call of a non-function, missing field, function parameter at two types, branches of
different types, void as value, variant payloads, list element types, field / variable assigned another type, global
order, case bindings, annotations, return types, tuple index, conditions, missing return, a value of a similar user type,
an ill-typed operand routed through an un-annotated parameter by provenance, a name used outside its region, a global
initialiser depending on itself through a call, two-point operator / compound-assignment perturbations, a value of still unknown
type sent through a generic container inside a helper that is called at another type, an operator applied to the content of a
generic holder BEFORE its type is determined elsewhere, a case without else that is not total) applied at EVERY applicable
node of well-typed bases: 19 dedicated programs (one of them perturbed inside the common Prelude too), SyltGen's templates in their harness contexts, and (thorough) a seeded
shard of the pairwise nesting.  TLC (MC_Sound, MODE=emit) enumerates (base, site, alternative) and prints the programs.
The recorder (c02) compiles each with the real compiler and runs ONLY the accepted ones in minilua, logging the run.
TLC (Trace_Sound) re-derives every case from its id, validates the recorded events against SyltSound's outcome
protocol (a dynamic type error / other runtime error / read of a never-written global is not a behaviour) and runs the
accepted program in the strict reference semantics SyltSem (stuck:<why> = spec-level dynamic type error; nil printed
where the reference run prints a value).  Every rejected record is a violation with a signature from the case:
    C02|<failure class>|<perturbation kind>:<variant>|<base>
"""
import json
import os
import sys
import vlib

PID = "C02"
HARNESSES = ["global", "recl", "recr", "loopclo", "method"]
TOOL_WHYS = ("malformed-trace", "unsupported")
TRACE_LETTERS = {"S": "TStart", "E": "TCompileErr", "O": "TCompileOk", "G": "TGlobals", "P": "TPrint", "T": "TTerminal"}


def signature(case, why):
    """failure class | perturbation kind:variant | base (template or dedicated program), all from the case"""
    return "C02|%s|%s:%s|%s" % (why, case["kd"], case["v"], case["id"]["b"]["o"])


def tail_of(src):
    """program text after the common part (the Prelude ends with `twice`, the similar-type declarations with `WI`)"""
    i = src.find("twice :: fn")
    j = src.find("\nend\n", i)
    cut = j + 5 if i >= 0 and j >= 0 else 0
    i = src.find("WI :: blob {")
    j = src.find("\n}\n", i)
    if i >= 0 and j >= 0:
        cut = max(cut, j + 3)
    return src[cut:].strip("\n")


def emit(wd, name, env, timeout):
    e = {"MODE": "emit"}
    e.update(env)
    r = vlib.tlc("MC_Sound", wd=wd, env=e, tags=("REPLAY", "PRELUDE", "MENU"), workers=4, timeout=timeout, xmx="8g", coverage=False,
                 out_file=os.path.join(wd, "tlc-emit-%s.out" % name))
    vlib.require_tlc_ok(r, "MC_Sound emit/" + name)
    prelude = [p for (t, p) in r.records if t == "PRELUDE"][0]
    menu = [p for (t, p) in r.records if t == "MENU"][0]
    byid = {}
    for (t, p) in r.records:
        if t == "REPLAY":
            byid[json.dumps(p["id"], sort_keys=True)] = p      # PrintT may be evaluated twice: dedupe by id
    r.records = []                                              # (a thorough universe is > 100 000 programs: do not keep them twice)
    return r, prelude, menu, list(byid.values())


def slim(cases):
    """drop the programs from memory once they are on disk (cases file of record()); keep their hash for the statistics"""
    for c in cases:
        if "tops" in c:
            c["sha"] = vlib.sha(c["tops"])
            del c["tops"]


def full_cases(cf, wanted):
    """the complete cases (with their programs) number `wanted` (1-based), read back from the cases file"""
    out = {}
    if wanted:
        want = set(wanted)
        with open(cf) as f:
            for n, line in enumerate(f, 1):
                if n in want:
                    out[n] = json.loads(line)
    return out


def record(wd, name, prelude, cases, stub=None):
    pf = os.path.join(wd, "prelude.json")
    cf = os.path.join(wd, name + "-cases.ndjson")
    tf = os.path.join(wd, name + "-trace.ndjson")
    df = os.path.join(wd, name + "-detail.ndjson")
    json.dump(prelude, open(pf, "w"))
    vlib.write_ndjson(cf, cases)
    vlib.harness("c02", ["record", pf, cf, tf, df], timeout=3000, env={"C02_STUB": stub} if stub else None)
    trace = vlib.read_ndjson(tf)
    detail = vlib.read_ndjson(df)
    if len(trace) != len(cases) or len(detail) != len(cases):
        vlib.tool_error("recorder wrote %d/%d records for %d cases" % (len(trace), len(detail), len(cases)))
    return tf, trace, detail


def validate(wd, name, tf, progs=None, workers=4, timeout=2400, must_be_ok=True):
    # no -coverage: instrumenting the deeply recursive evaluators (tree engine, SyltSem) costs > 50x and exhausts the heap;
    # every record's RESULT line carries the trace actions taken instead
    env = {"TRACE": tf}
    if progs:
        env["PROGS"] = progs
    v = vlib.tlc("Trace_Sound", cfg="Trace_Sound.cfg", wd=wd, env=env, tags=("RESULT",), workers=workers, timeout=timeout,
                 xmx="10g", coverage=False, out_file=os.path.join(wd, "tlc-validate-%s.out" % name))
    if must_be_ok:
        vlib.require_tlc_ok(v, "Trace_Sound/" + name)
    results = {}
    for (_, p) in v.records:
        results[p["rec"]] = p                                   # PrintT may be evaluated twice: dedupe by record
    v.results = results
    rejects = {k: p for k, p in results.items() if p["why"] != ""}
    return v, rejects


def judge(verdicts, cases, trace, detail, rejects, prelude, cf=None):
    """rejected records -> violations (signature from the case); returns per-signature counts
    (cf: the cases file, when the programs were dropped from `cases` by slim())"""
    per_sig = {}
    full = full_cases(cf, list(rejects)) if cf else {}
    for idx in sorted(rejects):
        p = rejects[idx]
        c, t, d = full.get(idx, cases[idx - 1]), trace[idx - 1], detail[idx - 1]
        why = p["why"]
        if why in TOOL_WHYS or why.startswith("unsupported"):
            vlib.tool_error("record %d is not a log of the protocol (%s): %s" % (idx, why, str(t["ev"][-3:])[:300]))
        sig = signature(c, why)
        per_sig[sig] = per_sig.get(sig, 0) + 1
        run = d.get("run", {})
        what = "%s / %s at site %s of base %s (%s): accepted, then %s [lua: %s; reference run: %s] :: %s" % (
            c["kd"], c["v"], c["id"]["s"], c["id"]["b"]["o"], c["id"]["b"]["h"], why, str(run.get("lua_status"))[:120],
            p.get("spec"), " / ".join(tail_of(d.get("source", "")).split("\n"))[:200])
        verdicts.add(sig, what, {"case": c, "prelude": prelude, "why": why, "spec_status": p.get("spec"),
                                 "lua_status": run.get("lua_status"), "prints": run.get("prints"), "source": d.get("source")})
    return per_sig


def spec_selftest(wd, ev):
    r0 = vlib.tlc("MC_Sound", cfg="MC_Sound.cfg", wd=wd, env={"MODE": "protocol"}, workers=2, timeout=300, coverage=False,
                  out_file=os.path.join(wd, "tlc-protocol.out"))
    vlib.require_tlc_ok(r0, "SyltSound outcome protocol (free model)")
    r1 = vlib.tlc("MC_Sound", cfg="MC_Sound.cfg", wd=wd, env={"MODE": "protocol", "FAULTY": "1"}, workers=2, timeout=300, coverage=False,
                  out_file=os.path.join(wd, "tlc-protocol-faulty.out"))
    if r1.invariant_violated != "SndSound":
        vlib.tool_error("spec self-test: SndSound is not violated when a DynTypeError terminal is admitted (vacuous invariant?)")
    ev.set(protocol_model={"states": r0.distinct, "transitions": r0.generated, "faulty_model_violates": "SndSound"})
    return r0


def run(ctx):
    tier = ctx.tier
    wd = vlib.workdir(PID)
    ev = vlib.Evidence(PID, tier, "model_checking")
    verdicts = vlib.Verdicts(PID)
    vlib.build_harness(["c02"])

    if ctx.replay:
        rp = json.load(open(ctx.replay))["replay"]
        case, prelude = rp["case"], rp["prelude"]
        tf, trace, detail = record(wd, "replay", prelude, [case])
        pf = os.path.join(wd, "replay-progs.ndjson")
        vlib.write_ndjson(pf, [{"tops": (prelude if case.get("pre") else []) + case["tops"]}])
        v, rejects = validate(wd, "replay", tf, progs=pf, workers=1)
        print(detail[0].get("source", "(rejected by the compiler: errkind %s)" % detail[0].get("errkind")))
        print("events: %s" % [e for e in trace[0]["ev"] if e["e"] not in ("gw", "gr")])
        print("verdict: %s" % (rejects.get(1) or "conforms"))
        judge(verdicts, [case], trace, detail, rejects, prelude)
        ev.set(states=v.distinct, transitions=v.generated, traces_validated_against_impl=1, samples=[case["id"]])
        rc = verdicts.finish()
        ev.violations = len(verdicts.violations)
        ev.write()
        return rc

    p0 = spec_selftest(wd, ev)

    # ---- the universe
    seed = vlib.seed()
    if tier == "quick":
        extra = HARNESSES[seed % len(HARNESSES)]
        env = {"FAMILY": "dedicated,singles", "HARNESSES": "start," + extra}
        universe_rule = "dedicated bases (all sites, Prelude included) + every single template in the harnesses start and %s (seeded)" % extra
        min_cases, min_run = 8000, 700
    else:
        nshards = 64
        env = {"FAMILY": "dedicated,singles,pairs", "HARNESSES": "all", "NSHARDS": nshards, "SHARD": seed % nshards}
        universe_rule = "dedicated bases + every single template in every harness + shard %d of %d of the pairwise nesting (seeded)" % (seed % nshards, nshards)
        min_cases, min_run = 50000, 5000
    r, prelude, menu, cases = emit(wd, "universe", env, timeout=3000)
    if r.depth != 2 or len(cases) < min_cases:
        vlib.tool_error("vacuity: %d sites, %d cases (want >= %d)" % (r.distinct // 2, len(cases), min_cases))
    kinds_emitted = {}
    for c in cases:
        kinds_emitted[c["kd"]] = kinds_emitted.get(c["kd"], 0) + 1
    missing = [k for k in menu["kinds"] if k not in kinds_emitted]
    if missing:
        vlib.tool_error("vacuity: perturbation kinds without a single case: %s" % missing)
    # the index-addressed families (P28 / P29) are rotated over the bodies of the dense base: every combination must show up there
    dense_variants = {}
    for c in cases:
        if c["id"]["b"]["o"] == "D:twopoint" and c["kd"][:3] in ("P28", "P29"):
            dense_variants.setdefault(c["kd"][:3], set()).add(c["v"])
    want_variants = {"P28": menu["p28"], "P29": menu["p29local"] + menu["p29global"]}
    for kd, want in want_variants.items():
        if len(dense_variants.get(kd, ())) != want:
            vlib.tool_error("vacuity: the dense base shows %d of the %d combinations of %s (the rotation over its bodies no longer covers them)" % (
                len(dense_variants.get(kd, ())), want, kd))

    # ---- conformance: compile all, run the accepted ones, validate every record
    n = len(cases)
    step = max(1, n // 600)
    sub = [dict(c) for c in cases[::step][:700]]            # the subsample of the negative controls keeps its programs
    tf, trace, detail = record(wd, "universe", prelude, cases)
    slim(cases)
    v, rejects = validate(wd, "universe", tf, timeout=3000)
    if sorted(v.results) != list(range(1, len(cases) + 1)):
        vlib.tool_error("Trace_Sound judged %d of %d records" % (len(v.results), len(cases)))
    action_counts = {}
    spec_status = {}
    for p in v.results.values():
        for ch in p["acts"]:
            action_counts[TRACE_LETTERS.get(ch, ch)] = action_counts.get(TRACE_LETTERS.get(ch, ch), 0) + 1
        cls = p["spec"].split("-")[0] if p["spec"].startswith("stuck:") else p["spec"]
        spec_status[cls] = spec_status.get(cls, 0) + 1
    idle = [a for a in TRACE_LETTERS.values() if action_counts.get(a, 0) == 0]
    if idle:
        vlib.tool_error("vacuity: trace actions never taken: %s" % idle)
    per_sig = judge(verdicts, cases, trace, detail, rejects, prelude, cf=os.path.join(wd, "universe-cases.ndjson"))

    accepted = [i for i in range(n) if detail[i]["accepted"]]
    errkinds = {}
    for d in detail:
        if not d["accepted"]:
            errkinds[d.get("errkind", "?")] = errkinds.get(d.get("errkind", "?"), 0) + 1
    rejected_by_checker = errkinds.get("type", 0) + errkinds.get("compile", 0)
    terminals = {}
    by_kind = {k: {"cases": 0, "rejected": 0, "accepted_and_run": 0, "violations": 0} for k in menu["kinds"]}
    for i in range(n):
        bk = by_kind[cases[i]["kd"]]
        bk["cases"] += 1
        if detail[i]["accepted"]:
            bk["accepted_and_run"] += 1
            te = trace[i]["ev"][-1]
            key = te["n"] + (":" + te["c"] if te["c"] and te["n"] != "resource_exhausted" else "")
            terminals[key] = terminals.get(key, 0) + 1
        else:
            bk["rejected"] += 1
    for idx in rejects:
        by_kind[cases[idx - 1]["kd"]]["violations"] += 1
    if errkinds.get("syntax", 0) > 0.03 * n:
        vlib.tool_error("vacuity: %d of %d perturbed programs do not even parse (printer / menu problem)" % (errkinds.get("syntax", 0), n))
    if rejected_by_checker < 0.3 * n:
        vlib.tool_error("vacuity: only %d of %d perturbed programs are rejected by the checker" % (rejected_by_checker, n))
    if len(accepted) < min_run:
        vlib.tool_error("vacuity: only %d perturbed programs were accepted and run (want >= %d)" % (len(accepted), min_run))
    if terminals.get("done", 0) < min_run // 2:
        vlib.tool_error("vacuity: only %d accepted programs ran to completion" % terminals.get("done", 0))
    kinds_never_accepted = sorted(k for k in by_kind if by_kind[k]["accepted_and_run"] == 0)

    # ---- negative controls: a recorder that reports a dynamic type error / a read of a never-written global for every
    # 5th accepted run must be rejected by TLC for exactly those records; a falsified kind must stop the validation
    neg_total = 0
    for stub, expect in (("dynerr", "dyn_type_error:arith-on-nil"), ("unwritten", "read-of-unwritten-global"),
                         ("nilprint", "nil-where-value-expected")):
        ntf, ntrace, ndetail = record(wd, "neg-" + stub, prelude, sub, stub=stub)
        nv, nrej = validate(wd, "neg-" + stub, ntf, timeout=900)
        want = [i + 1 for i in range(len(sub)) if ndetail[i]["stubbed"]]
        if stub == "nilprint":     # only runs whose reference run prints a value first can show the falsified nil
            want = [i for i in want if nv.results[i]["spec"] == "done" and ndetail[i - 1]["run"]["prints"][:1] not in ([], ["nil"])]
        # a stubbed record that is a genuine violation anyway may be rejected for its own (earlier) reason
        missed = [i for i in want if i not in nrej]
        wrong = [i for i in want if i in nrej and nrej[i]["why"] != expect and (i - 1) * step + 1 not in rejects]
        if not want or missed or wrong:
            vlib.tool_error("negative control %s: %d stubbed records, %d not rejected, %d rejected for another reason" % (
                stub, len(want), len(missed), len(wrong)))
        neg_total += len(want)
    bad = [dict(t) for t in trace[:3]]
    bad[1] = dict(bad[1], kd="P1-literal-other-type" if bad[1]["kd"] != "P1-literal-other-type" else "P3-argument-count")
    btf = os.path.join(wd, "neg-kind-trace.ndjson")
    vlib.write_ndjson(btf, bad)
    bv, _ = validate(wd, "neg-kind", btf, workers=1, timeout=600, must_be_ok=False)
    if bv.ok or "not the one the specification derives" not in (bv.error or ""):
        vlib.tool_error("negative control: a record with a falsified perturbation kind was not refused by the re-derivation")
    neg_total += 1

    # ---- evidence
    samples = []
    for i in ([0, n // 3, (2 * n) // 3, n - 1]):
        samples.append({"id": cases[i]["id"], "kind": cases[i]["kd"], "variant": cases[i]["v"], "accepted": detail[i]["accepted"],
                        "terminal": trace[i]["ev"][-1]["n"] if detail[i]["accepted"] else "compile_err"})
    for idx in sorted(rejects)[:2]:
        samples.append({"id": cases[idx - 1]["id"], "kind": cases[idx - 1]["kd"], "variant": cases[idx - 1]["v"], "accepted": True,
                        "rejected_by_spec": rejects[idx]["why"], "program_tail": tail_of(detail[idx - 1].get("source", ""))[:600]})
    ev.set(states=v.distinct + r.distinct + p0.distinct, transitions=v.generated + r.generated + p0.generated,
           traces_validated_against_impl=n, programs=n, evaluations=n,
           distinct_nontrivial=len({cases[i]["sha"] for i in accepted}), distinct_programs=len({c["sha"] for c in cases}),
           bases=menu["bases"], sites=r.distinct // 2, perturbation_kinds=len(menu["kinds"]),
           indexed_family_sizes={"P28": menu["p28"], "P29-local": menu["p29local"], "P29-global": menu["p29global"]},
           rejected_by_compiler=n - len(accepted), rejected_by_checker=rejected_by_checker, reject_kinds=errkinds,
           accepted_and_run=len(accepted), terminals=terminals, by_kind=by_kind, kinds_never_accepted=kinds_never_accepted,
           spec_rejects=len(rejects), violation_signatures=len(per_sig), signature_counts=per_sig,
           trace_actions_records=action_counts, reference_run_status=spec_status,
           emit_wall_s=round(r.wall_s, 1), validate_wall_s=round(v.wall_s, 1),
           negative_controls_rejected=neg_total, known_findings_hit=verdicts.known_hits, exhaustive=(tier == "thorough" and False),
           rule=universe_rule + "; every alternative of the 30-kind menu (two-point kinds P26/P27 dense in D:twopoint, every 20th combination elsewhere; the index-addressed "
                "families P28/P29: every combination 1-3 times over the bodies of D:twopoint, every 200th combination per body / every 144th per program elsewhere) at every node; non-trivial = the perturbed program was ACCEPTED by the compiler "
                "and run to a terminal event (the property only speaks about those); distinct by AST hash",
           samples=samples)
    ev.assume("minilua stands in for Lua 5.3; its error classes (arithmetic / call / index / compare / concat / bad argument) follow the reference manual's messages",
              "only programs without `external` and `unsafe_force` are generated; std is used through print, list.push/len, for_each, map, filter, fold",
              "the strict reference run initialises top-level definitions in dependency order (top-level order is C11's subject); programs outside "
              "SyltSem's builtin domain or numeric model are not judged by it (drop:*), only by the Lua-level protocol",
              "a spec-stuck verdict is claimed only when the compiler accepted the program: the reference semantics applies an operation to a value of the wrong kind")
    rc = verdicts.finish()
    ev.violations = len(verdicts.violations)
    ev.write()
    return rc
