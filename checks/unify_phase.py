"""Trace validation of the type checker's union-find against SyltUnify (used by C05; relevant to C03 and C02 as well).

The deferred checks of C05 (field exists, constant index in range, variant exists, case is total) and of C03 (operator
fits operand types) are CONSTRAINTS kept on union-find classes until the class's type is known.  SyltUnify states the
machine and the rule that makes that sound (NoConstraintLost); this phase
  1. model-checks SyltUnify on its own (all interleavings of push / add-constraint / union over 4 nodes) and requires the
     faulty "lossy union" variant to violate NoConstraintLost (the invariant is not vacuous),
  2. compiles, with the hooks of MANIFEST.hooks switched on (sylt built with --cfg sylt_verif), the programs of
     MC_UnifyProgs (un-annotated function x operation x argument provenance x argument types, emitted by TLC) and a sample
     of the maintainers' programs under /repo/tests, and records every push / constraint / copy / union event,
  3. lets TLC (Trace_Unify) decide whether each recorded log is a behaviour of SyltUnify, comparing the implementation's
     representative, class size and NUMBER OF CONSTRAINTS after every step with the specification's,
  4. negative control: a recorder that reports one constraint fewer after some union must be rejected.
"""
import glob
import json
import os
import random
import vlib


def run(ctx, ev, verdicts, pid, wd):
    tier = ctx.tier
    # 1. the specification on its own
    m = vlib.tlc("MC_Unify", wd=wd, workers=4, timeout=900, out_file=os.path.join(wd, "tlc-unify-model.out"))
    vlib.require_tlc_ok(m, "SyltUnify model")
    for act in ("MCPush", "MCAdd", "MCUnion"):
        if m.coverage.get(act, (0, 0))[1] == 0:
            vlib.tool_error("vacuity: SyltUnify action %s never taken" % act)
    lossy = vlib.tlc("MC_Unify", wd=wd, workers=4, timeout=900, env={"LOSSY": "1"}, out_file=os.path.join(wd, "tlc-unify-lossy.out"))
    if lossy.invariant_violated != "NoConstraintLost":
        vlib.tool_error("spec self-test: the lossy union does not violate NoConstraintLost (vacuous invariant?)")

    # 2. programs
    if ctx.replay:
        cases = [json.load(open(ctx.replay))["replay"]["case"]]
    else:
        stride = 4 if tier == "thorough" else 90
        g = vlib.tlc("MC_UnifyProgs", wd=wd, workers=4, timeout=1800, tags=("REPLAY",),
                     env={"STRIDE": stride, "OFFSET": ctx.seed}, out_file=os.path.join(wd, "tlc-unify-progs.out"))
        vlib.require_tlc_ok(g, "MC_UnifyProgs")
        seen, cases = set(), []
        for (_, p) in g.records:
            k = json.dumps(p["id"], sort_keys=True)
            if k not in seen:
                seen.add(k)
                cases.append(p)
        if len(cases) < 250:
            vlib.tool_error("vacuity: only %d programs of MC_UnifyProgs" % len(cases))
        files = sorted(glob.glob("/repo/tests/*/*.sy") + glob.glob("/repo/tests/*.sy"))
        if tier != "thorough":
            random.Random(ctx.seed).shuffle(files)
            files = sorted(files[:12])
        for f in files:
            cases.append({"id": {"op": "corpus", "file": f[len("/repo/tests/"):]}, "std": True, "src": open(f, errors="replace").read()})
    cf, tf = os.path.join(wd, "unify-cases.ndjson"), os.path.join(wd, "unify-trace.ndjson")
    vlib.write_ndjson(cf, cases)
    vlib.harness_hooked("unify", ["record", cf, tf])
    recs = vlib.read_ndjson(tf)
    if len(recs) != len(cases):
        vlib.tool_error("unify recorder returned %d records for %d programs" % (len(recs), len(cases)))

    # 3. validation
    t = vlib.tlc("Trace_Unify", cfg="Trace_Unify.cfg", wd=wd, env={"TRACE": tf}, tags=("REJECT",), timeout=3000, xmx="12g",
                 out_file=os.path.join(wd, "tlc-unify-trace.out"))
    vlib.require_tlc_ok(t, "Trace_Unify")
    for (_, p) in t.records:
        case = cases[p["rec"] - 1]
        fam = case["id"]["op"] if case["id"]["op"] != "corpus" else "corpus"
        verdicts.add("%s|unify-trace|%s|%s" % (pid, p["why"], fam),
                     "the type checker's union-find log is not a behaviour of SyltUnify: %s at event %d (%s); the specification's "
                     "class would hold %s constraints" % (p["why"], p["at"], json.dumps(p["event"])[:160], p.get("have")),
                     {"case": case, "event_index": p["at"], "event": p["event"], "why": p["why"]})
    if not ctx.replay:
        for act in ("TPush", "TCon", "TCons", "TUnion", "TFinish"):
            if t.coverage.get(act, (0, 0))[1] == 0:
                vlib.tool_error("vacuity: trace action %s never taken" % act)
        unions_with_constraints = sum(1 for r in recs for e in r["ev"] if e["e"] == "union" and e["n"] > 0)
        if unions_with_constraints < 500:
            vlib.tool_error("vacuity: only %d unions of classes that carry constraints" % unions_with_constraints)

        # 4. negative control
        sub = cases[:: max(1, len(cases) // 24)][:24]
        ncf, ntf = os.path.join(wd, "unify-neg-cases.ndjson"), os.path.join(wd, "unify-neg-trace.ndjson")
        vlib.write_ndjson(ncf, sub)
        vlib.harness_hooked("unify", ["record", ncf, ntf], env={"UNIFY_STUB": "lose"})
        nrecs = vlib.read_ndjson(ntf)
        want = {i + 1 for i, r in enumerate(nrecs) if i % 2 == 0 and any(e["e"] == "union" and e["n"] >= 0 for e in r["ev"])}
        nt = vlib.tlc("Trace_Unify", cfg="Trace_Unify.cfg", wd=wd, env={"TRACE": ntf}, tags=("REJECT",), workers=4, timeout=1800,
                      out_file=os.path.join(wd, "tlc-unify-neg.out"))
        vlib.require_tlc_ok(nt, "Trace_Unify negative control")
        got = {p["rec"] for (_, p) in nt.records}
        if not got or not got <= want or len(got) < len(want) // 2:
            vlib.tool_error("negative control: falsified logs %s, rejected %s" % (sorted(want)[:10], sorted(got)[:10]))
        ev.set(unify_negative_controls_rejected=len(got))
    nev = sum(len(r["ev"]) for r in recs)
    ev.add("states", m.distinct + t.distinct)
    ev.add("transitions", m.generated + t.generated)
    ev.set(unify={"model_states": m.distinct, "model_actions": {k: v[1] for k, v in m.coverage.items()},
                  "lossy_model_violates": "NoConstraintLost", "programs": len(cases),
                  "programs_accepted": sum(1 for r in recs if r["class"] == "ok"), "events_validated": nev,
                  "trace_actions": {k: v[1] for k, v in t.coverage.items() if k.startswith("T")},
                  "logs_rejected": len(t.records)})
    return len(recs)
