"""C04 - constants are immutable and pure functions stay pure.

SyltPurity (TLA+) defines the universe of cases (forbidden construct x form x placement) with, per case, the planted
program, its base programs and the clause of the property the planted program violates. Part D (round 3) crosses
the constructs forbidden inside `pu` with the kind of value involved (int, list, blob, tuple, pu / fn function, function literal) and the syntactic
position of the name / value (callee in four call surfaces, argument, operand, receiver, index base, arrow-call target). MC_Purity emits the tier's
share of the universe (mode emit; spec-level assertions: every cell of the cross products is inhabited, planted # base,
case ids are injective), the harness renders and compiles every program through sylt's public API, and MC_Purity
(mode validate) re-derives the universe, asserts that the recorded trace covers exactly the tier's share, and decides
per record: all bases accepted (otherwise VACUOUS) and the planted program rejected (otherwise REJECT).
"""
import json
import os
import vlib

PID = "C04"


def sig_of(cid, why):
    return "C04|%s|%s|%s|%s|%s" % (cid["part"], cid["kind"], cid["form"], cid["path"], why)


def _unescape(s):
    """TLC's string escapes are a subset of JSON's: unescape in C; fall back to vlib's loop for anything unexpected."""
    try:
        return json.loads('"' + s + '"', strict=False)
    except ValueError:
        return vlib._unescape_tla(s)


def stream_cases(log, cf):
    """Copy the REPLAY records of TLC's output into the case file one by one (the thorough universe is ~400 MB of JSON: it is
    never held in memory). Returns (number of distinct cases, cases per clause)."""
    seen, by_clause = set(), {}
    with open(log, encoding="utf-8", errors="replace") as lf, open(cf, "w") as out:
        for line in lf:
            if not line.startswith('<<"REPLAY", "'):
                continue
            m = vlib._PRINT_RE.match(line.rstrip("\n"))
            if not m:
                continue
            try:
                p = json.loads(_unescape(m.group(2)))
            except ValueError as ex:
                vlib.tool_error("cannot parse TLC print line: %s (%s)" % (line[:200], ex))
            h = vlib.sha(p["id"])
            if h in seen:          # an expression under ENABLED is evaluated twice
                continue
            seen.add(h)
            by_clause[p["clause"]] = by_clause.get(p["clause"], 0) + 1
            out.write(json.dumps(p, separators=(",", ":")) + "\n")
    return len(seen), by_clause


def pick(cf, idxs):
    """the cases with the given 0-based indices, read from the case file"""
    want, got = set(idxs), {}
    if want:
        with open(cf) as f:
            for i, line in enumerate(f):
                if i in want:
                    got[i] = json.loads(line)
    return got


def validate(wd, tf, tier, seed, name, replay_one=False, workers=None):
    env = {"MODE": "validate", "TRACE": tf, "TIER": tier, "SEED": seed}
    if replay_one:
        env["REPLAYONE"] = "1"
    # few workers: TLC evaluates the constant definitions (the universe) once per worker at start-up, the per-record work is tiny
    return vlib.tlc("MC_Purity", wd=wd, env=env, tags=("REJECT", "VACUOUS"), timeout=1500, xmx="8g", workers=workers or 2,
                    out_file=os.path.join(wd, "tlc-%s.out" % name))


def run(ctx):
    tier = ctx.tier
    wd = vlib.workdir(PID)
    ev = vlib.Evidence(PID, tier, "model_checking")
    verdicts = vlib.Verdicts(PID)
    vlib.build_harness()

    cf = os.path.join(wd, "cases.ndjson")
    tf = os.path.join(wd, "trace.ndjson")
    if ctx.replay:
        one = json.load(open(ctx.replay))["replay"]["case"]
        vlib.write_ndjson(cf, [one])
        ncases, by_clause = 1, {one["clause"]: 1}
    else:
        r = vlib.tlc("MC_Purity", wd=wd, env={"MODE": "emit", "TIER": tier, "SEED": ctx.seed}, tags=("UNIVERSE",),
                     timeout=1500, xmx="8g", workers=4, out_file=os.path.join(wd, "tlc-emit.out"))
        vlib.require_tlc_ok(r, "MC_Purity emit")
        uni = [p for (t, p) in r.records if t == "UNIVERSE"]
        ncases, by_clause = stream_cases(r.log, cf)
        if not uni or ncases != uni[0]["selected"]:
            vlib.tool_error("emit: %d cases printed, specification selected %s" % (ncases, uni[:1]))
        if r.coverage.get("Emit", (0, 0))[0] == 0:
            vlib.tool_error("vacuity: action Emit never fired")
        if ncases < (30000 if tier == "thorough" else 6000):
            vlib.tool_error("vacuity: only %d cases" % ncases)
        ev.set(universe_cases=uni[0]["all"], selected_cases=uni[0]["selected"], states=r.distinct, transitions=r.generated,
               exhaustive=(tier == "thorough"))
        if os.path.getsize(r.log) > 200e6:      # 0.5 GB in the thorough tier; everything needed is in the case file
            os.remove(r.log)

    vlib.harness("c04", ["record", cf, tf], timeout=1500)
    recs = vlib.read_ndjson(tf)
    v = validate(wd, tf, tier, ctx.seed, "validate", replay_one=bool(ctx.replay))
    vlib.require_tlc_ok(v, "MC_Purity validate")
    if v.coverage.get("Validate", (0, 0))[0] == 0:
        vlib.tool_error("vacuity: action Validate never fired")

    flagged = {}
    for (t, p) in v.records:
        flagged[p["rec"]] = (t, p["why"])
    vacuous = {}
    nviol = 0
    fcases = pick(cf, [k - 1 for k, (t, _) in flagged.items() if t != "VACUOUS"])
    for k, (t, why) in sorted(flagged.items()):
        rec, case = recs[k - 1], fcases.get(k - 1)
        cid = rec["id"]
        if t == "VACUOUS":
            vacuous.setdefault("%s|%s|%s" % (cid["part"], cid["kind"], cid["path"]), rec.get("bases_detail"))
            continue
        nviol += 1
        verdicts.add(sig_of(cid, why),
                     "%s: planted program %s (clause %s); first diagnostics: %s" % (
                         "/".join([cid["part"], cid["kind"], cid["form"], cid["path"]]),
                         "accepted" if why == "planted-accepted" else "made the compiler panic", case["clause"],
                         str(rec.get("planted_detail", ""))[:120]),
                     {"case": case, "planted_src": rec.get("planted_src"), "bases_src": rec.get("bases_src"),
                      "planted": rec["planted"], "bases": rec["bases"]})

    # vacuity guards: bases accepted (>= 95 % overall, per part, and in every kind / form / placement element)
    n = len(recs)
    nvac = sum(1 for (t, _) in flagged.values() if t == "VACUOUS")
    live = [recs[k]["id"] for k in range(n) if flagged.get(k + 1, ("", ""))[0] != "VACUOUS"]
    if not ctx.replay:
        if nvac > 0.05 * n:
            vlib.tool_error("vacuity: %d of %d cases have a rejected base program, e.g. %s" % (nvac, n, list(vacuous.items())[:3]))
        for part in "ABCD":
            tot = sum(1 for r_ in recs if r_["id"]["part"] == part)
            lv = sum(1 for i in live if i["part"] == part)
            if tot == 0 or lv < 0.95 * tot:
                vlib.tool_error("vacuity: part %s has %d live of %d cases" % (part, lv, tot))
        cells_all = {(r_["id"]["part"], r_["id"]["kind"], r_["id"]["form"]) for r_ in recs}
        cells_live = {(i["part"], i["kind"], i["form"]) for i in live}
        if cells_all - cells_live:
            vlib.tool_error("vacuity: no live case for %s" % sorted(cells_all - cells_live)[:5])
        for part in "ABD":
            el_all = {e for r_ in recs if r_["id"]["part"] == part for e in r_["id"]["path"].split(">")}
            el_live = {e for i in live if i["part"] == part for e in i["path"].split(">")}
            if el_all - el_live or len(el_all) < (11 if part == "A" else 13):   # 10 / 12 elements + "direct"
                vlib.tool_error("vacuity: part %s placement elements without a live case: %s (seen %d)" % (part, sorted(el_all - el_live), len(el_all)))

        # negative controls: (a) a stub that reports planted programs as accepted must be rejected by the specification,
        # (b) a trace with one record missing must fail the specification's completeness assumption
        held = [k for k in range(n) if (k + 1) not in flagged]
        subidx = held[:: max(1, len(held) // 60)][:60]
        subcases = pick(cf, subidx)
        sub = [subcases[k] for k in subidx]
        ncf, ntf = os.path.join(wd, "neg-cases.ndjson"), os.path.join(wd, "neg-trace.ndjson")
        vlib.write_ndjson(ncf, sub)
        vlib.harness("c04", ["record", ncf, ntf], env={"C04_STUB": "accept"})
        nv = validate(wd, ntf, tier, ctx.seed, "neg-stub", replay_one=True, workers=1)
        vlib.require_tlc_ok(nv, "MC_Purity negative control (stub)")
        want = {i + 1 for i in range(len(sub)) if i % 2 == 0}
        got = {p["rec"] for (t, p) in nv.records if t == "REJECT" and p["why"] == "planted-accepted"}
        if got != want:
            vlib.tool_error("negative control: stubbed records %s, rejected %s" % (sorted(want)[:10], sorted(got)[:10]))
        dtf = os.path.join(wd, "neg-dropped.ndjson")
        vlib.write_ndjson(dtf, recs[:-1])
        dv = validate(wd, dtf, tier, ctx.seed, "neg-drop", workers=1)
        if dv.ok or dv.timed_out:
            vlib.tool_error("negative control: a trace with a missing record was accepted as complete")
        ev.set(negative_controls_rejected=len(got) + 1)

    ev.add("states", v.distinct)
    ev.add("transitions", v.generated)
    ev.set(traces_validated_against_impl=n, programs=sum(1 + len(r_["bases"]) for r_ in recs), evaluations=n,
           distinct_nontrivial=len(live), cases_by_clause=by_clause, cases_by_part={p: sum(1 for r_ in recs if r_["id"]["part"] == p) for p in "ABCD"},
           base_rejected=nvac, base_rejected_examples=dict(list(vacuous.items())[:5]), planted_not_rejected=nviol,
           rule="cases of SyltPurity!Cases selected by MC_Purity!Selected (thorough: all; quick: all placements of length <= 1 (A) / <= 2 (B), "
                "a seeded 1/4 resp. 1/16 of the longer ones, all of C, all placements of length <= 1 and a seeded 1/16 of those of length 2 (D)); a case is non-trivial (live) when every base program is accepted, "
                "so that the planted construct is the only candidate reason for a rejection",
           samples=[{"id": r_["id"], "planted": r_["planted"], "bases": r_["bases"], "planted_src": r_.get("planted_src")} for r_ in recs[:3]],
           known_findings_hit=verdicts.known_hits)
    ev.assume("the printer renders the case ASTs faithfully (checked indirectly: >= 95 % of the base programs must be accepted, per part)",
              "a rejection of the planted program is attributed to the planted construct because the bases differ from it only in that construct",
              "rejection is observed as CompileResult::Err of sylt::compile_with_reader_to_writer with std bundled")
    rc = verdicts.finish(max_lines=60)
    ev.violations = len({s for (s, _, _) in verdicts.violations})
    ev.write()
    return rc
