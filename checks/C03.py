"""C03 - type mismatches are rejected at compile time.

Four universes, one specification (MC_Mismatch EXTENDS SyltSharing EXTENDS SyltOps EXTENDS SyltArrival EXTENDS SyltMismatch):
  * SyltMismatch: a table of mismatches (planted ill-typed expression / statements built from LITERALS and prelude
    functions, the well-typed base it replaces, the typing rule it violates) x every chain of contexts (innermost
    first, the last one a top that yields a whole program) of length <= Depth whose sorts and types fit;
  * SyltArrival: the same kinds of mismatch as CORES over operand slots (plus cores whose rule is a GENERIC signature
    of a user function or of a std function) x the ARRIVAL FORM of every operand (literal, constant / mutable local,
    global, blob field, tuple component, list element through std, case binding, captured variable, result of a user
    function / of a generic identity, parameter of an annotated function, parameter of an UN-ANNOTATED function whose
    call passes literals / variables / call results; two parameters of one function or of two nested closures)
    x context chains.  Definiteness is decided by the spec's core typing table over the explicit types the arrival
    forms deliver;
  * SyltOps: both operands of ONE type that does not have the operator (operator-type table Sup: str - str, bool + bool,
    lists, blobs, enums, tuples - also nested - with an unsupported component at one position): binary operators over two
    literals / two variables / ONE variable, field, call result or parameter twice (`s * s`), and the compound
    assignments += -= *= /= on a local, global, captured variable, blob field, field of a blob parameter with the value a
    literal, a variable or the target itself, as the last use and followed by a use; plus compound assignments with
    different types;
  * SyltSharing: contradictions that are definite only through SHARING - the offending types never meet at one construct, they are
    linked by one un-annotated binder / one value.  A case is a system of type equations and operator requirements over type
    variables; it is well typed iff some assignment of types satisfies all of them (TLC enumerates the assignments: Sat).  Family L:
    an operator on two tuples (also nested) of un-annotated parameters whose component types are fixed elsewhere in the function
    (annotated definition / constant, list literal, list annotation, call argument, assignment, ==, blob field, ret, tail), before /
    after / around the operator, in a local / immediate / global function.  Family V: one value with an unresolved element type
    ([], ([], 1), (1, []), [[]], generic blob, Maybe.Just []) held by a global constant / mutable global / local / parameter and
    used at two types (7 kinds of use, ordered pairs; globals also from two functions).  Family X: two compound types of width 3 / 4
    with repeated components in different patterns ((A,B,A) against (X,Y,Y)) equated with exactly one contradicting component
    (list of tuples - literal, through variables, nested -, tuple assignment, ==, fn a: *T, b: *T, generic blob values, two generic
    signatures over a tuple / enum, a generic function signature handed an un-annotated function).
MC_Mismatch
  * mode emit: checks the universes' sanity as ASSUMEs and prints one REPLAY record per case (base and planted
    program as ASTs);
  * mode validate: reads the compile results the harness (c03) recorded for both programs of every case, asserts that
    the records are exactly the specification's universe, and evaluates Verdict(record): REJECT with
    why in {planted-accepted, bytes-written, no-error-reported, panic} (violations) or base-rejected (generator problem).
quick   = table: full product to depth 2; arrival: every core x form vector in every top alone and in the three plainest
          statement positions under start, plus a seeded 1/MOD sample of all chains of length 2.
thorough = table: depth 3 (chains of 3 end in the canonical tops); arrival: all chains of length <= 2, plus every ordered
          pair of different arrival forms in one plain position; processed in slices.
"""
import hashlib
import json
import os
import sys
import time
import vlib

PID = "C03"
_T0 = time.time()
TLC_WORKERS = int(os.environ.get("C03_TLC_WORKERS", "4"))      # the machine is shared


def stage(name):
    """progress / timing line on stderr (VERIF_TIMING=1)"""
    if os.environ.get("VERIF_TIMING"):
        print("[C03 %6.1fs] %s" % (time.time() - _T0, name), file=sys.stderr)

VIOLATION_WHYS = ("planted-accepted", "bytes-written", "no-error-reported", "panic")


def signature(cid, why):
    path = cid["path"]
    inner = path[0]
    outer = path[1] if len(path) > 1 else "-"
    return "C03|%s|%s|%s|%s" % (cid["kind"], inner, outer, why)


def tail_of(src):
    """the program text after the common prelude (from the first top-level node of the case)"""
    i = src.find("mkp :: fn")
    j = src.find("\nend\n", i)
    return src[j + 5:].strip("\n") if i >= 0 and j >= 0 else src


def plan(tier):
    if tier == "quick":
        return {"DEPTH": 2, "FULL": 0, "PAIRS": 0, "MOD": 59, "NSLICE": 1, "SMOD": 236, "XMOD": 36}
    return {"DEPTH": 3, "FULL": 1, "PAIRS": 1, "MOD": 1, "NSLICE": 8, "SMOD": 30, "XMOD": 2}


def validate(wd, name, tf, env, complete, workers=None):
    e = dict(env, MODE="validate", TRACE=tf, COMPLETE=1 if complete else 0)
    # coverage off: TLC's cost model of the emitting definitions (deeply nested operators) does not fit in memory;
    # the vacuity guards below count records and generated states instead
    v = vlib.tlc("MC_Mismatch", wd=wd, env=e, tags=("REJECT",), workers=workers or TLC_WORKERS, timeout=1500, coverage=False,
                 out_file=os.path.join(wd, "tlc-%s.out" % name))
    vlib.require_tlc_ok(v, "MC_Mismatch validate/" + name)
    rejects = {p["rec"]: p["why"] for (_, p) in v.records}   # PrintT may be evaluated twice: dedupe by record
    return v, rejects


def run(ctx):
    tier = ctx.tier
    wd = vlib.workdir(PID)
    ev = vlib.Evidence(PID, tier, "model_checking")
    verdicts = vlib.Verdicts(PID)
    vlib.build_harness()
    stage("harness library built")
    pf = os.path.join(wd, "prelude.json")
    cf = os.path.join(wd, "cases.ndjson")
    tf = os.path.join(wd, "trace.ndjson")
    sf = os.path.join(wd, "sources.ndjson")

    if ctx.replay:
        rp = json.load(open(ctx.replay))["replay"]
        env0 = rp.get("env") or dict(plan("quick"), SEED=vlib.seed())
        if "env" not in rp and rp["case"]["id"]["depth"] >= 3:
            env0["DEPTH"] = 3
        slices = [None]
    else:
        env0 = dict(plan(tier), SEED=vlib.seed())
        slices = list(range(env0["NSLICE"]))

    # accumulated over the slices
    tot = {"cases": 0, "table_cases": 0, "arrival_cases": 0, "ops_cases": 0, "share_cases": 0, "bases_ok": 0, "states": 0, "transitions": 0, "emit_wall_s": 0.0}
    universe0 = None
    base_rejected = []
    accepted_by_kind = {}
    accepted_by_form = {}
    kinds_ok, kinds_all, inner_ok = set(), set(), set()
    cores_ok, forms_ok, derived_ok, ops_ok, share_ok = set(), set(), set(), set(), set()
    share_classes = {}
    planted_texts = set()
    samples = []
    neg_material = None

    for sl in slices:
        env = dict(env0)
        if sl is not None:
            env["SLICE"] = sl
        if ctx.replay:
            cases, prelude = [rp["case"]], rp["prelude"]
            universe = None
        else:
            r = vlib.tlc("MC_Mismatch", wd=wd, env=dict(env, MODE="emit"), tags=("REPLAY", "PRELUDE", "UNIVERSE"),
                         timeout=2400, xmx="6g" if tier == "quick" else "12g", coverage=False, workers=TLC_WORKERS, out_file=os.path.join(wd, "tlc-emit.out"))
            vlib.require_tlc_ok(r, "MC_Mismatch emit (spec-level sanity of the universe), slice %s" % sl)
            stage("emit done (slice %s)" % sl)
            prelude = [p for (t, p) in r.records if t == "PRELUDE"][0]
            universe = [p for (t, p) in r.records if t == "UNIVERSE"][0]
            byid = {}
            for (t, p) in r.records:
                if t == "REPLAY":
                    byid[json.dumps(p["id"], sort_keys=True)] = p
            cases = list(byid.values())
            del byid
            r.records = []
            ncases = universe["table_cases"] + universe["arrival_cases"] + universe["ops_cases"] + universe["share_cases"]
            if len(cases) != ncases:
                vlib.tool_error("TLC printed %d cases, the universe (slice %s) has %d" % (len(cases), sl, ncases))
            # vacuity: one Emit step per case (coverage is off, so count the states: one per key, one per case)
            if r.distinct != universe["keys"] + len(cases):
                vlib.tool_error("vacuity: TLC found %d states for %d keys and %d cases" % (r.distinct, universe["keys"], len(cases)))
            universe0 = universe0 or universe
            tot["states"] += r.distinct
            tot["transitions"] += r.generated
            tot["emit_wall_s"] += r.wall_s
            tot["table_cases"] += universe["table_cases"]
            tot["arrival_cases"] += universe["arrival_cases"]
            tot["ops_cases"] += universe["ops_cases"]
            tot["share_cases"] += universe["share_cases"]

        json.dump(prelude, open(pf, "w"))
        vlib.write_ndjson(cf, cases)
        stage("cases written")
        vlib.harness("c03", ["record", pf, cf, tf, sf], timeout=3000)
        stage("recorded")
        recs = vlib.read_ndjson(tf)
        srcs = vlib.read_ndjson(sf)
        if len(recs) != len(cases):
            vlib.tool_error("harness wrote %d records for %d cases" % (len(recs), len(cases)))
        v, rejects = validate(wd, "validate", tf, env, complete=not ctx.replay)
        if not ctx.replay and v.generated < 2 * len(recs):
            vlib.tool_error("vacuity: validation generated %d states for %d records" % (v.generated, len(recs)))
        stage("validated")
        tot["states"] += v.distinct
        tot["transitions"] += v.generated
        tot["cases"] += len(recs)

        for idx, why in sorted(rejects.items()):
            rec, src, case = recs[idx - 1], srcs[idx - 1], cases[idx - 1]
            cid = rec["id"]
            if why == "base-rejected":
                base_rejected.append({"id": cid, "detail": src["base_detail"], "base": tail_of(src["base_src"])})
                continue
            if why not in VIOLATION_WHYS:
                vlib.tool_error("unknown REJECT reason %r" % why)
            accepted_by_kind[cid["core"]] = accepted_by_kind.get(cid["core"], 0) + 1
            fk = "+".join(cid["forms"]) or "table"
            accepted_by_form[fk] = accepted_by_form.get(fk, 0) + 1
            what = "mismatch %s (rule %s) in context %s: planted program %s (errors=%d, bytes=%d): %s" % (
                cid["kind"], cid["rule"], ">".join(cid["path"]), rec["planted"], rec["nerr"], rec["bytes"],
                " / ".join(tail_of(src["planted_src"]).split("\n"))[:200])
            verdicts.add(signature(cid, why), what,
                         {"case": case, "prelude": prelude, "env": env, "observed": rec, "planted_source": src["planted_src"],
                          "planted_detail": src["planted_detail"]})

        if any(r_["same_text"] for r_ in recs):
            vlib.tool_error("a planted program renders to the same text as its base")
        for r_, s_ in zip(recs, srcs):
            i_ = r_["id"]
            kinds_all.add(i_["kind"])
            if r_["base"] == "ok":
                tot["bases_ok"] += 1
                kinds_ok.add(i_["kind"])
                inner_ok.add(i_["path"][0])
                planted_texts.add(hashlib.sha1(s_["planted_src"].encode()).digest()[:10])
                if i_["u"] == "share":
                    share_ok.add(i_["kind"])
                    share_classes[i_["core"]] = share_classes.get(i_["core"], 0) + 1
                elif i_["u"] == "ops":
                    ops_ok.add(i_["kind"])
                elif i_["u"] == "arrival":
                    cores_ok.add(i_["core"])
                    forms_ok.update(i_["forms"])
                    derived_ok.add(i_["kind"])
        n = len(recs)
        want_samples = [0, n - 1] if n > 1 else range(n)
        for cls in ("arrival", "ops", "share"):
            arr = [i for i in range(n) if recs[i]["id"]["u"] == cls]
            if arr:
                want_samples = list(want_samples) + [arr[len(arr) // 3], arr[(2 * len(arr)) // 3]]
        if len(samples) < 10:
            for i in want_samples:
                samples.append({"id": recs[i]["id"], "observed": {k: recs[i][k] for k in ("base", "planted", "nerr", "bytes")},
                                "base_source": tail_of(srcs[i]["base_src"]), "planted_source": tail_of(srcs[i]["planted_src"])})
        if neg_material is None and not ctx.replay:
            step = max(1, len(cases) // 90)
            neg_material = (cases[::step][:90], prelude, env)
        del cases, recs, srcs

    stage("slices done")
    # vacuity guards on the replayed universe
    n = tot["cases"]
    if base_rejected:
        for b in base_rejected[:5]:
            print("note: base program rejected (generator problem, not a verdict): %s :: %s" % (b["id"]["kind"], b["detail"][:200]), file=sys.stderr)
    if tot["bases_ok"] < 0.95 * n:
        vlib.tool_error("vacuity: only %d of %d base programs accepted" % (tot["bases_ok"], n))
    if not ctx.replay:
        u = universe0
        if n < (20000 if tier == "quick" else 100000):
            vlib.tool_error("vacuity: only %d cases" % n)
        table_kinds_ok = {k for k in kinds_ok if "@" not in k and ":" not in k}
        if len(ops_ok) != u["ops_keys"]:
            vlib.tool_error("vacuity: %d of %d operator-type mismatches have an accepted base" % (len(ops_ok), u["ops_keys"]))
        if len(share_ok) != u["share_keys"] or set(share_classes) != {"share-late-op", "share-hole", "share-crossed"}:
            vlib.tool_error("vacuity: %d of %d sharing mismatches have an accepted base (classes %s)" % (len(share_ok), u["share_keys"], sorted(share_classes)))
        if len(table_kinds_ok) != u["kinds"]:
            vlib.tool_error("vacuity: %d of %d table mismatch kinds have an accepted base" % (len(table_kinds_ok), u["kinds"]))
        if kinds_ok != kinds_all:
            vlib.tool_error("vacuity: mismatch kinds without an accepted base: %s" % sorted(kinds_all - kinds_ok)[:20])
        if len(inner_ok) != u["contexts"]:
            vlib.tool_error("vacuity: only %d of %d contexts occur innermost with an accepted base" % (len(inner_ok), u["contexts"]))
        if cores_ok != set(u["core_kinds"]):
            vlib.tool_error("vacuity: cores without an accepted base: %s" % sorted(set(u["core_kinds"]) - cores_ok))
        if forms_ok != set(u["form_names"]):
            vlib.tool_error("vacuity: arrival forms without an accepted base: %s" % sorted(set(u["form_names"]) - forms_ok))
        if len(derived_ok) != u["derived"]:
            vlib.tool_error("vacuity: %d of %d derived mismatches (core x form vector) have an accepted base" % (len(derived_ok), u["derived"]))

        # negative controls: a falsified planted observation must be rejected by the specification
        sub, prelude, env = neg_material
        ncf = os.path.join(wd, "neg-cases.ndjson")
        json.dump(prelude, open(pf, "w"))
        vlib.write_ndjson(ncf, sub)
        nrej_total = 0
        stubs = (("accept", "planted-accepted"), ("bytes", "bytes-written"), ("panic", "panic"))
        allrecs = []
        for stub, expect in stubs:
            ntf = os.path.join(wd, "neg-trace-%s.ndjson" % stub)
            vlib.harness("c03", ["record", pf, ncf, ntf, os.path.join(wd, "neg-src.ndjson")], env={"C03_STUB": stub})
            allrecs.append(vlib.read_ndjson(ntf))
        ntf = os.path.join(wd, "neg-trace.ndjson")
        vlib.write_ndjson(ntf, sum(allrecs, []))            # one validation run over the three falsified traces
        _, nrej = validate(wd, "neg", ntf, env, complete=False, workers=4)
        for j, (stub, expect) in enumerate(stubs):
            off = j * len(sub)
            want = [off + i + 1 for i in range(len(sub)) if i % 3 == 1 and allrecs[j][i]["base"] == "ok"]
            missed = [i for i in want if nrej.get(i) != expect and not (stub == "bytes" and nrej.get(i) in VIOLATION_WHYS)]
            if missed or not want:
                vlib.tool_error("negative control %s: %d of %d falsified records not rejected as %s" % (stub, len(missed), len(want), expect))
            nrej_total += len(want)
        unfalsified = [i + 1 for i in range(len(sub)) if i % 3 != 1 and allrecs[0][i]["base"] == "ok" and allrecs[0][i]["planted"] == "err"]
        if any(i in nrej for i in unfalsified):
            vlib.tool_error("negative control: an unfalsified conforming record was rejected")
        ev.set(negative_controls_rejected=nrej_total,
               universe={k: universe0[k] for k in ("kinds", "depth", "contexts", "cores", "forms", "derived", "ops_keys", "op_pairs",
                                                   "share_keys", "share_sizes")},
               arrival_forms=universe0["form_names"], arrival_cores=universe0["core_kinds"])

    n_accepted = sum(accepted_by_kind.values())
    ev.set(states=tot["states"], transitions=tot["transitions"], emit_wall_s=round(tot["emit_wall_s"], 1),
           traces_validated_against_impl=n, programs=2 * n, evaluations=2 * n, distinct_nontrivial=len(planted_texts),
           table_cases=tot["table_cases"], arrival_cases=tot["arrival_cases"], ops_cases=tot["ops_cases"],
           share_cases=tot["share_cases"], share_cases_by_family=share_classes, plan=env0,
           exhaustive=not ctx.replay, bases_accepted=tot["bases_ok"], bases_rejected=len(base_rejected),
           base_rejected_examples=base_rejected[:3],
           planted_rejected_as_required=tot["bases_ok"] - n_accepted,
           planted_not_rejected=n_accepted, planted_not_rejected_by_core=accepted_by_kind,
           planted_not_rejected_by_forms=accepted_by_form,
           violation_signatures=len({s for (s, _, _) in verdicts.violations}),
           rule="table: every mismatch of SyltMismatch!MM in every fitting context chain of length <= DEPTH (chains of 3 end in the tops "
                "start/global); arrival: every core x applicable form vector of SyltArrival (one slot: every form; two slots: both by "
                "the same form - one shared function and two nested closures for parameter forms - or one of them a literal; PAIRS: "
                "every ordered pair) in the chains AChains (FULL: all of length <= 2; otherwise tops alone, unused/definfer/printarg "
                "under start and a seeded 1/MOD sample of length 2); ops: every operator x same unsupported type (SyltOps!Sup) x shape "
                "(binary: 6 operand shapes x 3 uses; compound assignment: 5 targets x 3 values x last/used) and the different-type compound "
                "assignments, in every top alone and all (FULL) / a seeded 1/MOD sample of the chains of length 2; sharing (SyltSharing): every "
                "key of family L (operator x component types rejected by the typing model x tuple shape x pin-site pair x scenario), V (type pair x "
                "holder x value shape x ordered pair of uses) and X (carrier x binding x pattern pair x grounding with exactly one contradicting "
                "component; generic signatures) - quick: a seeded third of L and V, width 3 of X completely, 1/XMOD of width 4; thorough: all of L "
                "and V, 1/XMOD of width 4 - under start plus a seeded 1/SMOD sample of the other tops and chains of length 2; each case compiled in base and planted form with std; "
                "distinct_nontrivial = distinct planted program texts whose base form the compiler accepted",
           samples=samples[:10], known_findings_hit=verdicts.known_hits)
    ev.assume("the mismatches are the property's list instantiated with literals and the prelude's functions/blobs (table MM) and with operands "
              "that arrive through the forms of SyltArrival, with two operands of one type lacking the operator (SyltOps), and with contradictions "
              "spread over several constructs that share one un-annotated binder / one value (SyltSharing: definite iff the system of type equations "
              "and operator requirements of the case has no solution - TLC enumerates the assignments); the rule each violates is stated in the tables and decided by the spec's operator "
              "/ core typing table over explicit types (literal types, repeated by every annotation an arrival form writes)",
              "the printer renders the ASTs faithfully (an unfaithful rendering shows up as a rejected base or as identical base/planted text: both guarded)",
              "int < float is accepted by design (Cmp) and is not planted; an un-annotated function used at two incompatible types by two call "
              "sites is accepted by design (per-call instantiation) and is not planted")
    stage("controls done")
    rc = verdicts.finish()
    ev.violations = len(verdicts.violations)
    ev.write()
    return rc
