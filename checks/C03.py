"""C03 - type mismatches are rejected at compile time.

SyltMismatch (TLA+) defines the universe: a table of mismatches (planted ill-typed expression / statements, the
well-typed base it replaces, the typing rule it violates) x every chain of contexts (innermost first, the last one
a top that yields a whole program) of length <= Depth whose sorts and types fit.  MC_Mismatch
  * mode emit: checks the universe's sanity as ASSUMEs (rules known, planted # base, operator/list forms decided by
    the spec's operator table, every type-compatible context x mismatch cell inhabited, planted program # base
    program) and prints one REPLAY record per case (base and planted program as ASTs);
  * mode validate: reads the compile results the harness (c03) recorded for both programs of every case, asserts
    that the records are exactly the specification's universe, and evaluates Verdict(record): REJECT with
    why in {planted-accepted, bytes-written, no-error-reported, panic} (violations) or base-rejected (generator problem).
quick = full product to depth 2, thorough = depth 3 (chains of 3 end in the canonical tops).
"""
import json
import os
import vlib

PID = "C03"
VIOLATION_WHYS = ("planted-accepted", "bytes-written", "no-error-reported", "panic")


def signature(cid, why):
    path = cid["path"]
    inner = path[0]
    outer = path[1] if len(path) > 1 else "-"
    return "C03|%s|%s|%s|%s" % (cid["kind"], inner, outer, why)


def tail_of(src):
    """the program text after the common prelude (from the first top-level node of the case)"""
    i = src.find("mkp :: fn")
    j = src.find("\nend\n", i)
    return src[j + 5:].strip("\n") if i >= 0 and j >= 0 else src


def validate(wd, name, tf, depth, complete, workers=None):
    v = vlib.tlc("MC_Mismatch", wd=wd, env={"MODE": "validate", "TRACE": tf, "DEPTH": depth, "COMPLETE": 1 if complete else 0},
                 tags=("REJECT",), workers=workers, timeout=1500, out_file=os.path.join(wd, "tlc-%s.out" % name))
    vlib.require_tlc_ok(v, "MC_Mismatch validate/" + name)
    rejects = {p["rec"]: p["why"] for (_, p) in v.records}   # PrintT may be evaluated twice: dedupe by record
    return v, rejects


def run(ctx):
    tier = ctx.tier
    wd = vlib.workdir(PID)
    ev = vlib.Evidence(PID, tier, "model_checking")
    verdicts = vlib.Verdicts(PID)
    vlib.build_harness()
    depth = 2 if tier == "quick" else 3
    pf = os.path.join(wd, "prelude.json")
    cf = os.path.join(wd, "cases.ndjson")
    tf = os.path.join(wd, "trace.ndjson")
    sf = os.path.join(wd, "sources.ndjson")

    if ctx.replay:
        rp = json.load(open(ctx.replay))["replay"]
        cases, prelude = [rp["case"]], rp["prelude"]
        depth = 3 if rp["case"]["id"]["depth"] >= 3 else 2
        universe = None
    else:
        r = vlib.tlc("MC_Mismatch", wd=wd, env={"MODE": "emit", "DEPTH": depth}, tags=("REPLAY", "PRELUDE", "UNIVERSE"),
                     timeout=1500, xmx="8g", out_file=os.path.join(wd, "tlc-emit.out"))
        vlib.require_tlc_ok(r, "MC_Mismatch emit (spec-level sanity of the universe)")
        prelude = [p for (t, p) in r.records if t == "PRELUDE"][0]
        universe = [p for (t, p) in r.records if t == "UNIVERSE"][0]
        byid = {}
        for (t, p) in r.records:
            if t == "REPLAY":
                byid[json.dumps(p["id"], sort_keys=True)] = p
        cases = list(byid.values())
        if len(cases) != universe["cases"]:
            vlib.tool_error("TLC printed %d cases, the universe has %d" % (len(cases), universe["cases"]))
        emitted = r.coverage.get("Emit", (0, 0))[1]
        if emitted < len(cases):
            vlib.tool_error("vacuity: action Emit fired %d times for %d cases" % (emitted, len(cases)))
        if len(cases) < (2500 if tier == "quick" else 15000):
            vlib.tool_error("vacuity: only %d cases" % len(cases))
        ev.set(states=r.distinct, transitions=r.generated, universe=universe, emit_wall_s=round(r.wall_s, 1))

    json.dump(prelude, open(pf, "w"))
    vlib.write_ndjson(cf, cases)
    vlib.harness("c03", ["record", pf, cf, tf, sf], timeout=3000)
    recs = vlib.read_ndjson(tf)
    srcs = vlib.read_ndjson(sf)
    if len(recs) != len(cases):
        vlib.tool_error("harness wrote %d records for %d cases" % (len(recs), len(cases)))
    v, rejects = validate(wd, "validate", tf, depth, complete=not ctx.replay)
    if not ctx.replay and v.coverage.get("Validate", (0, 0))[1] < len(recs):
        vlib.tool_error("vacuity: action Validate fired %s times for %d records" % (v.coverage.get("Validate"), len(recs)))

    base_rejected = []
    accepted_by_kind = {}
    for idx, why in sorted(rejects.items()):
        rec, src, case = recs[idx - 1], srcs[idx - 1], cases[idx - 1]
        cid = rec["id"]
        if why == "base-rejected":
            base_rejected.append({"id": cid, "detail": src["base_detail"], "base": tail_of(src["base_src"])})
            continue
        if why not in VIOLATION_WHYS:
            vlib.tool_error("unknown REJECT reason %r" % why)
        accepted_by_kind[cid["kind"]] = accepted_by_kind.get(cid["kind"], 0) + 1
        what = "mismatch %s (rule %s) in context %s: planted program %s (errors=%d, bytes=%d): %s" % (
            cid["kind"], cid["rule"], ">".join(cid["path"]), rec["planted"], rec["nerr"], rec["bytes"],
            " / ".join(tail_of(src["planted_src"]).split("\n"))[:160])
        verdicts.add(signature(cid, why), what,
                     {"case": case, "prelude": prelude, "observed": rec, "planted_source": src["planted_src"],
                      "planted_detail": src["planted_detail"]})

    # vacuity guards on the replayed universe
    n = len(recs)
    nbase_ok = sum(1 for r_ in recs if r_["base"] == "ok")
    if base_rejected:
        import sys
        for b in base_rejected[:5]:
            print("note: base program rejected (generator problem, not a verdict): %s :: %s" % (b["id"], b["detail"][:200]), file=sys.stderr)
    if nbase_ok < 0.95 * n:
        vlib.tool_error("vacuity: only %d of %d base programs accepted" % (nbase_ok, n))
    if not ctx.replay:
        kinds_ok = {r_["id"]["kind"] for r_ in recs if r_["base"] == "ok"}
        kinds_all = {c["id"]["kind"] for c in cases}
        if kinds_ok != kinds_all or len(kinds_all) != universe["kinds"]:
            vlib.tool_error("vacuity: mismatch kinds without an accepted base: %s" % sorted(kinds_all - kinds_ok))
        inner = {r_["id"]["path"][0] for r_ in recs if r_["base"] == "ok"}
        if len(inner) != universe["contexts"]:
            vlib.tool_error("vacuity: only %d of %d contexts occur innermost with an accepted base" % (len(inner), universe["contexts"]))
        if any(r_["same_text"] for r_ in recs):
            vlib.tool_error("a planted program renders to the same text as its base")

        # negative controls: a falsified planted observation must be rejected by the specification
        step = max(1, len(cases) // 90)
        sub = cases[::step][:90]
        ncf = os.path.join(wd, "neg-cases.ndjson")
        vlib.write_ndjson(ncf, sub)
        nrej_total = 0
        for stub, expect in (("accept", "planted-accepted"), ("bytes", "bytes-written"), ("panic", "panic")):
            ntf = os.path.join(wd, "neg-trace-%s.ndjson" % stub)
            vlib.harness("c03", ["record", pf, ncf, ntf, os.path.join(wd, "neg-src.ndjson")], env={"C03_STUB": stub})
            nrecs = vlib.read_ndjson(ntf)
            _, nrej = validate(wd, "neg-" + stub, ntf, depth, complete=False, workers=4)
            want = [i + 1 for i in range(len(sub)) if i % 3 == 1 and nrecs[i]["base"] == "ok"]
            missed = [i for i in want if nrej.get(i) != expect and not (stub == "bytes" and nrej.get(i) in VIOLATION_WHYS)]
            if missed or not want:
                vlib.tool_error("negative control %s: %d of %d falsified records not rejected as %s" % (stub, len(missed), len(want), expect))
            nrej_total += len(want)
        ev.set(negative_controls_rejected=nrej_total)

    distinct_planted = len({s_["planted_src"] for s_, r_ in zip(srcs, recs) if r_["base"] == "ok"})
    samples = []
    for i in ([0, n // 3, (2 * n) // 3, n - 1] if n > 3 else range(n)):
        samples.append({"id": recs[i]["id"], "observed": {k: recs[i][k] for k in ("base", "planted", "nerr", "bytes")},
                        "base_source": tail_of(srcs[i]["base_src"]), "planted_source": tail_of(srcs[i]["planted_src"])})
    ev.add("states", v.distinct)
    ev.add("transitions", v.generated)
    ev.set(traces_validated_against_impl=n, programs=2 * n, evaluations=2 * n, distinct_nontrivial=distinct_planted,
           depth=depth, exhaustive=not ctx.replay, bases_accepted=nbase_ok, bases_rejected=len(base_rejected),
           base_rejected_examples=base_rejected[:3],
           planted_rejected_as_required=sum(1 for r_ in recs if r_["base"] == "ok") - sum(accepted_by_kind.values()),
           planted_not_rejected=sum(accepted_by_kind.values()), planted_not_rejected_by_kind=accepted_by_kind,
           violation_signatures=len({s for (s, _, _) in verdicts.violations}),
           rule="every mismatch of SyltMismatch!MM in every fitting context chain of length <= %d (chains of 3 end in the tops start/global); "
                "each case compiled in base and planted form with std; distinct_nontrivial = distinct planted program texts whose base "
                "form the compiler accepted" % depth,
           samples=samples, known_findings_hit=verdicts.known_hits)
    ev.assume("the mismatches are the property's list instantiated with literals and the prelude's functions/blobs; the rule each violates is stated in SyltMismatch!MM, "
              "decided by the spec's operator table only for operator/list forms over literals",
              "the printer renders the ASTs faithfully (an unfaithful rendering shows up as a rejected base or as identical base/planted text: both guarded)",
              "int < float is accepted by design (Cmp) and is not planted")
    rc = verdicts.finish()
    ev.violations = len(verdicts.violations)
    ev.write()
    return rc
