"""C07 - the compiler is total: no panic, no hang, failures are rendered errors.

1. TLC model-checks the outcome protocol SyltPipeline on its own (small bounds): invariants, no dead
   end, every fair behaviour reaches Finish, every action covered; the token-string universe is sane.
2. The recorder (harness c07) runs the real compiler in isolated worker processes (stall watchdog and
   solitary re-run on CPU-time budgets, abort detection) over
     - the exhaustive token-string universes TokenStringAt(Tok20, <=4/5) and (Tok31, <=3/4), no std,
     - seeded mutations of the corpus (/repo/tests/**/*.sy, /repo/std/*.sy), with and without std,
     - multi-file projects served from memory (missing/cyclic/colliding imports, std names, arbitrary text),
     - the index-addressed families of STRUCTURED programs defined in SyltPipeline and emitted by TLC (MC_Families):
       nest / nestraw / nestsolo (every nestable construct in itself and in every other, depths 8..32, trailing and
       not, well typed and with a planted type error), place (top-level-only statements at every inner position x
       what else the name is; inner-only statements at the top level), cyc (import cycles whose files have syntax
       errors), selfty (self-referential inferred types in a type error), text, entry, lit (arithmetic over literals whose
       value reaches and crosses +-2^63 / the largest double, at every place an expression can stand) and hist (HISTORIES:
       two or three programs compiled one after the other in one fresh thread; every run must be a complete behaviour
       and return the verdict the program gets when it is compiled alone: SyltPipeline!Again, HistoryFree),
   and writes one event list per input. TLC (Trace_Pipeline) re-derives the token strings from their
   indices, validates every event list as a COMPLETE behaviour of SyltPipeline with all invariants
   evaluated in every state, and prints one REJECT line per run that is not. Those lines are the verdicts.
3. Each group of rejected runs is minimised (delta debugging over tokens, through the same recorder);
   the signature is computed from the minimal input's construct skeleton.
4. Negative controls: a recorder that drops Finish / reports a fake panic / drops renderings for a
   subset of inputs, and corrupted recorded fields, must all be rejected.
"""
import concurrent.futures
import json
import os
import re
import subprocess

import vlib

PID = "C07"
TRACE_ACTIONS = ("TraceStart", "TraceParseOk", "TraceRetErr", "TraceRetOk", "TraceRender", "TraceFinish", "TraceAccept")
UNIVERSE_PRIORITY = {"tok20.top": 0, "tok20.body": 0, "tok31.body": 1, "tok31.raw": 1, "tok31.top": 1, "fam": 2, "proj": 2, "mut-sys": 3,
                     "mut": 4, "replay": 5}
FAMILIES = ("nest", "nestraw", "nestsolo", "place", "cyc", "selfty", "text", "entry", "lit", "hist")
# SyltPipeline's text family spells a 2-, 3-, 4-byte character as an ASCII placeholder; the recorder replaces them (c07.rs project_of)
TEXT_PLACEHOLDERS = (("@2@", "\u00e9"), ("@3@", "\u65e5"), ("@4@", "\U0001F600"))
SELF_ARITH = ("neg", "addself", "subself", "mulself", "divself", "lessself")


class Run:
    """Accumulated facts about everything validated in this check run."""

    def __init__(self):
        self.universes = {}
        self.coverage = {}
        self.states = 0
        self.transitions = 0
        self.records = 0
        self.distinct_nontrivial = 0
        self.hashes = set()
        self.outcomes = {}
        self.rejected = []      # (universe name, trace record, reject payload, case or None)
        self.samples = []
        self.sample_keys = set()
        self.isolation = {"suspected": 0, "timeouts": 0, "aborts": 0, "batches": 0, "notrun": 0}
        self.notrun = 0


def record_universe(wd, args, name, env=None):
    """Run the recorder; returns its summary (printed as one JSON line)."""
    p = vlib.harness("c07", ["run"] + args + [wd, name], env=env, timeout=7200)
    try:
        return json.loads(p.stdout.strip().splitlines()[-1])
    except Exception:
        vlib.tool_error("recorder c07 printed no summary for %s: %r" % (name, p.stdout[-300:]))


def tlc_validate(wd, name, universe, maxlen, workers=None, timeout=3000, sub=None):
    trace = os.path.join(wd, name + ".trace.ndjson")
    twd = os.path.join(wd, sub) if sub else wd
    os.makedirs(twd, exist_ok=True)
    r = vlib.tlc("MC_TracePipeline", cfg="MC_TracePipeline.cfg", wd=twd,
                 env={"TRACE": trace, "UNIVERSE": universe, "MAXLEN": maxlen},
                 tags=("REJECT", "UNIVERSE"), workers=workers, timeout=timeout, xmx="6g",
                 out_file=os.path.join(wd, "tlc-" + name + ".out"))
    vlib.require_tlc_ok(r, "Trace_Pipeline/" + name)
    rejects = {}
    uni = None
    for tag, p in r.records:
        if tag == "REJECT":
            rejects[p["rec"]] = p      # ENABLED re-evaluates PrintT: dedupe by record
        else:
            uni = p
    if uni is None:
        vlib.tool_error("Trace_Pipeline/%s: TLC did not report the universe" % name)
    return r, rejects, uni


def absorb(run, wd, name, label, r, rejects, uni, tok, keep_samples=2, fam=False, classify=None):
    """Stream the trace once: statistics, the rejected records, a few samples.
    classify(rec, outcome key) -> name of a guard cell, counted in the universe's `cells`."""
    trace = os.path.join(wd, name + ".trace.ndjson")
    cases_path = os.path.join(wd, name + ".cases.ndjson")
    want_cases = {}
    n = 0
    nontrivial = 0
    outcomes = {}
    kinds = {}
    cells = {}
    slowest = []
    rej_recs = {}
    with open(trace) as f:
        for line in f:
            if not line.strip():
                continue
            n += 1
            rec = json.loads(line)
            evs = rec["ev"]
            second = evs[1] if len(evs) > 1 else {"e": "none"}
            key = ("%s-%s" % (second["r"], second["st"])) if second["e"] == "ret" else second["e"]
            if evs[-1]["e"] != "finish":
                key = "incomplete"
            outcomes[key] = outcomes.get(key, 0) + 1
            kinds[rec.get("kind", "?")] = kinds.get(rec.get("kind", "?"), 0) + 1
            if classify:
                cell = classify(rec, key)
                cells[cell] = cells.get(cell, 0) + 1
                slowest.append((rec.get("ms", 0), rec["id"]))
                if len(slowest) > 64:
                    slowest.sort(reverse=True)
                    del slowest[3:]
            if tok:
                if rec.get("ntok", 1) >= 1 and rec["input"] != "":
                    nontrivial += 1
            else:
                h = rec.get("h") or rec["id"]
                if rec.get("ntok", 1) >= 1 and h not in run.hashes:
                    run.hashes.add(h)
                    nontrivial += 1
            if n in rejects:
                rej_recs[n] = rec
                want_cases[n] = None
            elif (label, key) not in run.sample_keys and keep_samples:
                # one sample per (universe, outcome): the first input with that outcome
                run.sample_keys.add((label, key))
                run.samples.append({"universe": label, "id": rec["id"], "input": (rec["input"][:600] or None) if (tok or fam) else None,
                                    "events": [e["e"] + (":" + e["r"] + ":" + e["st"] if e["e"] == "ret" else "") for e in evs]})
    if n != uni["records"]:
        vlib.tool_error("%s: TLC saw %d records, the trace has %d" % (name, uni["records"], n))
    if want_cases and os.path.exists(cases_path):
        with open(cases_path) as f:
            for i, line in enumerate(f, 1):
                if i in want_cases:
                    want_cases[i] = json.loads(line)
    for k, rec in sorted(rej_recs.items()):
        run.rejected.append((label, rec, rejects[k], want_cases.get(k)))
    for a in TRACE_ACTIONS + ("TraceAgain", "TraceReject"):
        run.coverage[a] = run.coverage.get(a, 0) + r.coverage.get(a, (0, 0))[1]
    run.states += r.distinct
    run.transitions += r.generated
    run.records += n
    run.distinct_nontrivial += nontrivial
    for k, v in outcomes.items():
        run.outcomes[k] = run.outcomes.get(k, 0) + v
    u = run.universes.setdefault(label, {"records": 0, "rejected": 0, "tlc_states": 0, "tlc_wall_s": 0.0, "outcomes": {}, "kinds": {}})
    u["records"] += n
    u["rejected"] += len(rejects)
    u["tlc_states"] += r.distinct
    u["tlc_wall_s"] = round(u["tlc_wall_s"] + r.wall_s, 1)
    for k, v in outcomes.items():
        u["outcomes"][k] = u["outcomes"].get(k, 0) + v
    for k, v in kinds.items():
        u["kinds"][k] = u["kinds"].get(k, 0) + v
    if cells:
        u["cells"] = cells
        u["slowest_ms"] = [{"ms": ms, "id": i} for ms, i in sorted(slowest, reverse=True)[:3]]
    return n


def note_isolation(run, summary):
    for k in run.isolation:
        run.isolation[k] += summary.get(k, 0)


def tok_universe(run, wd, u, maxlen, chunk, parallel):
    """Exhaustive token-string universe, recorded and validated in chunks; TLC decides the total."""
    asize = 20 if u.startswith("tok20") else 31
    expect = sum(asize ** l for l in range(maxlen + 1))
    label = "%s<=%d" % (u, maxlen)
    spans = []
    a = 1
    while a <= expect:
        spans.append((a, min(a + chunk - 1, expect)))
        a += chunk
    covered = []
    totals = set()
    with concurrent.futures.ThreadPoolExecutor(max_workers=parallel) as ex:
        futs = []
        for ci, (first, last) in enumerate(spans):
            name = "%s-%d" % (u, ci)
            s = record_universe(wd, [u, maxlen, first, last], name)
            note_isolation(run, s)
            workers = None if len(spans) == 1 else max(2, vlib.NCPU // parallel)
            futs.append((name, ex.submit(tlc_validate, wd, name, u, maxlen, workers, 3000, "tlc-" + name)))
        for name, fut in futs:
            r, rejects, uni = fut.result()
            absorb(run, wd, name, label, r, rejects, uni, tok=True, keep_samples=3 if name.endswith("-0") else 0)
            covered.append((uni["first"], uni["last"], uni["records"]))
            totals.add(uni["total"])
            if len(spans) > 1:
                os.remove(os.path.join(wd, name + ".trace.ndjson"))
    # completeness of the universe, as computed by TLC
    if len(totals) != 1:
        vlib.tool_error("%s: TLC reported different universe sizes %r" % (label, totals))
    total = totals.pop()
    covered.sort()
    nxt = 1
    for first, last, cnt in covered:
        if first != nxt or cnt != last - first + 1:
            vlib.tool_error("%s: chunks do not tile the universe at %d" % (label, nxt))
        nxt = last + 1
    if nxt != total + 1:
        vlib.tool_error("%s: validated 1..%d but TLC says the universe is 1..%d" % (label, nxt - 1, total))
    run.universes[label]["exhaustive_total_by_tlc"] = total
    return total


def case_universe(run, wd, args, name, label, env=None, chunk=100000):
    s = record_universe(wd, args, name, env=env)
    note_isolation(run, s)
    r, rejects, uni = tlc_validate(wd, name, "cases", 0)
    absorb(run, wd, name, label, r, rejects, uni, tok=False, keep_samples=3)
    return s


# --------------------------------------------------------------------------- TLA+-defined families of structured programs

def emit_family(wd, fam):
    """TLC (MC_Families) prints every case of SyltPipeline!FamCase(fam, .); returns (size by TLC, path of the case file)."""
    twd = os.path.join(wd, "tlc-emit-" + fam)
    os.makedirs(twd, exist_ok=True)
    r = vlib.tlc("MC_Families", wd=twd, env={"FAM": fam, "FIRST": 1, "LAST": 10 ** 9}, tags=("CASE", "FAMILY"), workers=2,
                 coverage=False, timeout=900, xmx="4g", out_file=os.path.join(wd, "tlc-emit-%s.out" % fam))
    vlib.require_tlc_ok(r, "MC_Families/" + fam)
    size = None
    cases = {}
    for tag, p in r.records:
        if tag == "FAMILY":
            size = p["size"]
        else:
            cases[p["idx"]] = p
    if size is None or sorted(cases) != list(range(1, size + 1)):
        vlib.tool_error("MC_Families/%s: TLC says the family has %r cases but printed %d" % (fam, size, len(cases)))
    out = []
    ids = set()

    def files_of(k, files):
        names = [f["name"] for f in files]
        if names[0] != "main.sy" or names[1:] != sorted(set(names[1:])) or "main.sy" in names[1:]:
            vlib.tool_error("MC_Families/%s: case %d: files must be main.sy followed by the others in name order: %r" % (fam, k, names))
        return {f["name"]: f["text"] for f in files}

    for k in range(1, size + 1):
        p = cases[k]
        ids.add(p["id"])
        if "steps" in p:
            # a history: the recorder compiles its programs one after the other in one fresh thread (and each alone in another)
            if not 2 <= len(p["steps"]) <= 3:
                vlib.tool_error("MC_Families/%s: case %d: a history has 2 or 3 programs" % (fam, k))
            out.append({"id": p["id"], "kind": "fam:" + fam, "base": "", "files": {}, "main": "main.sy", "no_std": True, "corpus": False,
                        "steps": [{"files": files_of(k, st["files"]), "no_std": st["nostd"]} for st in p["steps"]]})
            continue
        out.append({"id": p["id"], "kind": "fam:" + fam, "base": "", "files": files_of(k, p["files"]),
                    "main": "main.sy", "no_std": p["nostd"], "corpus": False})
    if len(ids) != size:
        vlib.tool_error("MC_Families/%s: case ids are not unique" % fam)
    path = os.path.join(wd, "fam-%s.src.ndjson" % fam)
    vlib.write_ndjson(path, out)
    return size, path


def fam_cell(rec, key):
    """guard cell of a family record: what the case is meant to be x what happened"""
    parts = rec["id"].split(":")
    fam = parts[0]
    if fam in ("nest", "nestraw", "nestsolo"):
        return parts[-1] + "/" + key                       # ok|err planted at the innermost level
    if fam == "place":
        what = parts[1].split("@")[0]
        group = "import" if what in ("use", "fromuse") else "decl" if what in ("blob", "enum", "external") else "inner"
        return group + "/" + key
    if fam == "cyc":
        clean = parts[4] == "none" or (parts[1] == "self" and parts[4] == "othersonly")      # no file has a syntax error
        if clean and parts[2] == "frommissing":
            return "missing/" + key         # every file imports a name from the next one, nobody defines it: a rendered error
        return ("clean" if clean else "broken") + "/" + key
    if fam == "text":
        valid = parts[1] in ("string", "comment") and parts[7] == "none"       # a valid program / one with an error somewhere
        return ("valid" if valid else "lexerr" if parts[1].startswith("err") else "typeerr") + "/" + key
    if fam == "entry":
        return parts[1] + "/" + key
    if fam == "selfty":
        return ("tuple-arith" if fam_site(rec["id"]) == "selfty-tuple-arith" else "any") + "/" + key
    if fam == "lit":
        # every literal is a token (a valid program) / one literal is beyond the 64-bit token / the literal is a tuple index
        return {"lex": "beyond", "index": "index"}.get(parts[1], "valid") + "/" + key
    if fam == "hist":
        if key == "incomplete":
            return "runs/incomplete"
        # did every run of the history end as the program is meant to (content `ok` compiles, every other content is rejected)?
        progs = rec["id"][len("hist:"):].split(">")
        rets = [e for e in rec["ev"] if e["e"] == "ret"]
        meant = len(rets) == len(progs) and all((p.split(".")[1] == "ok") == (e["r"] == "ok") for p, e in zip(progs, rets))
        return "runs/asmeant" if meant else "runs/notasmeant"
    return "any/" + key


# cell -> least share of the family's finished runs of that intent that must have this outcome (reach the phase they are made for)
FAMILY_GUARDS = {
    "nest": (("ok/ok-compile", "ok/", 0.95), ("err/err-compile", "err/", 0.95)),
    "nestraw": (("ok/ok-compile", "ok/", 0.95), ("err/err-compile", "err/", 0.95)),
    "nestsolo": (("ok/ok-compile", "ok/", 0.95), ("err/err-compile", "err/", 0.95)),
    "place": (("decl/err-compile", "decl/", 0.95), ("inner/err-parse", "inner/", 0.95)),
    "cyc": (("broken/err-parse", "broken/", 0.95), ("clean/ok-compile", "clean/", 0.95), ("missing/err-compile", "missing/", 0.95)),
    "selfty": (("any/err-compile", "any/", 0.75),),
    "text": (("valid/ok-compile", "valid/", 0.95), ("typeerr/err-compile", "typeerr/", 0.95), ("lexerr/err-parse", "lexerr/", 0.95)),
    "entry": (("main/ok-compile", "main/", 0.25), ("fromuse/ok-compile", "fromuse/", 0.20), ("both/ok-compile", "both/", 0.25),
              ("none/err-compile", "none/", 0.70), ("fromas/err-compile", "fromas/", 0.70)),
    "lit": (("valid/ok-compile", "valid/", 0.95), ("beyond/err-parse", "beyond/", 0.95)),
    "hist": (("runs/asmeant", "runs/", 0.95),),
}


NEST_CLASS = {"ifbody": "if", "ifcond": "if", "elifbody": "if", "elifcond": "if", "elsebody": "if",
              "casearm": "case", "caseelse": "case", "casescrut": "case", "fndef": "fn", "iife": "fn",
              "loopdo": "block", "loopbare": "block", "doblock": "block"}


def fam_site(case_id):
    """construct class of a family member, used where a crash site would stand in the signature of a hang:
    nest-if | nest-case | nest-fn | nest-block | nest-expr, or the family name"""
    parts = case_id.split(":")
    if parts[0] == "selfty":
        # a tuple that holds itself and nothing else (makers p...) under an operator that walks tuples is known finding F29
        if parts[1].startswith("p"):
            return "selfty-tuple-arith" if parts[2] in SELF_ARITH else "selfty-tuple"
        return "selfty"
    if parts[0] != "nest":
        return parts[0]
    classes = [NEST_CLASS.get(w, "expr") for w in parts[1].split("/")]
    for c in ("if", "case", "fn", "block"):
        if c in classes:
            return "nest-" + c
    return "nest-expr"


class FamilyRun:
    """The family universes in three stages, so that the TLC work overlaps with the other universes:
    start() emits (TLC, background), record() compiles (recorder) and submits the validations (TLC, background),
    finish() absorbs the results."""

    def __init__(self, wd):
        self.wd = wd
        self.ex = concurrent.futures.ThreadPoolExecutor(max_workers=3)
        self.emitted = {fam: self.ex.submit(emit_family, wd, fam) for fam in FAMILIES}
        self.summaries = {}
        self.validations = {}

    def record(self, run):
        for fam in FAMILIES:
            size, path = self.emitted[fam].result()
            self.summaries[fam] = record_universe(self.wd, ["cases", path], "fam-" + fam)
            note_isolation(run, self.summaries[fam])
            self.validations[fam] = self.ex.submit(tlc_validate, self.wd, "fam-" + fam, "fam." + fam, 0, 4, 3000, "tlc-fam-" + fam)

    def finish(self, run):
        for fam in FAMILIES:
            r, rejects, uni = self.validations[fam].result()
            label = "fam." + fam
            absorb(run, self.wd, "fam-" + fam, label, r, rejects, uni, tok=False, keep_samples=2, fam=True, classify=fam_cell)
            size = self.emitted[fam].result()[0]
            if not (uni["total"] == size and uni["first"] == 1 and uni["last"] == size and uni["records"] == size):
                vlib.tool_error("%s: validated %r but TLC says the family is 1..%d" % (label, uni, size))
            run.universes[label]["exhaustive_total_by_tlc"] = size
            run.universes[label]["notrun"] = self.summaries[fam].get("notrun", 0)
        self.ex.shutdown()


def family_guards(run):
    for fam, guards in FAMILY_GUARDS.items():
        cells = run.universes["fam." + fam].get("cells", {})
        for cell, prefix, share in guards:
            finished = sum(v for k, v in cells.items() if k.startswith(prefix) and not k.endswith("/incomplete"))
            total = sum(v for k, v in cells.items() if k.startswith(prefix))
            if total < 8 or cells.get(cell, 0) < share * finished or finished == 0:
                vlib.tool_error("vacuity: family %s: only %d of %d finished runs (%d cases) are %s" % (
                    fam, cells.get(cell, 0), finished, total, cell))


# --------------------------------------------------------------------------- verdicts

def case_of(label, rec, case):
    if case is not None:
        if case.get("kind") == "fam:text":
            # what was compiled, not its ASCII spelling: minimisation and replay work on the real text
            files = {}
            for name, text in case["files"].items():
                for ph, ch in TEXT_PLACEHOLDERS:
                    text = text.replace(ph, ch)
                files[name] = text
            case = dict(case, files=files, kind="fam:text-materialised")
        return case
    return {"id": rec["id"], "kind": "tok", "base": "", "files": {"main.sy": rec["input"]}, "main": "main.sy",
            "no_std": True, "corpus": False}


def site_of(pmsg):
    i = pmsg.rfind(" @ ")
    return pmsg[i + 3:].rstrip(">") if i >= 0 else ""


def minimise(wd, case, n):
    """Delta-debug one failing case through the recorder; returns its report or None."""
    path = os.path.join(wd, "min-%d.json" % n)
    with open(path, "w") as f:
        json.dump(case, f)
    try:
        p = subprocess.run([os.path.join(vlib.BIN, "c07"), "minimise", path], stdout=subprocess.PIPE,
                           stderr=subprocess.PIPE, text=True, timeout=3600, env=dict(os.environ, VERIF_ROOT=vlib.ROOT))      # (its own budget is 90 s of CPU time)
        if p.returncode != 0:
            return None
        return json.loads(p.stdout.strip().splitlines()[-1])
    except (subprocess.TimeoutExpired, ValueError, IndexError):
        return None


def skeleton_sig(skel):
    if len(skel) <= 160:
        return skel
    return skel[:120] + "...#" + vlib.sha(skel)


def add_verdicts(run, wd, verdicts):
    """Group rejected runs by (failure class, panic site of THIS run), minimise one deterministic
    representative per group, and give every member the signature computed from the minimal input."""
    groups = {}
    notrun = [m for m in run.rejected if m[2]["why"] == "notrun"]
    if notrun and not any(m[2]["why"] == "timeout" for m in run.rejected):
        vlib.tool_error("%d inputs were not run although no timeout was recorded" % len(notrun))
    run.notrun = len(notrun)
    for label, rec, rej, case in run.rejected:
        why = rej["why"]
        if why == "notrun":
            continue            # nothing was observed for these: the recorder stopped after too many timeouts (reported with them)
        site = site_of(rec.get("pmsg", "")) if why in ("panic", "render_panic") else ""
        if not site and rec.get("kind", "").startswith("fam:"):
            site = fam_site(rec["id"])          # hangs and aborts have no crash site: group them by construct class
        groups.setdefault((why, site), []).append((label, rec, rej, case))
    reports = []
    for gi, ((why, site), members) in enumerate(sorted(groups.items())):
        def prio(m):
            label, rec, _, case = m
            u = label.split("<")[0]
            if u == "projects":
                u = "proj"
            if u.startswith("mut"):
                u = "mut-sys" if "-sys:" in rec["id"] else "mut"
            if u.startswith("fam."):
                u = "fam"
            return (UNIVERSE_PRIORITY.get(u, 9), rec.get("ntok", 10 ** 6), rec["id"])
        members.sort(key=prio)
        label, rec, rej, case = members[0]
        orig = case_of(label, rec, case)
        rep = None
        provisional = "C07|%s|%s|unminimised:%s" % (why, site or "-", rec["id"])
        is_known = rec.get("kind", "").startswith("fam:") and any(
            k.get("signature") == provisional or (k.get("signature_re") and re.match(k["signature_re"], provisional)) for k in verdicts.known)
        is_history = bool(orig.get("steps"))      # (the minimiser works on one program; a history keeps its id: it spells the programs)
        if not is_known and not is_history:        # (a known finding of a family is recognised by class and construct: no need to spend a minute minimising it)
            rep = minimise(wd, orig, gi)
        if rep is not None and rep["class"] == why:
            skel, mini, site_file = rep["skeleton"], rep["case"], rep["site_file"]
        elif why == "history-dependent":
            # no crash: the run returned another verdict than the program compiled alone; the id spells the history
            skel, mini, site_file = "unminimised:" + rec["id"], orig, ""
        elif why in ("truncated", "protocol", "err-without-errors", "ok-without-output", "empty-rendering", "finish-before-all-rendered"):
            # protocol breaches that are no crash: the recorder's minimiser only knows crash classes
            skel, mini, site_file = rec["kind"], orig, ""
        else:
            # (family members: the id spells the construct, position and class the case was built from)
            skel = "unminimised:" + (rec["id"] if rec.get("kind", "").startswith("fam:") or is_history else rec["kind"])
            mini, site_file = orig, site.rsplit("/", 1)[-1].split(":")[0]
        if not site_file and rec.get("kind", "").startswith("fam:"):
            site_file = site
        sig = "C07|%s|%s|%s" % (why, site_file or "-", skeleton_sig(skel))
        what = "run is not a complete behaviour of SyltPipeline (%s at event %d, phase %s): %s  [first of %d inputs: %s]" % (
            why, rej["ev"], rej["phase"], rec.get("pmsg", "")[:160], len(members), rec["id"])
        if is_history:
            what = "run %d of a history (programs compiled one after the other in one thread): " % rej.get("run", 0) + what
            if why == "history-dependent":
                what += "  [alone: %r]" % (rec.get("solo"),)
        if why == "timeout" and run.notrun:
            what += "  [the recorder stopped after 8 timeouts per universe: %d inputs were not run]" % run.notrun
        for (l2, r2, j2, c2) in members:
            verdicts.add(sig, what, {"universe": label, "minimal_case": mini, "skeleton": skel, "original_id": rec["id"],
                                     "original_case": orig if len(json.dumps(orig)) < 20000 else {"id": orig["id"]},
                                     "panic": rec.get("pmsg", ""), "events": rec["ev"], "reject": rej,
                                     "members": len(members)})
        reports.append({"signature": sig, "members": len(members), "minimal": mini["files"], "no_std": mini["no_std"],
                        "panic": rec.get("pmsg", "")[:200], "example_ids": [m[1]["id"] for m in members[:3]]})
    return reports


# --------------------------------------------------------------------------- negative controls

def negative_controls(wd, tier):
    """(a) stubbed recorder, (b) corrupted recorded fields: every planted breach must be rejected with its class."""
    rejected = 0
    for stub, expect in (("dropfinish", "truncated"), ("fakepanic", "panic"), ("norender", "finish-before-all-rendered")):
        name = "neg-" + stub
        record_universe(wd, ["proj"], name, env={"C07_STUB": stub})
        r, rejects, uni = tlc_validate(wd, name, "cases", 0, workers=4)
        whys = {}
        for p in rejects.values():
            whys[p["why"]] = whys.get(p["why"], 0) + 1
        if whys.get(expect, 0) < 20:
            vlib.tool_error("negative control accepted: recorder stub %s produced %r, expected >=20 rejections of class %s" % (stub, whys, expect))
        rejected += whys[expect]
    # (b) corrupt single fields of genuine records
    src = os.path.join(wd, "neg-dropfinish.cases.ndjson")  # same projects, recorded again without a stub
    record_universe(wd, ["cases", src], "neg-base")
    recs = vlib.read_ndjson(os.path.join(wd, "neg-base.trace.ndjson"))
    planted = {}
    out = []
    for rec in recs:
        evs = rec["ev"]
        if evs[-1]["e"] != "finish" or len(out) >= 400:
            continue
        k = len(out) % 5
        kinds = [e["e"] for e in evs]
        if k == 0 and "render" in kinds:
            evs[kinds.index("render")]["len"] = 0
            planted[len(out) + 1] = "empty-rendering"
        elif k == 1 and evs[1]["r"] == "err":
            evs[1]["n"] = 0
            del evs[2:-1]
            planted[len(out) + 1] = "err-without-errors"
        elif k == 2 and evs[1]["r"] == "ok":
            evs[1]["len"] = 0
            planted[len(out) + 1] = "ok-without-output"
        elif k == 3 and kinds.count("render") >= 1:
            evs[1]["n"] += 1                       # one more error than renderings
            planted[len(out) + 1] = "finish-before-all-rendered"
        elif k == 4 and kinds.count("render") >= 2:
            i = kinds.index("render")
            evs[i], evs[i + 1] = evs[i + 1], evs[i]  # renderings out of order
            planted[len(out) + 1] = "protocol"
        rec["idx"] = len(out) + 1
        out.append(rec)
    vlib.write_ndjson(os.path.join(wd, "neg-corrupt.trace.ndjson"), out)
    r, rejects, uni = tlc_validate(wd, "neg-corrupt", "cases", 0, workers=4)
    classes = set(planted.values())
    if len(classes) < 5:
        vlib.tool_error("negative control vacuous: only %r could be planted" % sorted(classes))
    for k, why in planted.items():
        if k not in rejects or rejects[k]["why"] != why:
            vlib.tool_error("negative control accepted: record %d corrupted as %s, TLC said %r" % (k, why, rejects.get(k)))
    extra = [k for k in rejects if k not in planted]
    unexpected = [k for k in extra if out[k - 1]["ev"][-1]["e"] == "finish"]
    if unexpected:
        vlib.tool_error("negative control: untouched complete records rejected: %r" % unexpected[:5])
    return rejected + len(planted)


def family_negative_controls(wd):
    """The binding of the TLA+-defined families: (a) a recorded hang / an input that was never run must be rejected with
    its class, (b) a record whose text, id or std flag is not FamCase(family, idx) must make the validation fail."""
    recs = vlib.read_ndjson(os.path.join(wd, "fam-nestsolo.trace.ndjson"))
    incomplete = {k for k, r in enumerate(recs, 1) if r["ev"][-1]["e"] != "finish"}      # rejected already in this run
    if len(recs) < 20 or incomplete & set(range(1, 21)):
        return 0            # the family itself is being rejected in this run: the controls are calibrated for complete runs
    base = json.dumps(recs)
    planted = {5: "timeout", 7: "notrun", 9: "abort"}
    cur = json.loads(base)
    for k, why in planted.items():
        cur[k - 1]["ev"] = ([{"e": "start", "r": "-", "n": 0, "len": 0, "st": "-"}] if why != "notrun" else []) + \
                           [{"e": why, "r": "-", "n": 0, "len": 0, "st": "-"}]
    vlib.write_ndjson(os.path.join(wd, "neg-fam-events.trace.ndjson"), cur)
    r, rejects, uni = tlc_validate(wd, "neg-fam-events", "fam.nestsolo", 0, workers=2)
    got = {k: p["why"] for k, p in rejects.items() if k not in incomplete}
    if got != planted:
        vlib.tool_error("negative control accepted: planted %r in family records, TLC rejected %r" % (planted, got))
    n = len(planted)
    for field, corrupt in (("input", lambda r: dict(r, input=r["input"].replace("q := 0", "q := 1", 1))),
                           ("id", lambda r: dict(r, id=r["id"] + "x")),
                           ("nostd", lambda r: dict(r, nostd=not r["nostd"]))):
        cur = json.loads(base)
        cur[10] = corrupt(cur[10])
        if cur[10] == recs[10]:
            vlib.tool_error("negative control vacuous: could not corrupt field %s of a family record" % field)
        name = "neg-fam-" + field
        vlib.write_ndjson(os.path.join(wd, name + ".trace.ndjson"), cur)
        twd = os.path.join(wd, "tlc-" + name)
        os.makedirs(twd, exist_ok=True)
        r = vlib.tlc("MC_TracePipeline", cfg="MC_TracePipeline.cfg", wd=twd,
                     env={"TRACE": os.path.join(wd, name + ".trace.ndjson"), "UNIVERSE": "fam.nestsolo", "MAXLEN": 0},
                     tags=("REJECT", "UNIVERSE"), workers=2, timeout=600, xmx="4g", out_file=os.path.join(wd, "tlc-" + name + ".out"))
        log = open(r.log, encoding="utf-8", errors="replace").read()
        if r.ok or "universe mismatch at record" not in log:
            vlib.tool_error("negative control accepted: a family record with a corrupted %s passed the re-derivation by TLC" % field)
        n += 1
    return n


def history_negative_controls(wd):
    """The binding of the histories: a record whose run returns another verdict than its program alone, a history whose
    later runs are missing, and runs that are not separated by `next` must be rejected, each with its class."""
    recs = []
    with open(os.path.join(wd, "fam-hist.trace.ndjson")) as f:
        for line in f:
            recs.append(json.loads(line))
            if len(recs) == 60:
                break
    if len(recs) < 60 or any(r["ev"][-1]["e"] != "finish" or "solo" not in r for r in recs):
        return 0            # the family itself is being rejected in this run: the controls are calibrated for complete runs
    planted = {}
    flip = {"ok": "err", "err": "ok"}
    r = recs[2]
    r["solo"][1] = dict(r["solo"][1], r=flip[r["solo"][1]["r"]])                 # alone: the other verdict class
    planted[3] = "history-dependent"
    r = recs[4]
    r["solo"][0] = dict(r["solo"][0], n=r["solo"][0]["n"] + 1)                   # alone: one more error
    planted[5] = "history-dependent"
    r = recs[6]
    kinds = [e["e"] for e in r["ev"]]
    del r["ev"][kinds.index("next"):]                                            # the second program was never compiled
    planted[7] = "truncated"
    r = recs[8]
    kinds = [e["e"] for e in r["ev"]]
    del r["ev"][kinds.index("next")]                                             # a second run without `next`
    planted[9] = "protocol"
    vlib.write_ndjson(os.path.join(wd, "neg-hist.trace.ndjson"), recs)
    r, rejects, uni = tlc_validate(wd, "neg-hist", "fam.hist", 0, workers=2)
    got = {k: p["why"] for k, p in rejects.items()}
    if got != planted:
        vlib.tool_error("negative control accepted: planted %r in history records, TLC rejected %r" % (planted, got))
    if r.coverage.get("TraceAgain", (0, 0))[1] == 0:
        vlib.tool_error("vacuity: trace action TraceAgain never taken")
    return len(planted)


# --------------------------------------------------------------------------- main

def spec_model(wd, ev):
    r = vlib.tlc("MC_Pipeline", wd=wd, timeout=600, workers=4)
    vlib.require_tlc_ok(r, "SyltPipeline protocol model")
    for act in ("Start", "ParseErr", "ParseOk", "CompileErr", "CompileOk", "RenderErr", "Finish"):
        if r.coverage.get(act, (0, 0))[1] == 0:
            vlib.tool_error("vacuity: spec action %s never taken in the protocol model" % act)
    ev.set(spec_model={"states": r.distinct, "transitions": r.generated,
                       "actions": {k: v[1] for k, v in r.coverage.items() if k[0].isupper() and not k.startswith("Type")},
                       "invariants": ["TypeOK", "FailedHasErrors", "OkHasBytes", "RenderedSane", "FinishedIsOutcome",
                                      "UndecidedIsBlank", "NoStuck"],
                       "liveness": ["Terminates (every fair behaviour reaches Finish)"],
                       "assumed": ["UniverseSane (sizes and corner elements of TokenStringAt)"]})
    return r


def run(ctx):
    tier = ctx.tier
    wd = vlib.workdir(PID)
    ev = vlib.Evidence(PID, tier, "exploration")
    verdicts = vlib.Verdicts(PID)
    vlib.build_harness()
    run_ = Run()

    if ctx.replay:
        rp = json.load(open(ctx.replay))["replay"]
        cases = [rp["minimal_case"]]
        if isinstance(rp.get("original_case"), dict) and "files" in rp["original_case"]:
            cases.append(rp["original_case"])
        for i, c in enumerate(cases):
            c["id"] = "replay:%d" % i
            c["kind"] = "replay"
        src = os.path.join(wd, "replay-src.ndjson")
        vlib.write_ndjson(src, cases)
        case_universe(run_, wd, ["cases", src], "replay", "replay")
        reports = add_verdicts(run_, wd, verdicts)
        ev.set(evaluations=run_.records, distinct_nontrivial=run_.distinct_nontrivial, rule="replay of one stored case",
               samples=[c["files"] for c in cases], states=run_.states, transitions=run_.transitions, reports=reports)
        rc = verdicts.finish()
        ev.violations = len(verdicts.violations)
        ev.write()
        return rc

    # 1. the protocol on its own
    m = spec_model(wd, ev)

    # 2. conformance: every recorded run must be a complete behaviour
    quick = tier == "quick"
    # (universe, max tokens): the body frame reaches the later phases most often, so it gets the long bound
    plan = (("tok20.top", 4), ("tok20.body", 4), ("tok31.top", 3), ("tok31.body", 3), ("tok31.raw", 3)) if quick else \
           (("tok20.top", 4), ("tok20.body", 5), ("tok31.top", 3), ("tok31.body", 4), ("tok31.raw", 4))
    chunk = 45000 if quick else 240000
    families = FamilyRun(wd)          # TLC starts emitting the families now
    for u, maxlen in plan:
        tok_universe(run_, wd, u, maxlen, chunk, parallel=4)
    case_universe(run_, wd, ["proj"], "proj", "projects")
    families.record(run_)             # compiled now; validated by TLC while the mutations are recorded
    nmut, rounds = (40000, 1) if quick else (80000, 5)
    for i in range(rounds):
        env = {"VERIF_SEED": str(vlib.seed() * 1000 + i)} if rounds > 1 else None
        s = case_universe(run_, wd, ["mut", nmut], "mut-%d" % i, "mutations", env=env)
        if s["records"] < nmut * 0.9 and not s.get("notrun"):
            vlib.tool_error("mutation generator produced only %d of %d cases" % (s["records"], nmut))
    families.finish(run_)

    # 3. verdicts (before the guards: the guards are calibrated for a tree on which the property holds; once a violation
    #    is on record vlib.tool_error reports it instead of the failing guard)
    reports = add_verdicts(run_, wd, verdicts)

    # 4. vacuity guards
    for a in TRACE_ACTIONS + ("TraceAgain",):
        if run_.coverage.get(a, 0) == 0:
            vlib.tool_error("vacuity: trace action %s never taken" % a)
    mk = run_.universes["mutations"]["kinds"]
    for kind in ("truncate", "delete", "dup", "swap", "splice", "move-in", "copy-in", "move-out", "copy-out", "garbage",
                 "cut-chars", "ident-swap", "op-swap", "lit-swap", "line-delete", "line-dup", "stmt-delete", "stmt-dup",
                 "expr-inject", "stmt-inject"):
        if mk.get(kind, 0) < 50:
            vlib.tool_error("vacuity: mutation kind %s has only %d cases" % (kind, mk.get(kind, 0)))
    for label in ("mutations", "projects"):
        oc = run_.universes[label]["outcomes"]
        for key in ("err-parse", "err-compile", "ok-compile"):
            if oc.get(key, 0) < 30:
                vlib.tool_error("vacuity: universe %s has only %d runs with outcome %s" % (label, oc.get(key, 0), key))
    if len(run_.universes["projects"]["kinds"]) < 60:
        vlib.tool_error("vacuity: fewer than 60 project families")
    family_guards(run_)

    # 5. negative controls (binding demonstration)
    neg = negative_controls(wd, tier) + family_negative_controls(wd) + history_negative_controls(wd)

    ev.set(evaluations=run_.records, distinct_nontrivial=run_.distinct_nontrivial,
           states=run_.states + m.distinct, transitions=run_.transitions + m.generated,
           traces_validated_against_impl=run_.records,
           rule="inputs: every token string over the 20-spelling alphabet Tok20 and the 31-spelling alphabet Tok31 up to the lengths listed "
                "under universes (framed as top-level text, as entry-point body, or raw), index-addressed with completeness decided by TLC; "
                "the TLA+-defined families of structured programs fam.* (SyltPipeline!FamCase, emitted and re-derived by TLC: constructs "
                "nested in themselves and in each other to depth 8/16/24/32, misplaced statements, import cycles with syntax errors, "
                "self-referential types in type errors, multi-line tokens, the origin of the entry point, arithmetic over literals towards "
                "the numeric limits at every expression position, and HISTORIES of two or three compilations in one thread, each run "
                "compared by TLC with the verdict of its program compiled alone); the project families x module variants x {std,no-std}; "
                "and seeded corpus mutations (20 kinds); a case counts as distinct+non-trivial when its content hash (files, main, flags) "
                "is new in this run and its main file has >=1 token",
           samples=run_.samples[:30], universes=run_.universes, outcomes=run_.outcomes,
           trace_actions={k: v for k, v in run_.coverage.items()}, isolation=run_.isolation,
           rejected_runs=len(run_.rejected), not_run_after_timeouts=run_.notrun, violation_reports=reports,
           negative_controls_rejected=neg, known_findings_hit=verdicts.known_hits,
           exhaustive=False, exhaustive_parts=[k for k in run_.universes if k.startswith("tok") or k.startswith("fam.")])
    ev.assume("TLC, SyltPipeline and the recorder c07 (maps API outcomes to events) are trusted",
              "hangs are detected by budgets of CPU time of the worker process (15 s without a result in a batch, then 60 s alone; wall-clock "
              "time is only a 15 min backstop that ends the check as a tool error, never as a verdict), not proved absent; after 8 recorded timeouts in one "
              "universe the recorder stops and the remaining inputs of that universe are `notrun` (rejected by TLC, reported with the timeouts)",
              "nesting depth of generated inputs is bounded by 40; workers run with a 512 MB stack and a 6 GB address-space limit",
              "bytes written before a failure are recorded but not constrained by C07 (see C03/C06)",
              "histories: `alone` is the first compilation of a fresh thread of the worker process (observed once per worker and "
              "distinct program); state shared by ALL threads of a process would show as a panic / changed verdict of later cases, "
              "not as a difference to `alone`")
    rc = verdicts.finish()
    ev.violations = len(verdicts.violations)
    ev.write()
    return rc
