"""C11 - top-level order is irrelevant; globals are initialised before use.

SyltInit (TLA+) defines what a program means without reference to text order: a global may be initialised whenever the
dynamic needs of its initialiser are met (GlobalInit), start() runs last. MC_Init explores EVERY admissible order for
every program of two families - dependency SHAPES (<= 4 globals, 15 initialiser kinds, every target choice) and
syntactic POSITIONS (a function / initialiser whose only mention of a later global sits at one child position of one
construct: 53 positions x 4 kinds of user), plus SELF-REFERENCE, TYPE ORDER (SyltTypeOrder) and DEAD CODE (SyltDeadCode: the
only mention sits in code that never runs - after ret / <!>, in never-taken branches, arms, loops and closures) - under the invariants no uninitialised access, confluence, blocked <=>
cyclic, and prints each program with its class (confluent / nonconfluent / cyclic) and
expected result. The harness renders every textual permutation of the top-level statements (all NS! when <= 120,
else 120 seeded ones) and two-file splits (other.sy with `from .. use` / `use ..`), compiles each with the real
compiler and runs the Lua in minilua. Trace_Init (TLC) re-derives each program and its outcomes from the id, asserts
that the recorded variants cover what the specification requires, and judges them: (1) accept/reject identical over
all permutations, (2) accepted programs behave as the confluent result in every permutation, (3) cyclic value
dependencies are rejected in every order with a non-empty error list and no Lua bytes.
"""
import json
import os
import re
import vlib

PID = "C11"
STYLE = ["single", "from", "use"]
ASSIGNERS = ("fnasg", "fninc")
ALL_KINDS = ["lit", "mlit", "read", "arith", "call", "clocall", "fld", "fnread", "fnasg", "fninc", "mkclo", "enumv",
             "blobl", "blobof", "list"]


def fact(n):
    r = 1
    for i in range(2, n + 1):
        r *= i
    return r


def perm_of(n, k):
    """k-th permutation of 0..n-1 in factoradic order (the numbering harness/src/bin/c11.rs uses)."""
    elems = list(range(n))
    out = []
    for i in range(n):
        f = fact(n - 1 - i)
        out.append(elems.pop(k // f))
        k %= f
    return out


def canon_index(rec, gid):
    for c, t in enumerate(rec["tops"]):
        if t["k"] == "def" and t["b"] == gid:
            return c
    raise KeyError(gid)


ASSIGN_POSITIONS = ("asgtarget", "opasgtarget", "fldtarget", "fldoptarget", "deepfldtarget", "fldtargetinloop", "idxtarget")


def assign_pairs(rec):
    """[(ids of the globals whose initialisation or body leads to an assignment of global t, t)] - from the case."""
    pairs = []
    if rec["fam"] in ("type", "self", "dead", "deadself"):      # (an assignment in code that never runs assigns nothing)
        return pairs
    if rec["fam"] in ("pos", "unspec"):
        if rec["id"]["pos"] in ASSIGN_POSITIONS:
            users = {2, 3} & {t["b"] for t in rec["tops"] if t["k"] == "def"}    # f and/or u; late is global 1
            pairs.append((users, 1))
        return pairs
    ident = rec["id"]
    for i, ch in enumerate(ident):
        if ch["kind"] in ASSIGNERS:
            users = {i + 1}
            grew = True
            while grew:
                grew = False
                for u, cu in enumerate(ident):
                    if cu["j"] in users and (u + 1) not in users:
                        users.add(u + 1)
                        grew = True
            pairs.append((users, ch["j"]))
    return pairs


def hazard(rec, variant):
    """Does a function that assigns a global g - or a global whose initialiser (transitively) refers to that
    function - stand before g's definition, or in the other file?  (Computed from the case alone.)"""
    perm, mask = variant[0], variant[1]
    order = perm_of(len(rec["tops"]), perm)
    pos = {c: i for i, c in enumerate(order)}
    for users, target in assign_pairs(rec):
        t = canon_index(rec, target)
        for u in users:
            a = canon_index(rec, u)
            if (mask >> a & 1) != (mask >> t & 1) or pos[a] < pos[t]:
                return True
    return False


def describe(rec):
    if rec["fam"] in ("pos", "unspec"):
        return "pos=%s,user=%s" % (rec["id"]["pos"], rec["id"]["user"])
    if rec["fam"] == "self":
        return "self-reference,pos=%s,user=%s" % (rec["id"]["pos"], rec["id"]["user"])
    if rec["fam"] == "type":
        return "type=%s,use=%s" % (rec["id"]["shape"], rec["id"]["use"])
    if rec["fam"] == "dead":
        return "dead=%s,pos=%s,user=%s" % (rec["id"]["ctx"], rec["id"]["pos"], rec["id"]["user"])
    if rec["fam"] == "deadself":
        return "dead-self-reference=%s,pos=%s,user=%s" % (rec["id"]["ctx"], rec["id"]["pos"], rec["id"]["user"])
    return "kinds=" + "+".join(sorted(set(c["kind"] for c in rec["id"])))


def signature(rec, rej):
    why = rej["why"]
    bad = [v for v in rec["variants"] if v[1] == rej["mask"] and v[2] == rej["style"] and v[3] in rej["badobs"]]
    has_assigner = bool(assign_pairs(rec))
    if why in ("order-dependent", "wrong-in-every-order") and has_assigner and bad and all(hazard(rec, v) for v in bad):
        cause = "fn-assigning-later-global"
    elif why == "cycle-accepted" and has_assigner:
        cause = "assignment-cycle"
    else:
        cause = describe(rec)
    return "C11|%s|%s|%s" % (why, STYLE[rej["style"]], cause), bad


def program_text(rec):
    if rec["fam"] != "shape":
        return describe(rec)
    return " ".join("%s%s" % (c["kind"], c["j"] or "") for c in rec["id"])


def record(wd, name, cases, params, env=None):
    cf = os.path.join(wd, name + "-cases.ndjson")
    tf = os.path.join(wd, name + "-trace.ndjson")
    vlib.write_ndjson(cf, cases)
    vlib.harness("c11", ["record", cf, tf, params["MAXPERM"], params["TWOG"], params["TWOP"]], env=env,
                 timeout=3000 if params["TWOG"] <= 2 else 10800)      # thorough: a busy machine must not turn into a tool error
    recs = vlib.read_ndjson(tf)
    if len(recs) != len(cases):
        vlib.tool_error("%s: %d cases but %d records" % (name, len(cases), len(recs)))
    return tf, recs


def validate(wd, name, tf, params, full_env=None, workers=None):
    env = dict(params)
    env["TRACE"] = tf
    if full_env:
        env.update(full_env)
        env["FULL"] = 1
    v = vlib.tlc("Trace_Init", wd=wd, env=env, tags=("REJECT", "JUDGED"), coverage=False, timeout=2400, xmx="12g",
                 workers=workers or 8, out_file=os.path.join(wd, "tlc-validate-%s.out" % name))
    vlib.require_tlc_ok(v, "Trace_Init (%s)" % name)
    rejects = list({json.dumps(p, sort_keys=True): p for (t, p) in v.records if t == "REJECT"}.values())
    judged = {p["rec"]: p for (t, p) in v.records if t == "JUDGED"}
    return v, rejects, judged


def show_variant(wd, name, idx, v):
    cf = os.path.join(wd, name + "-cases.ndjson")
    p = vlib.harness("c11", ["print", cf, idx, v[0], v[1], v[2]])
    return p.stdout


def run(ctx):
    tier = ctx.tier
    wd = vlib.workdir(PID)
    ev = vlib.Evidence(PID, tier, "model_checking")
    verdicts = vlib.Verdicts(PID)
    vlib.build_harness(["c11"])
    if tier == "quick":
        uni = {"MINN": 1, "MAXN": 4, "MOD": 12, "SEED": ctx.seed, "POS": 1, "TYPES": 1, "DEAD": 1, "DEADMOD": 8, "DEADSELFMOD": 12}
        params = {"MAXPERM": 120, "TWOG": 2, "TWOP": 6}
    else:
        uni = {"MINN": 1, "MAXN": 4, "MOD": 1, "SEED": ctx.seed, "POS": 1, "TYPES": 1, "DEAD": 1, "DEADMOD": 1, "DEADSELFMOD": 1}
        params = {"MAXPERM": 120, "TWOG": 4, "TWOP": 12}

    if ctx.replay:
        rp = json.load(open(ctx.replay))["replay"]
        cases = [rp["case"]]
        params = rp.get("params", params)
        tf, recs = record(wd, "replay", cases, params)
        v, rejects, judged = validate(wd, "replay", tf, params, workers=2)
        for rej in rejects:
            sig, bad = signature(recs[0], rej)
            verdicts.add(sig, "%s in group mask=%d style=%s" % (rej["why"], rej["mask"], STYLE[rej["style"]]), rp)
            print("signature:", sig, "want:", rej["want"])
            for b in bad[:2]:
                print(show_variant(wd, "replay", 0, b))
        ev.set(states=v.distinct, transitions=v.generated, traces_validated_against_impl=len(recs[0]["variants"]),
               samples=[cases[0]["id"]])
        rc = verdicts.finish()
        ev.violations = len(verdicts.violations)
        ev.write()
        return rc

    # 1. the specification: every admissible initialisation order of every program
    r = vlib.tlc("MC_Init", wd=wd, env=uni, coverage=False, timeout=2400, xmx="12g", workers=8)
    vlib.require_tlc_ok(r, "MC_Init (all initialisation orders of the universe)")
    cases = list({json.dumps([p["fam"], p["id"]]): p for (_, p) in r.records}.values())
    by_class = {}
    for c in cases:
        by_class[c["class"]] = by_class.get(c["class"], 0) + 1
    npos = sum(1 for c in cases if c["fam"] == "pos")
    if npos < 175:
        vlib.tool_error("vacuity: only %d position cases" % npos)
    ndead = sum(1 for c in cases if c["fam"] == "dead")
    ndeadself = sum(1 for c in cases if c["fam"] == "deadself")
    if ndead < (250 if tier == "quick" else 2200) or ndeadself < (60 if tier == "quick" else 800):
        vlib.tool_error("vacuity: only %d dead-code and %d dead self-reference cases" % (ndead, ndeadself))
    if any(c["class"] != "confluent" for c in cases if c["fam"] in ("dead", "deadself")):
        vlib.tool_error("a dead-code case is not confluent")
    nself = sum(1 for c in cases if c["fam"] == "self")
    if nself < 40:
        vlib.tool_error("vacuity: only %d self-reference cases" % nself)
    ntype = sum(1 for c in cases if c["fam"] == "type")
    if ntype < 45 or by_class.get("illtyped", 0) < 25 or by_class.get("unspecified", 0) < 3:
        vlib.tool_error("vacuity: %d type-order cases, classes %s" % (ntype, by_class))
    min_cases = 1600 if tier == "quick" else 14200
    if len(cases) < min_cases or r.depth < 6:
        vlib.tool_error("vacuity: %d programs, depth %d" % (len(cases), r.depth))
    if by_class.get("cyclic", 0) < 50 or by_class.get("confluent", 0) < 300 or by_class.get("nonconfluent", 0) < 1:
        vlib.tool_error("vacuity: classes %s" % by_class)
    # states with an initialised global but not yet run = GlobalInit fired; every complete behaviour = CallStartA fired
    ev.set(states=r.distinct, transitions=r.generated, tlc_wall_s=round(r.wall_s, 1), programs=len(cases),
           classes=by_class, non_confluent=by_class.get("nonconfluent", 0),
           spec_invariants=["NoUninitialisedAccess", "SpecNeverStuck", "InitialisedOnlyOnce", "InOutcomes", "Confluence",
                            "CyclicNeverCompletes", "BlockedOnlyIfCyclic", "CompleteEndsDone", "PositionCasesConfluent", "SelfCasesCyclic",
                            "DeadCasesConfluent", "TypeLabels"])

    # 2. conformance: all permutations / splits through the real compiler and minilua; TLC judges
    tf, recs = record(wd, "main", cases, params)
    v, rejects, judged = validate(wd, "main", tf, params, full_env=uni)
    if len(judged) != len(recs):
        vlib.tool_error("vacuity: %d records but %d judged" % (len(recs), len(judged)))

    nvariants = sum(len(x["variants"]) for x in recs)
    rejected_recs = {rej["rec"] for rej in rejects}
    for rej in rejects:
        rec = recs[rej["rec"] - 1]
        sig, bad = signature(rec, rej)
        seen = sorted({json.dumps(rec["obs"][i - 1], sort_keys=True) for i in rej["badobs"]})[:2]
        verdicts.add(sig, "%s (mask=%d, %s): program %s; want %s; offending observations %s" % (
            rej["why"], rej["mask"], STYLE[rej["style"]], program_text(rec),
            json.dumps(rej["want"]), "; ".join(seen)[:300]),
            {"case": cases[rej["rec"] - 1], "params": params, "group": [rej["mask"], rej["style"]],
             "bad_variants": bad[:6], "want": rej["want"]})

    # counters and vacuity guards
    kinds_ok = {k: 0 for k in ALL_KINDS}       # kind seen in a confluent program accepted in every rendering
    kinds_clean = {k: 0 for k in ALL_KINDS}    # ... and behaving as specified in every rendering
    pos_ok, pos_clean = {}, {}                 # the same for the syntactic positions
    type_good_clean = set()                    # type shapes whose well-typed use is accepted and behaves in every rendering
    ill_rejected = 0                           # planted ill-typed programs rejected in every rendering
    dead_ok, dead_clean, deadpos_clean = {}, {}, {}   # dead contexts / positions accepted (and behaving) in every rendering
    deadself_rejected = deadself_accepted = 0  # dead self-references: rejected / accepted in every rendering
    conservative = 0
    cyc_rejected = 0
    all_syntax = 0
    split_changes_acceptance = 0
    for i, rec in enumerate(recs):
        j = judged[i + 1]
        if rec["obs"] and all(o["ekind"] == "syntax" for o in rec["obs"]):
            all_syntax += 1
        for o in rec["obs"]:
            if o["status"] in ("unsupported", "step_limit"):
                vlib.tool_error("minilua could not run a chunk: %s %s" % (rec["id"], rec["detail"]))
        single_ok = {rec["obs"][x[3] - 1]["class"] == "ok" for x in rec["variants"] if x[2] == 0}
        two_ok = {rec["obs"][x[3] - 1]["class"] == "ok" for x in rec["variants"] if x[2] != 0}
        if len(single_ok) == 1 and two_ok and two_ok != single_ok:
            split_changes_acceptance += 1
        if j["class"] == "cyclic" and j["accepted"] == 0:
            cyc_rejected += 1
        if j["class"] == "illtyped" and j["accepted"] == 0:
            ill_rejected += 1
        if j["class"] == "confluent" and rec["fam"] == "type":
            if j["accepted"] == j["variants"] and (i + 1) not in rejected_recs:
                type_good_clean.add(rec["id"]["shape"])
        elif rec["fam"] == "deadself":
            deadself_rejected += j["accepted"] == 0
            deadself_accepted += j["accepted"] == j["variants"]
        elif rec["fam"] == "dead":
            if j["accepted"] == j["variants"]:
                dead_ok[rec["id"]["ctx"]] = dead_ok.get(rec["id"]["ctx"], 0) + 1
                if (i + 1) not in rejected_recs:
                    dead_clean[rec["id"]["ctx"]] = dead_clean.get(rec["id"]["ctx"], 0) + 1
                    deadpos_clean[rec["id"]["pos"]] = deadpos_clean.get(rec["id"]["pos"], 0) + 1
        elif j["class"] == "confluent":
            if j["accepted"] == 0:
                conservative += 1
            elif j["accepted"] == j["variants"] and rec["fam"] == "pos":
                pos_ok[rec["id"]["pos"]] = pos_ok.get(rec["id"]["pos"], 0) + 1
                if (i + 1) not in rejected_recs:
                    pos_clean[rec["id"]["pos"]] = pos_clean.get(rec["id"]["pos"], 0) + 1
            elif j["accepted"] == j["variants"]:
                for c in rec["id"]:
                    kinds_ok[c["kind"]] += 1
                    if (i + 1) not in rejected_recs:
                        kinds_clean[c["kind"]] += 1
    if all_syntax:
        vlib.tool_error("printer problem: %d programs are syntax errors in every rendering" % all_syntax)
    missing = [k for k in ALL_KINDS if kinds_ok[k] == 0]
    if missing:
        vlib.tool_error("vacuity: initialiser kinds never exercised in an accepted confluent program: %s" % missing)
    missing = [k for k in ALL_KINDS if kinds_clean[k] == 0 and k not in ASSIGNERS]
    if missing:
        vlib.tool_error("vacuity: initialiser kinds never seen behaving as specified: %s" % missing)
    all_pos = sorted({c["id"]["pos"] for c in cases if c["fam"] == "pos"})
    missing = [q for q in all_pos if pos_ok.get(q, 0) == 0]
    if missing:
        vlib.tool_error("vacuity: positions never accepted by the compiler (printer / typing of the case?): %s" % missing)
    if len(all_pos) < 53:
        vlib.tool_error("vacuity: only %d positions" % len(all_pos))
    all_ctx = sorted({c["id"]["ctx"] for c in cases if c["fam"] == "dead"})
    missing = [q for q in all_ctx if dead_ok.get(q, 0) == 0]
    if missing or len(all_ctx) < 14:
        vlib.tool_error("vacuity: %d dead contexts; never accepted by the compiler (printer / typing of the case?): %s" % (len(all_ctx), missing))
    missing = [q for q in all_pos if q not in {c["id"]["pos"] for c in cases if c["fam"] == "dead"}]
    if missing:
        vlib.tool_error("vacuity: positions without a dead-code case: %s" % missing)
    all_tshapes = sorted({c["id"]["shape"] for c in cases if c["fam"] == "type"})
    missing = [q for q in all_tshapes if q not in type_good_clean]
    if missing:
        vlib.tool_error("vacuity: well-typed use of type shapes not accepted / not behaving in every order: %s" % missing)
    if len(all_tshapes) < 17 or ill_rejected < 20:
        vlib.tool_error("vacuity: %d type shapes, %d planted ill-typed programs rejected in every order" % (len(all_tshapes), ill_rejected))
    if conservative > 0.2 * by_class["confluent"]:
        vlib.tool_error("vacuity: %d of %d confluent programs are rejected by the compiler" % (conservative, by_class["confluent"]))
    if cyc_rejected < 50:
        vlib.tool_error("vacuity: only %d cyclic programs rejected in every order" % cyc_rejected)
    if any(len(x["variants"]) < 2 for x in recs):
        vlib.tool_error("vacuity: a program with fewer than 2 renderings")

    # 3. negative controls: falsified records must be rejected by the specification
    conf = [c for i, c in enumerate(cases) if c["fam"] == "shape" and c["class"] == "confluent" and judged[i + 1]["accepted"] == judged[i + 1]["variants"]
            and (i + 1) not in rejected_recs][:40]
    cyc = [c for i, c in enumerate(cases) if c["class"] == "cyclic" and judged[i + 1]["accepted"] == 0][:20]
    neg_total = 0
    for stub, sub, want in (("dropprint", conf, "order-dependent"), ("flipclass", conf + cyc, "accept-differs")):
        ntf, nrecs = record(wd, "neg-" + stub, sub, params, env={"C11_STUB": stub})
        nv, nrej, _ = validate(wd, "neg-" + stub, ntf, params, workers=4)
        hit = {x["rec"] for x in nrej if x["why"] == want and x["style"] == 0}
        if len(hit) != len(sub):
            vlib.tool_error("negative control %s: only %d of %d falsified records rejected" % (stub, len(hit), len(sub)))
        neg_total += len(hit)

    ev.add("states", v.distinct)
    ev.add("transitions", v.generated)
    two = sum(1 for x in recs for y in x["variants"] if y[2] != 0)
    ev.set(traces_validated_against_impl=nvariants, evaluations=nvariants, renderings_two_files=two,
           distinct_nontrivial=sum(1 for x in recs if len(x["variants"]) >= 6),
           exhaustive=(tier == "thorough"), rejected_by_compiler=conservative, cyclic_rejected_in_every_order=cyc_rejected,
           split_changes_acceptance=split_changes_acceptance, kinds_in_accepted_programs=kinds_ok,
           kinds_behaving_as_specified=kinds_clean, position_cases=npos, positions=len(all_pos),
           positions_behaving_as_specified=len(pos_clean), type_order_cases=ntype, self_reference_cases=nself, type_shapes=len(all_tshapes),
           illtyped_rejected_in_every_order=ill_rejected, negative_controls_rejected=neg_total,
           dead_code_cases=ndead, dead_contexts=len(all_ctx), dead_contexts_behaving_as_specified=len(dead_clean),
           dead_positions_behaving_as_specified=len(deadpos_clean), dead_self_reference_cases=ndeadself,
           dead_self_reference_rejected_in_every_order=deadself_rejected, dead_self_reference_accepted_in_every_order=deadself_accepted,
           reject_records=len(rejects), known_findings_hit=verdicts.known_hits, validate_wall_s=round(v.wall_s, 1),
           rule="dead-code families (SyltDeadCode): 14 dead contexts (after ret / <!>, in never-taken branches, arms, loops, closures) x 53 positions x users "
                "(start / init / iife), and self-references in dead code (quick: a diagonal 1/8 resp. 1/12 sample defined in TLA+, every context and every position occurs); type-order family: 17 shapes of mutually mentioning type declarations / signature-only uses x (good + planted ill-typed uses), all; position family: 53 syntactic positions x users (start / init / iife / expr), all; shape family: programs of SyltInit's universe (sizes 1-3 complete; size 4 complete in thorough, a seeded 1/12 sample plus "
                "landmarks in quick); per program every permutation of its NS top-level statements when NS! <= 120, else 120 "
                "seeded distinct ones incl. canonical and reversed; plus two-file groups (mask, import style) x permutations; "
                "non-trivial = at least 6 renderings",
           samples=[{"id": x["id"], "class": x["class"], "renderings": len(x["variants"]), "distinct_observations": len(x["obs"])}
                    for x in (recs[:2] + recs[len(recs) // 2:len(recs) // 2 + 2])])
    ev.assume("minilua stands in for Lua 5.3 (no Lua interpreter exists in the sandbox)",
              "a program the specification calls confluent but the compiler rejects in every order is counted "
              "(rejected_by_compiler), not reported: no listed property promises completeness of the dependency analysis",
              "accept/reject consistency is required among renderings that differ only by a permutation (same file split)",
              "the harness numbers permutations factoradically; that perm_of is a bijection is self-checked at start")
    rc = verdicts.finish()
    ev.violations = len(verdicts.violations)
    ev.write()
    return rc
