"""C18 - standard-library containers and helpers meet their contracts.

SyltStd (TLA+) holds plain models: list = Seq(V), dict = partial function, set = subset, Maybe = variant, and the
pure helpers; one named action per library operation computes the expected result and the next abstract state.
TLC explores the state graph with the history hidden behind a VIEW (pattern P3) and prints one record per
*transition*: (history reaching s, operation, expected result, expected observation of s'). TransitionSane, an
ACTION_CONSTRAINT evaluated on every transition, asserts the algebra of the models themselves.

The replayer c18 turns batches of transitions into Sylt programs (rebuild the container by replaying the history,
apply the operation, print the result, then len and every element via get/contains), compiles them with std, runs
them in minilua and records expected-vs-printed lines. "Interchangeable" is tested inside Sylt: every library
result is compared with the same value written in source (`==` both ways, isJust), and the container itself with
the literal of the expected state. Python only classifies the differing lines into signatures.

Value semantics ACROSS containers (SyltShare, which extends SyltStd): up to three registers r1, r2, r3; r1 is a list
literal, `Derive` makes a new register from an existing one (map, filter, copy by for_each + push, dict/set.from_list,
dict.map, set.map, entries/elements captured by a for_each callback), `Mutate` changes exactly one register; after
every step ALL registers are observed. A mutation that shows through another register is an `independence` violation.
The register made or changed by a step is also compared as text (as_str) with the same value built from a literal.

Dicts and sets are also instantiated with awkward string keys ("wstr": _type, __index, __eq, __tostring, __newindex, __add, n,
"1", "nil", "true", "", "(1, 2)"), each tried absent and present. Callbacks handed to map / filter / fold / find / for_each
(int lists) and to dict.map / set.map / dict.for_each / set.for_each (SyltShare) also come RE-ENTRANT: they call the library on
the container being traversed and on other containers; the model gives the expected value.

Round 3, two more axes of the SyltStd universe. (1) NUMERIC-LOOKING STRING KEYS: dicts and sets over "nstr" (24 strings that read
as numbers: "1" "01" "1.0" " 1" "1 " "1e0" "0x1" "+1" / "10" "1e1" "1E1" "0xA" "0xa" "10.0" / "0x10" "16" / "-1" "-1.0" / "0" "-0"
"0.0" / "0.5" ".5" / "1a"; <= 1 key, all 24 asked after every transition) and "nstr2" (six of them, <= 2 keys per dict, <= 3 per
set), beside float / int (0, -1) / "" keys: a string key is the key its text says. (2) ELEMENTS AND VALUES A RUNTIME MIGHT TAKE FOR
"NOTHING": lists of bool, float, "" / "0", unit, lists, Maybe (None as an element), 0 / -1, and dicts with such values, through every
operation (get / last / pop / find / contains / dict.get / contains_key answer Just false, Just None, Just [] ... like Just 1).

div and floor are read with floor semantics on all operands (div(a, b) = floor(a / b), a in -7..7, b in -3..3 \ {0}).

A transition whose history already left the implementation in a wrong state is not judged (the earlier operation
is blamed). thorough adds `tlc -simulate` behaviours of 12 steps with larger bounds and SyltShare literals over 3 values.
"""
import concurrent.futures
import json
import re
import os
import vlib

PID = "C18"

ACTIONS = ["ListLit", "Push", "Prepend", "Pop", "Get", "Set", "LenL", "Map", "Filter", "Fold", "Find", "Contains", "Last",
           "ReMap", "ReFilter", "ReFold", "ReFind", "ForEach",
           "DictNew", "DictFromList", "DictUpdate", "DictGet", "DictRemove", "DictLen", "DictContainsKey",
           "SetNew", "SetFromList", "SetAdd", "SetContains", "SetRemove", "SetLen",
           "HMin", "HMax", "HAbs", "HClamp", "HSign", "HDiv", "HFloor", "HOrDefault", "HIsJust", "HIsNone"]
MATH = ("min", "max", "abs", "clamp", "sign", "div", "floor")
SHARE_ACTIONS = ["SLit", "DMap", "DFilter", "DCopy", "DDictFromList", "DDictMap", "DEntriesOf", "DSetFromList", "DSetMap", "DElemsOf",
                 "MPush", "MPrepend", "MPop", "MSet", "MUpdate", "MRemoveD", "MAdd", "MRemoveS"]


def key(x):
    return json.dumps(x, sort_keys=True, separators=(",", ":"))


def collect(r):
    seen, out = set(), []
    for (_, c) in r.records:
        k = key(c)
        if k not in seen:      # TLC workers can evaluate the same transition twice
            seen.add(k)
            out.append(c)
    return out


def container(case):
    if case["kind"] == "share":
        return "share-" + case["shape"]
    if case["kind"] != "helper":
        return case["kind"]
    return "math" if case["op"]["op"] in MATH else "maybe"


def signature(case, what, extra=None):
    detail = case.get("arg", "-")
    if case["res"].get("k") == "variant":
        detail += ":" + case["res"]["tag"]
    if extra:
        detail += ":" + extra
    return "%s|%s|%s|%s|%s|%s" % (PID, container(case), case["op"]["op"], case["ty"], what, detail)


_NUM0 = re.compile(r"(?<![\w.])(-?\d+)\.0(?!\d)")


def norm(text):
    """DESIGN 7.1: whether a float prints with `.0` is an artefact of the Lua version, not a Sylt property: 2.0 = 2"""
    return _NUM0.sub(r"\1", text) if isinstance(text, str) else text


def differs(l):
    return norm(l["want"]) != norm(l["got"])


def classify(case, res):
    """-> (list of (signature, text), state_wrong)"""
    v = res["verdict"]
    if v == "ok":
        return [], False
    if v in ("rejected", "panic"):
        return [], False       # counted by the caller (vacuity guard), never a verdict on the library
    lines = res.get("lines", [])
    bad = [l for l in lines if differs(l)]
    if v == "lua_error":
        died = res.get("died_at") or {}
        at = died.get("cls", "result")
        if case["kind"] == "share" and at == "print":
            # as_str of the register is the last line of a transition: everything before it was printed and is judged
            bad = [l for l in bad if l["cls"] != "print"] + [dict(died, cls="print", got="a Lua error (%s)" % res.get("status", "?")[:120], want="true")]
        else:
            what = "state" if at == "state" else "result"
            return [(signature(case, what, "lua-error"), "the program died with %s" % res.get("status", "?")[:160])], True
    if case["kind"] == "share":
        return classify_share(case, bad, lines)
    out = []
    res_bad = [l for l in bad if l["cls"] == "result"]
    int_bad = [l for l in bad if l["cls"] == "interchange" and not l["what"].startswith("container ==")]
    state_bad = [l for l in bad if l["cls"] == "state"]
    eq_bad = [l for l in bad if l["cls"] == "interchange" and l["what"].startswith("container ==")]
    if res_bad:
        l = res_bad[0]
        out.append((signature(case, "result"), "%s printed %r, the model says %r" % (l["what"], l["got"], l["want"])))
    elif int_bad:
        l = int_bad[0]
        out.append((signature(case, "interchange"), "`%s` is %s inside Sylt although the printed result is the expected one" % (l["what"], l["got"])))
    if state_bad:
        l = state_bad[0]
        out.append((signature(case, "state"), "after the operation %s printed %r, the model says %r" % (l["what"], l["got"], l["want"])))
    elif eq_bad:
        l = eq_bad[0]
        out.append((signature(case, "interchange", "eq-literal"),
                    "`%s` is %s although len and every element are as expected" % (l["what"], l["got"])))
    if not out and len(lines) == 0:
        out.append((signature(case, "result", "no-output"), "nothing was printed"))
    return out, bool(state_bad or eq_bad)


def classify_share(case, bad, lines):
    """several registers: a wrong observation of the register the step names is `state`, of any OTHER register `independence`"""
    target = case["op"]["on"]
    how = lambda reg: case["regs"][reg - 1]["how"]
    step = share_optext(case["op"])
    out = []
    res_bad = [l for l in bad if l["cls"] == "result"]
    int_bad = [l for l in bad if l["cls"] == "interchange" and l.get("reg", 0) == 0]
    obs_bad = [l for l in bad if l["cls"] in ("state", "interchange") and l.get("reg", 0) > 0]
    own_bad = [l for l in obs_bad if l["reg"] == target]
    other_bad = [l for l in obs_bad if l["reg"] != target]
    print_bad = [l for l in bad if l["cls"] == "print"]
    if res_bad:
        l = res_bad[0]
        out.append((signature(case, "result"), "%s printed %r, the model says %r" % (l["what"], l["got"], l["want"])))
    elif int_bad:
        l = int_bad[0]
        out.append((signature(case, "interchange"), "`%s` is %s inside Sylt although the printed result is the expected one" % (l["what"], l["got"])))
    for reg in sorted({l["reg"] for l in other_bad}):
        l = [x for x in other_bad if x["reg"] == reg][0]
        out.append((signature(case, "independence", "changed-" + how(reg)),
                    "after `%s` the OTHER container r%d (made by %s) changed: %s printed %r, the model (containers are values) says %r"
                    % (step, reg, how(reg), l["what"], l["got"], l["want"])))
    if own_bad:
        l = own_bad[0]
        what = "state" if l["cls"] == "state" else "interchange"
        out.append((signature(case, what, "eq-literal" if what == "interchange" else None),
                    "after `%s`: %s printed %r, the model says %r" % (step, l["what"], l["got"], l["want"])))
    if print_bad:
        l = print_bad[0]
        out.append((signature(case, "print", "made-by-" + how(l["reg"])),
                    "`%s` gives %s: the container r%d made by %s has the expected len and members but not the text of the same value built from a literal"
                    % (l["what"], l["got"], l["reg"], how(l["reg"]))))
    if not out and len(lines) == 0:
        out.append((signature(case, "result", "no-output"), "nothing was printed"))
    return out, bool(obs_bad)


def hist_keys(case):
    """keys of all non-empty prefixes of hist, and of hist + [op]"""
    base = case["kind"] + "|" + case["ty"] + "|" + case.get("shape", "") + "|"
    ops = [key(o) for o in case["hist"]]
    pre = [base + ";".join(ops[:n]) for n in range(1, len(ops) + 1)]
    return pre, base + ";".join(ops + [key(case["op"])])


def show(v):
    """a value of the specification as readable text (evidence and messages only)"""
    k = v.get("k")
    if k in ("int", "bool"):
        return json.dumps(v["v"])
    if k == "str":
        return json.dumps(v["v"])
    if k == "float":
        return repr(v["n"] / 2.0 ** v["d"])
    if k == "tuple":
        return "(" + ", ".join(show(e) for e in v["es"]) + ")"
    if k == "list":
        return "[" + ", ".join(show(e) for e in v["es"]) + "]"
    if k == "variant":
        return "None" if v["tag"] == "None" else "Just " + show(v["val"])
    if k == "fn":
        return v["name"]
    return k or "?"


def share_optext(o):
    args = ", ".join(show(a) for a in o["a"])
    if o["op"] == "lit":
        return "r1 := %s" % args
    if o["from"] > 0:
        return "r%d := %s(%s) of r%d" % (o["on"], o["op"], args, o["from"])
    return "%s(%s) on r%d" % (o["op"], args, o["on"])


def short(case):
    def optext(o):
        if "on" in o:
            return share_optext(o)
        return "%s(%s)" % (o["op"], ", ".join(show(a) for a in o["a"]))
    def asktext(a):
        return ("r%d." % a["reg"] if "reg" in a else "") + "%s(%s)" % (a["op"]["op"], ", ".join(show(x) for x in a["op"]["a"]))
    return {"container": container(case), "element_type": case["ty"], "history": [optext(o) for o in case["hist"]],
            "operation": optext(case["op"]), "contract_case": case.get("arg", "-"), "expected_result": show(case["res"]),
            "expected_state_observation": ["%s = %s" % (asktext(a), show(a["res"])) for a in case["obs"]]}


FALSY_LIST = ("bool", "float", "estr", "unit", "lst", "mayb", "zint")
FALSY_DICT = ("vbool", "vunit", "vlst", "vmayb", "float", "estr", "zint")
NUMSTR = ("nstr", "nstr2")


def is_zero(v):
    """the value of its type a runtime might take for 'nothing' (guards and negative controls only)"""
    k = v.get("k")
    return ((k == "bool" and v["v"] is False) or (k == "int" and v["v"] == 0) or (k == "float" and v["n"] == 0)
            or (k == "str" and v["v"] == "") or (k in ("tuple", "list") and not v["es"]) or (k == "variant" and v["tag"] == "None"))


def number_of(text):
    """the number a string key reads as, or None (guards only: which keys of the universe are numerically equal)"""
    t = text.strip()
    try:
        return float(int(t, 16)) if t.lower().lstrip("+-").startswith("0x") else float(t)
    except ValueError:
        return None


def held_keys(case):
    """keys / elements the container holds after the transition, read off the expected observation"""
    return [a["op"]["a"][0]["v"] for a in case["obs"] if a["op"]["op"] in ("get", "contains")
            and (a["res"].get("tag") == "Just" or a["res"].get("v") is True)]


def round3_guards(cases):
    """vacuity: the two round-3 axes are really in the universe"""
    num = [c for c in cases if c["ty"] in NUMSTR and c["kind"] in ("dict", "set")]
    if len(num) < 5000 or len({c["kind"] + c["op"]["op"] + c["arg"] for c in num}) < 14:
        vlib.tool_error("vacuity: only %d transitions with numeric-looking string keys" % len(num))
    twin_lookup = twin_write = both_held = 0
    for c in num:
        held = held_keys(c)
        nums = [number_of(k) for k in held]
        if len(held) >= 2 and len(set(nums)) < len(nums):
            both_held += 1         # two textually different keys that denote the same number are in the container together
        if c["arg"] == "absent" and c["op"]["a"]:
            k = c["op"]["a"][0]["v"]
            twins = [h for h in held if h != k and number_of(h) is not None and number_of(h) == number_of(k)]
            if twins and c["op"]["op"] in ("get", "contains", "contains_key"):
                twin_lookup += 1   # an absent key is looked up while a numerically equal key is present
            if twins and c["op"]["op"] == "remove":
                twin_write += 1    # an absent key is removed while a numerically equal key is present
    if twin_lookup < 200 or twin_write < 100 or both_held < 200:
        vlib.tool_error("vacuity: numerically equal string keys meet in only %d lookups, %d removes, %d states" % (twin_lookup, twin_write, both_held))
    n = {"twin_lookup": twin_lookup, "twin_remove": twin_write, "twins_held_together": both_held, "transitions": len(num)}
    for t in FALSY_LIST:
        for op in ("get", "last", "pop", "find"):
            hit = [c for c in cases if c["kind"] == "list" and c["ty"] == t and c["op"]["op"] == op
                   and c["res"].get("tag") == "Just" and is_zero(c["res"]["val"])]
            if not hit:
                vlib.tool_error("vacuity: list.%s never returns Just <zero value> for element type %s" % (op, t))
            n["list.%s -> Just zero" % op] = n.get("list.%s -> Just zero" % op, 0) + len(hit)
        if not [c for c in cases if c["kind"] == "list" and c["ty"] == t and c["op"]["op"] == "contains" and is_zero(c["op"]["a"][0]) and c["res"]["v"]]:
            vlib.tool_error("vacuity: list.contains never finds the zero value of element type %s" % t)
    for t in FALSY_DICT:
        got = [c for c in cases if c["kind"] == "dict" and c["ty"] == t and c["op"]["op"] == "get"
               and c["res"].get("tag") == "Just" and is_zero(c["res"]["val"])]
        has = [c for c in cases if c["kind"] == "dict" and c["ty"] == t and c["op"]["op"] == "contains_key" and c["res"]["v"]
               and any(a["op"]["op"] == "get" and a["op"]["a"][0] == c["op"]["a"][0] and a["res"].get("tag") == "Just" and is_zero(a["res"]["val"]) for a in c["obs"])]
        if not got or not has:
            vlib.tool_error("vacuity: dict.get / contains_key never meet a present key whose value is the zero value (%s)" % t)
        n["dict.get -> Just zero"] = n.get("dict.get -> Just zero", 0) + len(got)
        n["dict.contains_key of a key mapped to zero"] = n.get("dict.contains_key of a key mapped to zero", 0) + len(has)
    return n


def replay_cases(wd, cases, name, batch=40, env=None):
    # in chunks: the replayer holds a whole case file in memory (about 100 KB per transition of SyltShare), and the machine is shared
    results, summary = [], {"summary": True, "batches": 0, "programs": 0, "rejected_batches": 0}
    chunk = 10000
    for n, lo in enumerate(range(0, max(len(cases), 1), chunk)):
        part = cases[lo:lo + chunk]
        cf = os.path.join(wd, "%s-cases%s.ndjson" % (name, "-%d" % n if n else ""))
        rf = os.path.join(wd, "%s-results%s.ndjson" % (name, "-%d" % n if n else ""))
        vlib.write_ndjson(cf, part)
        vlib.harness("c18", ["replay", cf, rf, batch], env=env)
        res = vlib.read_ndjson(rf)
        summ = res.pop()
        if not summ.get("summary") or len(res) != len(part):
            vlib.tool_error("c18 returned %d results for %d transitions" % (len(res), len(part)))
        results.extend(res)
        for k in ("batches", "programs", "rejected_batches"):
            summary[k] += summ[k]
    return results, summary


def judge_all(cases, results, verdicts, stats):
    """first pass: which histories end in a wrong implementation state; second pass: verdicts"""
    cls = [classify(c, r) for c, r in zip(cases, results)]
    tainted = set()
    for c, (_, wrong) in zip(cases, cls):
        if wrong:
            tainted.add(hist_keys(c)[1])
    for c, r, (sigs, _) in zip(cases, results, cls):
        v = r["verdict"]
        if v == "tool":
            vlib.tool_error("minilua does not support something the program used: %s" % str(r)[:300])
        stats[v] = stats.get(v, 0) + 1
        if v in ("rejected", "panic"):
            stats.setdefault("rejected_examples", [])
            if len(stats["rejected_examples"]) < 5:
                stats["rejected_examples"].append({"case": short(c), "error": r.get("error"), "source": r.get("source")})
            continue
        pre, _ = hist_keys(c)
        if any(p in tainted for p in pre):
            stats["pre_state_already_wrong"] = stats.get("pre_state_already_wrong", 0) + 1
            continue
        stats["judged"] = stats.get("judged", 0) + 1
        for sig, text in sigs:
            stats.setdefault("signatures", {})
            stats["signatures"][sig] = stats["signatures"].get(sig, 0) + 1
            verdicts.add(sig, text, {"case": c, "differing_lines": [l for l in r.get("lines", []) if differs(l)][:8],
                                     "status": r.get("status"), "source": r.get("source")})


def negative_control(wd, cases, results, verdicts):
    """corrupt expectations of transitions the implementation got right: each corruption must be noticed"""
    neg, want = [], []
    for c, r in zip(cases, results):
        if r["verdict"] != "ok":
            continue
        d = json.loads(json.dumps(c))
        if c["res"].get("k") == "int" and len([x for x in want if x == "result"]) < 60:
            d["res"]["v"] += 1                       # a wrong expected result
            neg.append(d)
            want.append("result")
        elif c["kind"] == "list" and c["ty"] != "spair" and len([x for x in want if x == "state"]) < 60:
            # (not (str, str): ("a, b", "c") and ("a", "b, c") print alike; they are told apart by the == line only)
            gets = [i for i, a in enumerate(c["obs"]) if a["op"]["op"] == "get" and a["res"]["tag"] == "Just"]
            if len(gets) >= 2 and c["obs"][gets[0]]["res"] != c["obs"][gets[1]]["res"]:
                d["obs"][gets[0]]["res"], d["obs"][gets[1]]["res"] = c["obs"][gets[1]]["res"], c["obs"][gets[0]]["res"]
                neg.append(d)                        # two list elements swapped in the expected state
                want.append("state")
    # round 3: (a) a present key's answer is copied to a numerically equal, textually different key (what a runtime that keys
    # by the NUMBER would print); (b) a `Just <zero value>` result becomes None (what a runtime that tests truthiness would print)
    n_twin = n_zero = can_twin = can_zero = 0
    for c, r in zip(cases, results):
        good = r["verdict"] == "ok"
        if c["ty"] in NUMSTR and c["kind"] in ("dict", "set") and (n_twin < 40 or can_twin < 40):
            asks = [i for i, a in enumerate(c["obs"]) if a["op"]["op"] in ("get", "contains")]
            yes = [i for i in asks if c["obs"][i]["res"].get("tag") == "Just" or c["obs"][i]["res"].get("v") is True]
            twins = [i for i in asks if yes and i not in yes and number_of(c["obs"][i]["op"]["a"][0]["v"]) is not None
                     and number_of(c["obs"][i]["op"]["a"][0]["v"]) == number_of(c["obs"][yes[0]]["op"]["a"][0]["v"])]
            if twins:
                can_twin += 1
            if twins and good and n_twin < 40:
                d = json.loads(json.dumps(c))
                d["obs"][twins[0]]["res"] = c["obs"][yes[0]]["res"]
                neg.append(d)
                want.append("state")
                n_twin += 1
        elif c["kind"] in ("list", "dict") and c["ty"] in FALSY_LIST + FALSY_DICT and (n_zero < 40 or can_zero < 40) \
                and c["res"].get("tag") == "Just" and is_zero(c["res"]["val"]) and c["ty"] not in ("mayb", "vmayb"):
            can_zero += 1
            if good and n_zero < 40:
                d = json.loads(json.dumps(c))
                d["res"] = {"k": "variant", "tag": "None", "val": {"k": "nil"}}
                neg.append(d)
                want.append("result")
                n_zero += 1
    if can_twin < 20 or can_zero < 20:
        vlib.tool_error("negative control: the universe has only %d twin-key and %d zero-value transitions to corrupt" % (can_twin, can_zero))
    # a control corrupts the expectation of a transition the implementation got RIGHT. If the implementation disagrees with the model
    # on these very transitions there are too few of them - then the disagreement must have been reported, and it is not a tool error
    reported = {sig.split("|")[3] for sig, _, _ in verdicts.violations}
    if (n_twin < 20 and not reported & set(NUMSTR)) or (n_zero < 20 and not reported & set(FALSY_LIST + FALSY_DICT)):
        vlib.tool_error("negative control: only %d twin-key and %d zero-value transitions agree with the model, yet nothing was reported for them" % (n_twin, n_zero))
    if len(neg) < 40 or "state" not in want or "result" not in want:
        vlib.tool_error("negative control: only %d corruptible transitions" % len(neg))
    res, _ = replay_cases(wd, neg, "neg")
    accepted = 0
    for d, r, w in zip(neg, res, want):
        sigs, _ = classify(d, r)
        if not any(("|%s|" % w) in s for s, _ in sigs):
            accepted += 1
    if accepted:
        vlib.tool_error("negative control: %d of %d corrupted expectations were accepted" % (accepted, len(neg)))
    return len(neg)


def share_guards(cases):
    """vacuity: the situations in which sharing could show are really in the universe"""
    is_mut = lambda c: c["op"]["op"] != "lit" and c["op"]["from"] == 0
    keeps_all = {hist_keys(c)[1] for c in cases if c["op"]["op"] == "filter" and c["arg"].startswith("keeps-all")}
    n = {"mutation with >= 2 registers": 0, "mutation after a filter that kept everything": 0,
         "update of a present key with two dicts from one list": 0, "update of a present key after entries were captured": 0,
         "mutation of a list a dict/set was made from": 0, "mutation with a register made by copy/map": 0}
    for c in cases:
        if not is_mut(c) or len(c["regs"]) < 2:
            continue
        hows = [g["how"] for g in c["regs"]]
        n["mutation with >= 2 registers"] += 1
        if any(k in keeps_all for k in hist_keys(c)[0]):
            n["mutation after a filter that kept everything"] += 1
        if c["op"]["op"] == "update" and c["arg"].startswith("present"):
            if hows.count("dict.from_list") == 2:
                n["update of a present key with two dicts from one list"] += 1
            if "entries" in hows:
                n["update of a present key after entries were captured"] += 1
        if c["regs"][c["op"]["on"] - 1]["how"] == "lit" and ("dict.from_list" in hows or "set.from_list" in hows):
            n["mutation of a list a dict/set was made from"] += 1
        if "copy" in hows or "map" in hows:
            n["mutation with a register made by copy/map"] += 1
    for k, v in n.items():
        if v < 10:
            vlib.tool_error("vacuity (SyltShare): only %d transitions are a %s" % (v, k))
    return n


def negative_control_share(wd, cases):
    """stub the implementation: `copy` (for_each + push into a new list) is rendered as a plain alias r2 = r1.
    Every push / prepend on either list right after such a derivation must then be reported as an independence violation."""
    neg = [c for c in cases if len(c["hist"]) == 2 and c["hist"][1]["op"] == "copy" and c["op"]["op"] in ("push", "prepend")]
    if len(neg) < 20:
        vlib.tool_error("negative control (SyltShare): only %d stubbable transitions" % len(neg))
    res, _ = replay_cases(wd, neg, "neg-share", env={"C18_STUB": "alias"})
    accepted = 0
    for c, r in zip(neg, res):
        sigs, _ = classify(c, r)
        if not any("|independence|" in s_ for s_, _ in sigs):
            accepted += 1
    if accepted:
        vlib.tool_error("negative control (SyltShare): %d of %d aliasing stubs were accepted" % (accepted, len(neg)))
    return len(neg)


def run(ctx):
    tier = ctx.tier
    wd = vlib.workdir(PID)
    ev = vlib.Evidence(PID, tier, "model_checking")
    verdicts = vlib.Verdicts(PID)
    vlib.build_harness(["c18"])
    stats = {}

    if ctx.replay:
        rp = json.load(open(ctx.replay))["replay"]
        cases = [rp["case"]]
        results, _ = replay_cases(wd, cases, "replay", batch=1)
        p = vlib.harness("c18", ["print", os.path.join(wd, "replay-cases.ndjson"), 0])
        print(p.stdout)
        for l in results[0].get("lines", []):
            print("%-12s %-40s want %-16r got %r" % (l["cls"], l["what"][:40], l["want"], l["got"]))
        judge_all(cases, results, verdicts, stats)
        ev.set(samples=[short(cases[0])], states=0, transitions=1, traces_validated_against_impl=1)
        ev.write()
        return verdicts.finish()

    # 1. every transition of the bounded models (4 instantiations x list/dict/set, and the helper universe), and
    #    every transition of the several-register model SyltShare (value semantics across containers); the two TLC runs overlap
    #    (SyltShare bounds: steps after the literal for shape list / shapes dict and set; thorough writes literals over 3 values instead of 2)
    share_env = {"SHARE_STEPS": 3, "SHARE_STEPS_DS": 4, "SHARE_REGS": 3, "SHARE_MUT": 2, "SHARE_VALS": 3 if tier == "thorough" else 2, "SHARE_LEN": 3}
    with concurrent.futures.ThreadPoolExecutor(2) as pool:
        f1 = pool.submit(vlib.tlc, "MC_Std", wd=wd, env={"MAXLEN": 3, "BIG": 0, "NSTR_SET": 2 if tier == "thorough" else 1}, timeout=900, workers=4)
        f2 = pool.submit(vlib.tlc, "MC_Share", wd=wd, env=share_env, timeout=1500, workers=4)
        r, rsh = f1.result(), f2.result()
    vlib.require_tlc_ok(r, "SyltStd container and helper models")
    vlib.require_tlc_ok(rsh, "SyltShare value semantics across containers")
    for act in ACTIONS:
        if r.coverage.get(act, (0, 0))[1] == 0:
            vlib.tool_error("vacuity: spec action %s never taken" % act)
    for act in SHARE_ACTIONS:
        if rsh.coverage.get(act, (0, 0))[1] == 0:
            vlib.tool_error("vacuity: spec action %s never taken" % act)
    # (`generated` counts the initial states too: one per (kind, instantiation) = 11 list + 18 dict + 14 set + 1 helper)
    if r.coverage.get("TransitionSane", (0, 0))[1] < r.generated - 44 - 5:
        vlib.tool_error("vacuity: TransitionSane was evaluated on %s of %d transitions" % (r.coverage.get("TransitionSane"), r.generated))
    if rsh.coverage.get("ShareSane", (0, 0))[1] < rsh.generated - 20:
        vlib.tool_error("vacuity: ShareSane was evaluated on %s of %d transitions" % (rsh.coverage.get("ShareSane"), rsh.generated))
    cases = collect(r)
    if len(cases) < 5000:
        vlib.tool_error("vacuity: only %d transitions" % len(cases))
    divs = [c for c in cases if c["op"]["op"] == "div"]
    if len([c for c in divs if c["arg"] == "inexact-signs-differ"]) < 18 or len(divs) != 90:
        vlib.tool_error("vacuity: div universe has %d cases" % len(divs))
    if len([c for c in cases if c["op"]["op"] == "floor" and c["arg"] == "negative-fraction"]) < 2:
        vlib.tool_error("vacuity: floor is not exercised on negative fractions")
    awkward = [c for c in cases if c["ty"] == "wstr"]
    if len(awkward) < 3000 or len({c["op"]["op"] + c["arg"] for c in awkward}) < 14:
        vlib.tool_error("vacuity: only %d transitions with awkward string keys" % len(awkward))
    reentrant = [c for c in cases if c["arg"] == "reentrant"]
    if len(reentrant) < 400 or len([c for c in reentrant if c["op"]["op"] == "find" and c["res"]["tag"] == "Just"]) < 40:
        vlib.tool_error("vacuity: only %d transitions with re-entrant callbacks" % len(reentrant))
    r3 = round3_guards(cases)
    share = collect(rsh)
    if len([c for c in share if c["op"]["op"] in ("dict.map", "set.map", "entries", "elems") and c["op"]["a"][0]["name"] in ("reget", "reself", "first", "re")]) < 200:
        vlib.tool_error("vacuity: re-entrant dict / set callbacks missing from SyltShare")
    if len(share) < 10000:
        vlib.tool_error("vacuity: only %d SyltShare transitions" % len(share))
    guards = share_guards(share)
    ev.set(states=r.distinct + rsh.distinct, transitions=r.generated + rsh.generated, tlc_wall_s=round(max(r.wall_s, rsh.wall_s), 1),
           spec_invariants=["TypeOK", "TransitionSane (action constraint, every transition)",
                            "ShareTypeOK", "ShareSane (action constraint, every transition: a step changes only the register it names)"],
           actions=dict({a: r.coverage[a][1] for a in ACTIONS}, **{a: rsh.coverage[a][1] for a in SHARE_ACTIONS}))
    results, summary = replay_cases(wd, cases, "graph")
    judge_all(cases, results, verdicts, stats)
    n_neg = negative_control(wd, cases, results, verdicts)
    universes = {"graph": {"transitions": len(cases), "programs": summary["programs"], "batches": summary["batches"],
                           "rejected_batches": summary["rejected_batches"], "round3_axes": r3}}
    shres, shsum = replay_cases(wd, share, "share")
    judge_all(share, shres, verdicts, stats)
    n_neg += negative_control_share(wd, share)
    universes["share"] = {"transitions": len(share), "programs": shsum["programs"], "batches": shsum["batches"],
                          "rejected_batches": shsum["rejected_batches"], "bounds": share_env, "situations": guards}
    cases = cases + share

    # 2. thorough: random behaviours above the exhaustive bound
    if tier == "thorough":
        rs = vlib.tlc("MC_Std", wd=wd, env={"MAXLEN": 5, "BIG": 1, "KINDS": "containers"}, simulate=1500, depth=12,
                      timeout=900, out_file=os.path.join(wd, "tlc-sim.out"))
        vlib.require_tlc_ok(rs, "SyltStd simulation")
        sim = collect(rs)
        if len(sim) < 3000 or max(len(c["hist"]) for c in sim) < 10:
            vlib.tool_error("vacuity: simulation produced %d transitions" % len(sim))
        sres, ssum = replay_cases(wd, sim, "sim", batch=20)
        judge_all(sim, sres, verdicts, stats)
        universes["simulation"] = {"transitions": len(sim), "programs": ssum["programs"], "batches": ssum["batches"],
                                   "rejected_batches": ssum["rejected_batches"], "longest_history": max(len(c["hist"]) for c in sim)}
        cases = cases + sim

    total_batches = sum(u["batches"] for u in universes.values())
    rejected_batches = sum(u["rejected_batches"] for u in universes.values())
    rejected = stats.get("rejected", 0) + stats.get("panic", 0)
    if rejected_batches > 0.05 * total_batches or rejected > 0.05 * len(cases):
        vlib.tool_error("vacuity: the compiler rejects %d of %d batches (%d transitions): %s" % (
            rejected_batches, total_batches, rejected, json.dumps(stats.get("rejected_examples", [])[:1])[:1500]))
    if stats.get("judged", 0) < 0.8 * len(cases) or stats.get("ok", 0) < 1000:
        vlib.tool_error("vacuity: only %d of %d transitions judged, %d agree" % (stats.get("judged", 0), len(cases), stats.get("ok", 0)))
    per_op = {}
    for c in cases:
        k = "%s.%s" % (container(c), c["op"]["op"])
        per_op[k] = per_op.get(k, 0) + 1

    # distinct transitions of the models: the same (pre-state, operation) reached through different histories counts once
    distinct = len({(c["kind"], c["ty"], c.get("pre"), key(c["op"])) for c in cases})
    graph_n = universes["graph"]["transitions"]
    pick = [cases[i] for i in (graph_n // 7, graph_n // 2, graph_n + len(share) // 3, graph_n + len(share) - 40)]
    pick += [c for c in cases[:graph_n] if c["op"]["op"] == "div" and c["arg"] == "inexact-signs-differ"][:1]
    pick += [c for c in share if c["op"]["op"] == "update" and c["arg"].startswith("present") and len(c["regs"]) == 3][:1]
    ev.set(traces_validated_against_impl=stats.get("judged", 0), evaluations=len(cases), distinct_nontrivial=distinct,
           universes=universes, verdict_counts={k: v for k, v in stats.items() if isinstance(v, int)},
           transitions_per_operation=per_op, violation_signatures=stats.get("signatures", {}),
           rejected_by_compiler=rejected, rejected_examples=stats.get("rejected_examples", []),
           negative_controls_rejected=n_neg, exhaustive=True, known_findings_hit=verdicts.known_hits,
           rule="every transition of the list/dict/set models (length/keys <= 3; element types int, str, (int, int), (str, str)) "
                "and every helper application over ints -3..3 and half-steps in [-2, 2] (div: a in -7..7, b in -3..3 without 0, floor semantics); "
                "dicts / sets also over 12 awkward string keys (<= 1 key per dict, <= 2 per set), over 24 numeric-looking string keys (<= 1 key; six of them "
                "with <= 2 keys per dict, <= 3 per set) and float / 0,-1 / empty-string keys; lists also of bool, float, ''/'0', unit, [int], Maybe(int), 0/-1 and "
                "dicts with such values (<= 2 values per type); int lists also with re-entrant callbacks; "
                "every transition of the several-register model SyltShare (r1 a list literal of length <= 2 over 2 (thorough 3) values of int / (int, int), "
                "<= 3 registers, <= 2 mutations, <= 3 steps after the literal for lists and <= 4 for dicts and sets; all registers observed after "
                "every step); every transition applies one library operation to a "
                "container rebuilt by its history and observes result and whole state, so all are non-trivial; distinct = distinct "
                "(instantiation, model pre-state, operation with arguments), histories ignored",
           samples=[short(c) for c in pick])
    ev.assume("minilua stands in for Lua 5.3 (no Lua interpreter exists in the sandbox); float results are compared as Lua 5.3 prints them",
              "div and floor are read with floor semantics (div(a, b) = floor(a / b)) on negative operands too; div(a, 0) is not specified and not exercised",
              "value semantics across containers is explored for element/key types int and (int, int) only; lists of lists (whose elements are legitimately shared references) are not in the universe",
              "dict / set iteration order is never observed (containers are observed through len, get, contains and ==)",
              "a transition whose history already left the implementation in a wrong state is not judged (the earlier operation is reported)")
    rc = verdicts.finish()
    ev.violations = len(verdicts.violations)
    ev.write()
    return rc
