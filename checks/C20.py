"""C20 - driver contract: exit status, all-or-nothing output, flags.

1. TLC model-checks SyltDriver (MC_Driver): every configuration (sink x --require x --no-std x program class x
   uses-std; 448) is walked to its end with the contract (exit = 0 <=> success, every error printed, FILE / stdout /
   the child's chunk complete or untouched, run output only in run mode) evaluated in every state, and one REPLAY
   record per behaviour is printed. Three defective variants of the machine (partial write, silent exit, exit 0
   despite errors) must each violate the matching invariant (spec-level negative controls).
2. The recorder (c20) materialises every configuration in its own scratch directory, runs the built `sylt` binary with
   a `lua` shim (minilua) first on PATH and records raw facts; the reference is the library API on the same files.
   TLC (Trace_Driver) re-derives each configuration from its index, replays SyltDriver for it, derives the observation
   classes from the raw facts and prints one REJECT line per non-conforming record (per-record clauses and the
   relational ones: same bytes on every sink, one require in front of the unchanged program, --no-std neutral).
3. Negative controls on the recorded trace: a flipped exit code, a truncated file digest, a dropped error block,
   a second require and a changed stdout digest must each be rejected, and nothing else.
quick = the whole configuration space once; thorough = x 3 programs per class x 4 command-line spellings.
"""
import copy
import json
import os
import subprocess
import vlib

PID = "C20"
SPEC_ACTIONS = ("ParseArgs", "CompileOk", "CompileErrN", "RunOk", "RunFail", "WriteStdout", "WriteStdoutFail",
                "WriteFileOk", "WriteFileFail", "PrintErrors", "Exit")
BAD_ACTIONS = ("BadPartialWrite", "BadSilentExit", "BadExitZero")
MINILUA = os.path.join(vlib.ROOT, "minilua")
# The property requires a non-zero exit, every error printed and nothing half-written. A Rust panic message that names
# the failure satisfies these words; C20_STRICT_PANIC=1 makes a panic as the only diagnostic a violation (panic-message).
PANIC_OK = "0" if os.environ.get("C20_STRICT_PANIC") == "1" else "1"


def build_lua():
    env = dict(os.environ, CARGO_NET_OFFLINE="true")
    p = subprocess.run(["cargo", "build", "--offline", "--release", "-q"], cwd=MINILUA, env=env,
                       stdout=subprocess.PIPE, stderr=subprocess.STDOUT, text=True)
    lua = os.path.join(MINILUA, "target", "release", "lua")
    if p.returncode != 0 or not os.path.isfile(lua):
        vlib.tool_error("building minilua's `lua` binary failed:\n" + p.stdout[-3000:])
    return lua


def flags_of(cfg):
    f = {"run": "run", "stdout": "-o -", "file": "-o FILE"}[cfg["mode"]]
    if cfg["req"]:
        f += "+--require"
    if cfg["nostd"]:
        f += "+--no-std"
    return f


def prog_of(cfg):
    if cfg["pk"] == "acc":
        return "acc"
    if cfg["pk"] == "rej":
        return "rej%d" % cfg["pn"]
    return "rt_" + cfg["why"]


def path_of(cfg):
    if cfg["mode"] == "stdout":
        return "stdout-unwritable" if cfg["path"] == "unwritable" else "stdout"
    return cfg["path"]


def signature(cfg, what):
    """From the configuration only: C20|<flags>|<prog class>|<path class>|<what>."""
    return "C20|%s|%s|%s|%s" % (flags_of(cfg), prog_of(cfg), path_of(cfg), what)


def sample_of(rec):
    return {"argv": ["sylt"] + rec["argv"], "program": prog_of(rec["cfg"]) + ("/std" if rec["cfg"]["std"] else "/std-free"),
            "path": path_of(rec["cfg"]), "exit": rec["exit"], "stdout_bytes": rec["so"]["len"], "stderr_bytes": rec["se"]["len"],
            "error_blocks": len(rec["blocks"]), "file_before": rec["before"]["k"], "file_after": rec["after"]["k"],
            "emitted_bytes": rec["emit"]["len"] if rec["emit"]["present"] else 0, "requires_run": rec["emit"]["run"]["requires"]}


def spec_model(wd, ev):
    r = vlib.tlc("MC_Driver", wd=wd, timeout=900)
    vlib.require_tlc_ok(r, "SyltDriver generator model")
    for act in SPEC_ACTIONS:
        if r.coverage.get(act, (0, 0))[1] == 0:
            vlib.tool_error("vacuity: spec action %s never taken" % act)
    for act in BAD_ACTIONS:
        if r.coverage.get(act, (0, 0))[1] != 0:
            vlib.tool_error("defective action %s fired in the non-faulty model" % act)
    base = {}
    for _, p in r.records:          # one line per behaviour; several behaviours per configuration differ in the error count
        base.setdefault(p["base"], p)
    n = r.coverage.get("Init", (0, 0))[0]
    if not base or sorted(base) != list(range(len(base))) or len(base) != n:
        vlib.tool_error("REPLAY records do not cover the configuration space (%d records, %d initial states)" % (len(base), n))
    ev.add("states", r.distinct)
    ev.add("transitions", r.generated)
    ev.set(spec_model={"configurations": len(base), "behaviours": len(r.records), "states": r.distinct,
                       "actions": {k: v[1] for k, v in r.coverage.items()},
                       "invariants": ["TypeOK", "ExitIffSuccess", "ErrorsPrinted", "AllOrNothing", "SinksWhole", "RunOutput",
                                      "Progress", "Bounded"],
                       "assumes": ["UniverseWellFormed", "SinkIndependence", "NoStdNeutralForStdFree", "NoStdRejectsStdUsers"]})
    # spec-level negative controls: a defective machine must break the matching clause of the contract
    broken = {}
    for cfg, inv in (("MC_Driver_faulty.cfg", "AllOrNothing"), ("MC_Driver_faulty2.cfg", "ErrorsPrinted"),
                     ("MC_Driver_faulty3.cfg", "ExitIffSuccess")):
        f = vlib.tlc("MC_Driver", cfg=cfg, wd=wd, timeout=900, workers=2, out_file=os.path.join(wd, "tlc-" + cfg + ".out"))
        if f.timed_out or f.invariant_violated != inv:
            vlib.tool_error("negative control accepted: the defective driver model does not violate %s (%s; log %s)" % (
                inv, f.invariant_violated, f.log))
        broken[inv] = True
    ev.set(spec_negative_controls=sorted(broken))
    return [base[b] for b in sorted(base)]


def make_cases(base, nv, ns):
    cases = []
    for sp in range(ns):
        for v in range(nv):
            for b, rp in enumerate(base):
                cases.append({"idx": len(cases) + 1, "base": b, "v": v, "spell": sp, "cfg": rp["cfg"]})
    return cases


def validate(wd, name, trace, nv, ns, workers=None):
    r = vlib.tlc("MC_TraceDriver", cfg="MC_TraceDriver.cfg", wd=wd, env={"TRACE": trace, "V": nv, "S": ns, "PANIC_OK": PANIC_OK},
                 tags=("REJECT",), workers=workers or min(8, vlib.NCPU), timeout=1500,
                 out_file=os.path.join(wd, "tlc-" + name + ".out"))
    vlib.require_tlc_ok(r, "Trace_Driver/" + name)
    rejects = {p["rec"]: p for (_, p) in r.records}   # ENABLED re-evaluates PrintT: dedupe
    return r, rejects


def describe(rec, rej, what):
    e, o = rej["expect"], rej["observed"]
    cmd = "sylt " + " ".join(rec["argv"])
    world = "%s program%s, %s" % (prog_of(rec["cfg"]), " using std" if rec["cfg"]["std"] else "", path_of(rec["cfg"]))
    detail = {
        "exit": "exit code %d but the specification says %s" % (rec["exit"], e["exit"]),
        "partial-file": "FILE is %s afterwards (expected %s)" % (o["fs"], e["fs"]),
        "file-state": "FILE / directory state is %s afterwards (expected %s)" % (o["fs"], e["fs"]),
        "partial-stdout": "stdout carries part of a program (expected %s)" % e["soprog"],
        "stdout": "stdout program class %s (expected %s)" % (o["soprog"], e["soprog"]),
        "chunk": "the child lua received a %s chunk (expected %s)" % (o["chunk"], e["chunk"]),
        "run-output": "stdout does not carry the run's output (%s expected)" % e["sorun"],
        "errors-missing": "%d error blocks rendered, %d errors to print (%s)" % (o["blocks"], len(e["printed"]), ",".join(e["printed"])),
        "errors-extra": "%d error blocks rendered, %d errors to print" % (o["blocks"], len(e["printed"])),
        "errors-spurious": "%d error blocks rendered although the command succeeds" % o["blocks"],
        "errors-location": "rendered error blocks name other file:line than the library's error list",
        "bytes-differ": "emitted bytes differ from those `-o FILE` writes for the same program and flags",
        "require": "require of M: %d textual, at offset %s after the preamble, executed %s" % (
            rec["emit"]["n_req"], rec["emit"]["req_at"], rec["emit"]["run"]["requires"]),
        "no-std": "observation differs from the same configuration with --no-std toggled (program does not use std)",
        "panic-message": "the only diagnostic is a panic message",
        "hang": "the command did not finish within the timeout",
    }.get(what, what)
    return "`%s` (%s): %s" % (cmd, world, detail)
