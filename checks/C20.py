"""C20 - driver contract: exit status, all-or-nothing output, flags.

1. TLC model-checks SyltDriver (MC_Driver): every configuration (sink - output path and the kind of object stdout / stderr
   are - x --require spelling x --no-std x program class x uses-std; 9044) is walked to its end with the contract
   (exit = 0 <=> success, every error printed, FILE / stdout / the child's chunk complete or untouched, run output only in
   run mode, stdout / stderr append-only streams) evaluated in every state, and one REPLAY record per behaviour is
   printed. Four defective variants of the machine (partial write, silent exit, exit 0 despite errors, `-o -` through a
   second truncating opening of stdout) must each violate the matching invariant (spec-level negative controls).
2. The recorder (c20) materialises every configuration in its own scratch directory, runs the built `sylt` binary with
   a `lua` shim (minilua) first on PATH and records raw facts; the reference is the library API on the same files.
   TLC (Trace_Driver) re-derives each configuration from its index, replays SyltDriver for it, derives the observation
   classes from the raw facts and prints one REJECT line per non-conforming record (per-record clauses and the
   relational ones: same bytes on every sink, one require in front of the unchanged program, --no-std neutral).
3. Negative controls (binding demonstration): the whole universe is recorded a second time with, for a few
   configurations per kind, the world left behind by the command changed the way a defective driver would have left it
   (exit status flipped, errors not / partly / twice printed, FILE half-written / truncated / one byte short, an extra
   byte on `-o -`, the require twice / missing / late / of another module, --no-std changing the program, the program
   never run, earlier content of stdout / stderr lost and the later write on top of the output, only the entry file's
   errors of a multi-file project printed). TLC must reject every such record with the verdict of its clause and must reject nothing else.
quick = the whole configuration space once (variant 0, canonical spelling); thorough = x 3 programs per class x 2 spellings.
"""
import json
import os
import random
import subprocess
import vlib

PID = "C20"
SPEC_ACTIONS = ("ParseArgs", "CompileOk", "CompileErrN", "RunOk", "RunFail", "WriteStdout", "WriteStdoutFail", "WriteStdoutLost", "OutputFailEarly",
                "WriteFileOk", "WriteFileFail", "PrintErrors", "Exit", "Later")
BAD_ACTIONS = ("BadPartialWrite", "BadSilentExit", "BadExitZero", "BadReopenStdout")
MINILUA = os.path.join(vlib.ROOT, "minilua")
# The property requires a non-zero exit, every error printed and nothing half-written. A Rust panic message that names
# the failure satisfies these words; C20_STRICT_PANIC=1 makes a panic as the only diagnostic a violation (panic-message).
PANIC_OK = "0" if os.environ.get("C20_STRICT_PANIC") == "1" else "1"
# `sylt x.sy -o - > /dev/full`: the property fixes the exit status by "compilation succeeded" and speaks of FILE only, so
# the status of that one case is left open; C20_STRICT_STDOUT=1 requires a non-zero status there as for an unwritable FILE.
STRICT_STDOUT = "1" if os.environ.get("C20_STRICT_STDOUT") == "1" else "0"
TIERS = {"quick": (1, 1), "thorough": (3, 2)}       # (program variants per class, command-line spellings)


def build_lua():
    env = dict(os.environ, CARGO_NET_OFFLINE="true")
    p = subprocess.run(["cargo", "build", "--offline", "--release", "-q"], cwd=MINILUA, env=env,
                       stdout=subprocess.PIPE, stderr=subprocess.STDOUT, text=True)
    lua = os.path.join(MINILUA, "target", "release", "lua")
    if p.returncode != 0 or not os.path.isfile(lua):
        vlib.tool_error("building minilua's `lua` binary failed:\n" + p.stdout[-3000:])
    return lua


def flags_of(cfg):
    f = {"run": "run", "stdout": "-o -", "file": "-o FILE"}[cfg["mode"]]
    if cfg["req"]:
        f += "+--require=" + cfg["marg"]
    if cfg["nostd"]:
        f += "+--no-std"
    return f


def prog_of(cfg):
    if cfg["pk"] == "acc":
        return "acc" if cfg["why"] == "none" else "acc_" + cfg["why"]
    if cfg["pk"] == "rej":
        return "rej%d" % cfg["pn"] if cfg["why"] == "none" else "rej_" + cfg["why"]
    return "rt_" + cfg["why"]


def path_of(cfg):
    io = "" if cfg["io"] == "fresh" else "+stdio=" + cfg["io"]
    if cfg["mode"] == "stdout":
        return ("stdout-unwritable" if cfg["path"] == "unwritable" else "stdout") + io
    return cfg["path"] + io


def expected_module(cfg):
    """Only for vacuity counters and messages - the expectation itself is SyltDriver!ExpectedModule."""
    m = cfg["marg"]
    return m[:-4] if m.endswith(".lua") and len(m) > 4 else m


def signature(cfg, what):
    """From the configuration only: C20|<flags>|<prog class>|<path class>|<what>."""
    return "C20|%s|%s|%s|%s" % (flags_of(cfg), prog_of(cfg), path_of(cfg), what)


def sample_of(rec):
    return {"argv": ["sylt"] + rec["argv"], "program": prog_of(rec["cfg"]) + ("/std" if rec["cfg"]["std"] else "/std-free"),
            "path": path_of(rec["cfg"]), "exit": rec["exit"], "stdout_bytes": rec["so"]["len"], "stderr_bytes": rec["se"]["len"],
            "error_blocks": rec["blocks"]["n"], "file_before": rec["before"]["k"], "file_after": rec["after"]["k"],
            "emitted_bytes": rec["emit"]["len"] if rec["emit"]["present"] else 0, "requires_run": rec["emit"]["run"]["requires"]}


def final_coverage(r, out_file):
    """TLC prints a coverage report every minute and one at the end; r.coverage adds them up. On a loaded machine a run
    takes longer than a minute: count the last report only (action -> (distinct, total))."""
    import re
    last = {}
    try:
        for line in open(out_file, encoding="utf-8", errors="replace"):
            m = re.match(r"<(\w+) line \d+, col \d+ to line \d+, col \d+ of module \w+>: (\d+):(\d+)", line)
            if m:
                last[m.group(1)] = (int(m.group(2)), int(m.group(3)))
    except OSError:
        return r.coverage
    return last or r.coverage


def spec_model(wd, ev):
    r = vlib.tlc("MC_Driver", wd=wd, timeout=900, workers=4, out_file=os.path.join(wd, "tlc-MC_Driver.out"))
    vlib.require_tlc_ok(r, "SyltDriver generator model")
    r.coverage = final_coverage(r, os.path.join(wd, "tlc-MC_Driver.out"))
    for act in SPEC_ACTIONS:
        if r.coverage.get(act, (0, 0))[1] == 0:
            vlib.tool_error("vacuity: spec action %s never taken" % act)
    for act in BAD_ACTIONS:
        if r.coverage.get(act, (0, 0))[1] != 0:
            vlib.tool_error("defective action %s fired in the non-faulty model" % act)
    base = {}
    for _, p in r.records:          # one line per behaviour; several behaviours per configuration differ in the error count
        base.setdefault(p["base"], p)
        if base[p["base"]]["cfg"] != p["cfg"]:
            vlib.tool_error("two REPLAY records with the same index carry different configurations: %r" % p["base"])
    n = r.coverage.get("Init", (0, 0))[0]
    if not base or sorted(base) != list(range(len(base))) or len(base) != n:
        vlib.tool_error("REPLAY records do not cover the configuration space (%d records, %d initial states)" % (len(base), n))
    ev.add("states", r.distinct)
    ev.add("transitions", r.generated)
    ev.set(spec_model={"configurations": len(base), "behaviours": len(r.records), "states": r.distinct,
                       "actions": {k: v[1] for k, v in r.coverage.items()},
                       "invariants": ["TypeOK", "ExitIffSuccess", "ErrorsPrinted", "AllOrNothing", "SinksWhole", "RunOutput",
                                      "StreamsAppendOnly", "Progress", "Bounded"],
                       "assumes": ["UniverseWellFormed", "SinkIndependence", "NoStdNeutralForStdFree", "NoStdRejectsStdUsers"]})
    # the stricter reading (an unwritable stdout must be reported) is a consistent contract too; and the spec-level negative
    # controls: a defective machine must break the matching clause of the contract. Five small TLC runs, one worker each,
    # four at a time (<= 4 TLC workers in total).
    from concurrent.futures import ThreadPoolExecutor
    aux = [("MC_Driver_strict.cfg", None), ("MC_Driver_faulty.cfg", "AllOrNothing"), ("MC_Driver_faulty2.cfg", "ErrorsPrinted"),
           ("MC_Driver_faulty3.cfg", "ExitIffSuccess"), ("MC_Driver_faulty4.cfg", "StreamsAppendOnly")]

    def run_aux(item):
        cfg, _ = item
        return vlib.tlc("MC_DriverLite", cfg=cfg, wd=wd, timeout=1500, workers=1, tags=(), out_file=os.path.join(wd, "tlc-" + cfg + ".out"))

    with ThreadPoolExecutor(max_workers=4) as pool:
        results = list(pool.map(run_aux, aux))
    broken = {}
    for (cfg, inv), f in zip(aux, results):
        if inv is None:
            vlib.require_tlc_ok(f, "SyltDriver, StrictSink = TRUE")
            ev.add("states", f.distinct)
            ev.add("transitions", f.generated)
        elif f.timed_out or f.invariant_violated != inv:
            vlib.tool_error("negative control accepted: the defective driver model does not violate %s (%s; log %s)" % (
                inv, f.invariant_violated, f.log))
        else:
            broken[inv] = True
    ev.set(spec_negative_controls=sorted(broken))
    return [base[b] for b in sorted(base)]


def make_cases(base, nv, ns):
    cases = []
    for sp in range(ns):
        for v in range(nv):
            for b, rp in enumerate(base):
                cases.append({"idx": len(cases) + 1, "base": b, "v": v, "spell": sp, "cfg": rp["cfg"]})
    return cases


def validate(wd, name, trace, nv, ns, n, workers=None):
    r = vlib.tlc("MC_TraceDriver", cfg="MC_TraceDriver.cfg", wd=wd, env={"TRACE": trace, "V": nv, "S": ns, "PANIC_OK": PANIC_OK, "STRICT_STDOUT": STRICT_STDOUT},
                 tags=("REJECT",), workers=workers or min(4, vlib.NCPU), timeout=2400,
                 out_file=os.path.join(wd, "tlc-" + name + ".out"))
    vlib.require_tlc_ok(r, "Trace_Driver/" + name)
    rejects = {p["rec"]: p for (_, p) in r.records}   # ENABLED re-evaluates PrintT: dedupe
    r.coverage = final_coverage(r, os.path.join(wd, "tlc-" + name + ".out"))
    cov = {a: r.coverage.get(a, (0, 0))[1] for a in ("TraceInit", "TraceStep", "TraceAccept", "TraceReject")}
    if cov["TraceInit"] != n or cov["TraceAccept"] + cov["TraceReject"] != n or cov["TraceReject"] != len(rejects):
        vlib.tool_error("vacuity: Trace_Driver/%s did not take every record to a verdict (%r, %d records, %d REJECT lines)" % (
            name, cov, n, len(rejects)))
    return r, rejects


def describe(rec, rej, what):
    e, o = rej["expect"], rej["observed"]
    cmd = "sylt " + " ".join(rec["argv"])
    world = "%s program%s, %s" % (prog_of(rec["cfg"]), " using std" if rec["cfg"]["std"] else "", path_of(rec["cfg"]))
    detail = {
        "exit": "exit code %d but the specification says %s" % (rec["exit"], e["exit"]),
        "partial-file": "FILE is %s afterwards (expected %s)" % (o["fs"], e["fs"]),
        "file-state": "FILE / directory state is %s afterwards (expected %s)" % (o["fs"], e["fs"]),
        "partial-stdout": "stdout carries part of a program (expected %s)" % e["soprog"],
        "stdout": "stdout program class %s (expected %s)" % (o["soprog"], e["soprog"]),
        "chunk": "the child lua received a %s chunk (expected %s)" % (o["chunk"], e["chunk"]),
        "run-output": "stdout does not carry the run's output (%s expected)" % e["sorun"],
        "errors-missing": "%d error blocks rendered, %d errors to print (%s); missing imports %s, named in the output: %s" % (
            o["blocks"], len(e["printed"]), ",".join(e["printed"][:4]), rec["missing"], rec["blocks"]["named"])
                          + "; files carrying a planted error %s, files named by the printed errors %s" % (rec["planted"], rec["blocks"]["files"]),
        "errors-extra": "%d error blocks rendered, %d errors to print" % (o["blocks"], len(e["printed"])),
        "errors-spurious": "%d error blocks rendered although the command succeeds" % o["blocks"],
        "errors-location": "rendered error blocks name other file:line than the library's error list",
        "bytes-differ": "emitted bytes differ from those `-o FILE` writes for the same program and flags",
        "require": "require of M: %d textual, at offset %s after the preamble, executed %s" % (
            rec["emit"]["n_req"], rec["emit"]["req_at"], rec["emit"]["run"]["requires"]),
        "no-std": "observation differs from the same configuration with --no-std toggled (program does not use std)",
        "panic-message": "the only diagnostic is a panic message",
        "hang": "the command did not finish within the timeout",
        "stdout-disturbed": "the object behind stdout holds %s afterwards (expected %s): %r" % (
            "+".join(o["streams"]["out"]), "+".join(e["streams"]["out"]), rec["world"]["so"]),
        "stderr-disturbed": "the object behind stderr holds %s afterwards (expected %s): %r" % (
            "+".join(o["streams"]["err"]), "+".join(e["streams"]["err"]), rec["world"]["se"]),
    }.get(what, what)
    return "`%s` (%s): %s" % (cmd, world, detail)


def record(wd, name, cases, sylt, lua, seed=None):
    cf = os.path.join(wd, name + "-cases.ndjson")
    trace = os.path.join(wd, name + "-trace.ndjson")
    vlib.write_ndjson(cf, cases)
    env = {"VERIF_SEED": str(seed)} if seed is not None else None
    p = vlib.harness("c20", ["record", cf, sylt, lua, os.path.join(wd, "scratch-" + name), trace], env=env, timeout=1500)
    recs = vlib.read_ndjson(trace)
    if len(recs) != len(cases) or p.stdout.strip() != str(len(cases)):
        vlib.tool_error("recorder wrote %d records for %d cases" % (len(recs), len(cases)))
    return slim_trace(wd, name, recs), recs


def slim_trace(wd, name, recs):
    """TLC reads the facts only: sources, command line and text excerpts (kept for messages and replay files) are left out."""
    slim = os.path.join(wd, name + "-trace-tlc.ndjson")
    drop = ("files", "argv", "module")
    vlib.write_ndjson(slim, [dict({k: v for k, v in r.items() if k not in drop},
                                  so={k: v for k, v in r["so"].items() if k != "head"},
                                  se={k: v for k, v in r["se"].items() if k != "text"}) for r in recs])
    return slim


# ------------------------------------------------------------------------------------------------ negative controls
def _rejected(b):
    return b["eff"] == "rej"


def _regular(b):
    """-o FILE where FILE is (or will be) a regular file in the scratch directory"""
    return b["cfg"]["mode"] == "file" and (b["cfg"]["path"] == "absent" or b["cfg"]["path"].startswith("existing"))


def _emits_plain(b):
    """the emitted program can be edited in place by a stub: a regular FILE or stdout of -o -"""
    return _regular(b) or (b["cfg"]["mode"] == "stdout" and b["cfg"]["path"] == "none")


def _blocks_on_stdout(r):
    """error blocks the command printed (the stubs that cut the error output work on stdout)"""
    return r["blocks_so"]


# kind -> (which configurations the stub makes sense for (REPLAY record b), the verdict TLC must give)
STUBS = [
    ("exit0", lambda b, r: _rejected(b), "exit"),
    ("exit1", lambda b, r: b["success"], "exit"),
    ("silent", lambda b, r: _rejected(b) and b["cfg"]["path"] != "unwritable", "errors-missing"),
    # (applies where the command printed at least two error blocks on stdout: read off the main recording)
    ("first-only", lambda b, r: b["cfg"]["pk"] == "rej" and b["cfg"]["pn"] == 2 and not b["cfg"]["std"] and b["cfg"]["path"] != "unwritable"
     and _blocks_on_stdout(r) >= 2, "errors-missing"),
    # ... the same for a project whose broken files import broken / missing / conflict-marked files: only the entry file's error is printed
    ("first-only", lambda b, r: b["cfg"]["why"] == "chain" and b["cfg"]["path"] != "unwritable" and _blocks_on_stdout(r) >= 2, "errors-missing"),
    ("twice", lambda b, r: _rejected(b) and b["cfg"]["path"] != "unwritable", "errors-extra"),
    ("exit-count", lambda b, r: b["cfg"]["pk"] == "rej" and b["cfg"]["pn"] in (256, 512) and b["cfg"]["path"] != "unwritable", "exit"),
    ("partial-file", lambda b, r: _rejected(b) and _regular(b), "partial-file"),
    ("truncate-file", lambda b, r: _rejected(b) and b["cfg"]["mode"] == "file" and b["cfg"]["path"].startswith("existing"), "partial-file"),
    ("short-file", lambda b, r: b["success"] and _regular(b), "partial-file"),
    ("keep-tail", lambda b, r: b["success"] and b["cfg"]["path"] == "existing_longer", "partial-file"),
    ("newline", lambda b, r: b["success"] and b["cfg"]["mode"] == "stdout", "partial-stdout"),
    ("newline", lambda b, r: b["success"] and b["cfg"]["mode"] == "stdout", "bytes-differ"),
    ("req2", lambda b, r: b["success"] and b["cfg"]["req"] and _emits_plain(b), "require"),
    ("req0", lambda b, r: b["success"] and b["cfg"]["req"] and _emits_plain(b), "require"),
    ("req-late", lambda b, r: b["success"] and b["cfg"]["req"] and _emits_plain(b), "require"),
    ("req-other", lambda b, r: b["success"] and b["cfg"]["req"] and _emits_plain(b), "require"),
    ("req-stem", lambda b, r: b["success"] and b["cfg"]["req"] and "." in expected_module(b["cfg"]) and _emits_plain(b), "require"),
    ("nostd", lambda b, r: b["success"] and b["eff"] == "acc" and not b["cfg"]["std"] and _emits_plain(b), "no-std"),
    ("refuse-special", lambda b, r: b["success"] and b["cfg"]["path"] in ("dev_null", "dev_stdout"), "exit"),
    ("drop-missing", lambda b, r: b["cfg"]["why"] in ("missing2", "missing3") and b["cfg"]["path"] != "unwritable", "errors-missing"),
    ("lose-bytes", lambda b, r: b["success"] and b["cfg"]["why"] in ("longline", "longline_nl") and b["cfg"]["mode"] == "stdout", "bytes-differ"),
    # (accepted programs only: for a program that fails at run time the emptied stdout also loses the error, a different verdict)
    ("run-skip", lambda b, r: b["cfg"]["mode"] == "run" and b["cfg"]["std"] and b["eff"] == "acc", "run-output"),
    # stdout / stderr written through a second, truncating opening of the object behind the descriptor
    ("reopen-stdout", lambda b, r: b["success"] and b["cfg"]["mode"] == "stdout" and b["cfg"]["io"] in ("append", "shared"), "stdout-disturbed"),
    ("reopen-stdout", lambda b, r: b["cfg"]["io"] == "shared" and r["world"]["so"]["len"] > r["world"]["so"]["pre_len"] + r["world"]["so"]["post_len"],
     "stdout-disturbed"),
    ("reopen-stderr", lambda b, r: b["cfg"]["io"] in ("append", "shared") and r["world"]["se"]["len"] > r["world"]["se"]["pre_len"] + r["world"]["se"]["post_len"],
     "stderr-disturbed"),
]
PER_STUB = 2


def negative_controls(wd, base, cases, main_recs, nv, ns, sylt, lua, main_rejects, ev):
    rng = random.Random(vlib.seed() * 7919 + 20)
    neg = [dict(c) for c in cases]
    assigned = {}                               # idx -> (kind, expected verdict)
    for kind, pred, want in STUBS:
        cand = [c for c in neg if c["idx"] not in assigned and c["idx"] not in main_rejects and pred(base[c["base"]], main_recs[c["idx"] - 1])]
        if len(cand) < PER_STUB:
            vlib.tool_error("vacuity: no configuration left for the negative control %s" % kind)
        for c in rng.sample(cand, PER_STUB):
            c["stub"] = kind
            assigned[c["idx"]] = (kind, want)
    # only the stubbed configurations are run again; every other record of the slice is the one of the main recording
    _, stubbed = record(wd, "neg", [c for c in neg if c["idx"] in assigned], sylt, lua)
    recs = list(main_recs[:len(neg)])
    for x in stubbed:
        recs[x["idx"] - 1] = x
    trace = slim_trace(wd, "neg-spliced", recs)
    r, rejects = validate(wd, "negative-controls", trace, nv, ns, len(neg))
    ev.add("states", r.distinct)
    ev.add("transitions", r.generated)
    caught = {}
    for idx, (kind, want) in sorted(assigned.items()):
        rec = recs[idx - 1]
        if not rec["stub_applied"]:
            vlib.tool_error("negative control %s could not be applied to record %d (%s)" % (kind, idx, " ".join(rec["argv"])))
        whats = rejects.get(idx, {}).get("whats", [])
        if want not in whats:
            vlib.tool_error("negative control accepted: record %d (`sylt %s`) with stub %s is not rejected as %s (verdicts: %s)" % (
                idx, " ".join(rec["argv"]), kind, want, whats or "none"))
        caught.setdefault("%s -> %s" % (kind, want), []).append(idx)
    # ... and nothing else is rejected: an unstubbed record may only fail a relational clause against a stubbed partner
    for idx, rej in sorted(rejects.items()):
        if idx in assigned or idx in main_rejects:
            continue
        partners = set(rej["partners"].values())
        if not (partners & set(assigned)) or not set(rej["whats"]) <= {"bytes-differ", "require", "no-std"}:
            vlib.tool_error("negative-control run rejects the unstubbed record %d (`sylt %s`): %s" % (
                idx, " ".join(recs[idx - 1]["argv"]), rej["whats"]))
    ev.set(negative_controls={k: len(v) for k, v in sorted(caught.items())},
           negative_controls_rejected=len(assigned),
           negative_control_records=len(recs), negative_control_runs=len(stubbed),
           negative_control_collateral=len([i for i in rejects if i not in assigned and i not in main_rejects]))


# ------------------------------------------------------------------------------------------------ vacuity of the recording
def recording_guards(recs, ns):
    def count(pred):
        return sum(1 for r in recs if pred(r))
    guards = {
        "exit status 0": count(lambda r: r["exit"] == 0),
        "exit status non-zero": count(lambda r: r["exit"] != 0),
        "rejected programs with >= 2 errors, each printed": count(lambda r: r["ref"]["nerrors"] >= 2 and r["blocks"]["n"] == r["ref"]["nerrors"] and r["blocks"]["bag"] == r["ref"]["blocks"]["bag"]),
        "rejected programs with exactly 255 / 256 / 257 / 512 errors, each printed, non-zero exit": min(
            count(lambda r, n=n: r["ref"]["nerrors"] == n and r["blocks"]["n"] == n and r["exit"] != 0) for n in (255, 256, 257, 512)),
        "errors in an imported file": count(lambda r: any(f != "main.sy" for f in r["blocks"]["files"])),
        "child lua received the complete program": count(lambda r: r["cfg"]["mode"] == "run" and r["lua"]["started"] and r["lua"]["chunk_len"] > 0
                                                         and r["lua"]["chunk_digest"] == r["ref"]["lua_digest"]),
        "run failed and lua's message was printed": count(lambda r: r["lua"]["err_len"] > 0 and r["lua"]["msg_printed"] and r["exit"] != 0),
        "run output present on stdout": count(lambda r: r["cfg"]["mode"] == "run" and r["ref"]["run"]["out_len"] > 0 and r["so"]["has_out"]),
        "FILE written completely": count(lambda r: r["cfg"]["mode"] == "file" and r["emit"]["present"] and r["emit"]["digest"] == r["ref"]["lua_digest"]),
        "existing FILE left untouched": count(lambda r: r["cfg"]["path"].startswith("existing") and r["after"] == r["before"]),
        "shorter existing FILE replaced by the complete program": count(lambda r: r["cfg"]["path"] == "existing_shorter" and r["old_len"] < r["ref"]["lua_len"]
                                                                        and r["after"]["digest"] == r["ref"]["lua_digest"]),
        "equally long existing FILE replaced by the complete program": count(lambda r: r["cfg"]["path"] == "existing_equal" and r["old_len"] == r["ref"]["lua_len"]
                                                                             and r["after"]["digest"] == r["ref"]["lua_digest"] != r["before"]["digest"]),
        "longer existing FILE replaced by the complete program": count(lambda r: r["cfg"]["path"] == "existing_longer" and r["old_len"] > r["ref"]["lua_len"] > 0
                                                                       and r["after"]["digest"] == r["ref"]["lua_digest"]),
        "unwritable FILE, non-zero exit": count(lambda r: r["cfg"]["path"] in ("missing_parent", "is_directory", "unwritable_device") and r["exit"] != 0
                                                and r["ref"]["class"] == "ok"),
        "complete program through /dev/stdout (a pipe)": count(lambda r: r["cfg"]["path"] == "dev_stdout" and r["emit"]["present"] and r["emit"]["digest"] == r["ref"]["lua_digest"]),
        "complete program received by the reader of a fifo": count(lambda r: r["cfg"]["path"] == "fifo" and r["after"]["k"] == "fifo" and r["after"]["len"] > 0
                                                                   and r["after"]["digest"] == r["ref"]["lua_digest"]),
        "complete program through a symlink (to a file / dangling)": min(
            count(lambda r, p=p: r["cfg"]["path"] == p and r["emit"]["present"] and r["emit"]["digest"] == r["ref"]["lua_digest"]) for p in ("symlink_file", "symlink_dangling")),
        "-o /dev/null, exit 0": count(lambda r: r["cfg"]["path"] == "dev_null" and r["exit"] == 0 and r["ref"]["class"] == "ok"),
        "rejected program and a special FILE, errors printed": count(lambda r: r["cfg"]["path"] in ("dev_null", "dev_stdout", "fifo") and r["ref"]["class"] == "err"
                                                                     and r["blocks"]["n"] == r["ref"]["nerrors"] > 0),
        "two or three missing imports, each named": min(
            count(lambda r, n=n: len(r["missing"]) == n and r["blocks"]["named"] == sorted(r["missing"]) and r["ref"]["nerrors"] >= n) for n in (2, 3)),
        "a missing import and a syntax error, both printed": count(lambda r: r["cfg"]["why"] == "missing_plus_syntax" and r["blocks"]["named"] == r["missing"]
                                                                   and r["blocks"]["n"] >= 2),
        "a line of more than 8 KiB emitted on stdout": count(lambda r: r["cfg"]["why"] in ("longline", "longline_nl") and r["cfg"]["mode"] == "stdout"
                                                             and r["emit"]["present"] and r["emit"]["len"] > 8192 + 10000),
        "program on stdout": count(lambda r: r["cfg"]["mode"] == "stdout" and r["emit"]["present"]),
        "require executed exactly once": count(lambda r: r["cfg"]["req"] and r["emit"]["present"] and r["emit"]["run"]["requires"] == [expected_module(r["cfg"])]),
        "require of a dotted module name": count(lambda r: r["cfg"]["req"] and r["emit"]["present"] and "." in expected_module(r["cfg"])
                                                 and r["emit"]["req_names"] == [expected_module(r["cfg"])]),
        "require given as a file name (.lua cut once)": count(lambda r: r["cfg"]["req"] and r["emit"]["present"] and r["cfg"]["marg"].endswith(".lua")
                                                              and r["emit"]["req_names"] == [expected_module(r["cfg"])]),
        "--no-std turned a std-using program into a rejected one": count(lambda r: r["cfg"]["std"] and r["cfg"]["nostd"] and r["cfg"]["pk"] != "rej"
                                                                         and r["ref"]["class"] == "err"),
        "std-free program emitted with and without --no-std": count(lambda r: not r["cfg"]["std"] and r["emit"]["present"]),
        "-o - through a pipe": count(lambda r: r["cfg"]["io"] == "pipe" and r["emit"]["present"] and r["emit"]["digest"] == r["ref"]["lua_digest"]),
        "-o - appended to a log that keeps its earlier content (>>)": count(
            lambda r: r["cfg"]["io"] == "append" and r["cfg"]["mode"] == "stdout" and r["emit"]["present"] and r["emit"]["digest"] == r["ref"]["lua_digest"]
            and r["world"]["so"]["pre_len"] > 0 and r["world"]["so"]["pre_ok"]),
        "-o - between a header and a footer written through the same descriptor": count(
            lambda r: r["cfg"]["io"] == "shared" and r["cfg"]["mode"] == "stdout" and r["emit"]["present"] and r["emit"]["digest"] == r["ref"]["lua_digest"]
            and r["world"]["so"]["pre_ok"] and r["world"]["so"]["post_ok"] and r["world"]["so"]["post_len"] > 0),
        "run output between a header and a footer written through the same descriptor": count(
            lambda r: r["cfg"]["io"] == "shared" and r["cfg"]["mode"] == "run" and r["ref"]["run"]["out_len"] > 0 and r["so"]["has_out"]
            and r["world"]["so"]["pre_ok"] and r["world"]["so"]["post_ok"]),
        "errors printed behind the earlier content of stdout / stderr, footer behind them": count(
            lambda r: r["cfg"]["io"] == "shared" and r["ref"]["class"] == "err" and r["blocks"]["n"] == r["ref"]["nerrors"] > 0 and r["se"]["len"] > 0
            and all(r["world"][s]["pre_ok"] and r["world"][s]["post_ok"] for s in ("so", "se"))),
        "broken files importing broken / missing / conflict-marked files: every file's error printed": count(
            lambda r: r["cfg"]["why"] == "chain" and len(r["planted"]) >= 5 and set(r["planted"]) <= set(r["blocks"]["files"])
            and r["blocks"]["n"] == r["ref"]["nerrors"] >= len(r["planted"])),
    }
    if ns > 1:
        guards["command lines spelled differently"] = len({" ".join(r["argv"]) for r in recs if r["spell"] > 0} - {" ".join(r["argv"]) for r in recs if r["spell"] == 0})
    for k, v in guards.items():
        if v == 0:
            vlib.tool_error("vacuity: the recording contains no case of: " + k)
    return guards


def add_verdicts(verdicts, recs, rejects, nv, ns, only=None):
    for idx, rej in sorted(rejects.items()):
        if only is not None and idx != only:
            continue
        rec = recs[idx - 1]
        for what in sorted(rej["whats"]):
            verdicts.add(signature(rec["cfg"], what), describe(rec, rej, what),
                         {"case": {k: rec[k] for k in ("idx", "base", "v", "spell", "cfg")}, "nv": nv, "ns": ns, "seed": vlib.seed(),
                          "argv": rec["argv"], "files": rec["files"], "exit": rec["exit"], "stdout_head": rec["so"]["head"],
                          "stderr_head": rec["se"]["text"], "what": what, "reject": rej})


def run(ctx):
    tier = ctx.tier
    wd = vlib.workdir(PID)
    ev = vlib.Evidence(PID, tier, "model_checking")
    verdicts = vlib.Verdicts(PID)
    vlib.build_harness(["c20"])
    sylt = vlib.build_sylt_binary(wd)
    lua = build_lua()

    # 1. the specification on its own; its REPLAY records are the configurations
    base = spec_model(wd, ev)

    if ctx.replay:
        # the relational clauses need the partner records: the universe of the original run is recorded again
        # (same seed, hence the same command lines) and only the verdicts of the one case are reported
        rp = json.load(open(ctx.replay))["replay"]
        nv, ns, one = rp["nv"], rp["ns"], rp["case"]["idx"]
        cases = make_cases(base, nv, ns)
        if cases[one - 1]["cfg"] != rp["case"]["cfg"]:
            vlib.tool_error("the replay file's configuration is not configuration %d of the current universe" % one)
        trace, recs = record(wd, "replay", cases, sylt, lua, seed=rp.get("seed"))
        r, rejects = validate(wd, "replay", trace, nv, ns, len(cases), workers=4)
        add_verdicts(verdicts, recs, rejects, nv, ns, only=one)
        ev.add("states", r.distinct)
        ev.add("transitions", r.generated)
        ev.set(traces_validated_against_impl=len(recs), samples=[sample_of(recs[one - 1])], replayed_record=one)
        rc = verdicts.finish()
        ev.violations = len(verdicts.violations)
        ev.write()
        return rc

    # 2. conformance: every configuration (x variants x spellings) against the built binary
    nv, ns = TIERS[tier]
    cases = make_cases(base, nv, ns)
    trace, recs = record(wd, "main", cases, sylt, lua)
    r, rejects = validate(wd, "main", trace, nv, ns, len(cases))
    add_verdicts(verdicts, recs, rejects, nv, ns)
    # the counters below are calibrated for a tree on which the property holds: they say the exploration was not vacuous
    guards = recording_guards(recs, ns) if not verdicts.violations else {"skipped: violations found": len(verdicts.violations)}
    ev.add("states", r.distinct)
    ev.add("transitions", r.generated)
    open_status = [x for x in recs if x["cfg"]["path"] == "unwritable" and x["ref"]["class"] == "ok"]
    ev.set(traces_validated_against_impl=len(recs), evaluations=len(recs), programs=len({vlib.sha(x["files"]) for x in recs}),
           distinct_nontrivial=len({vlib.sha([x["argv"], x["files"], x["cfg"]["path"]]) for x in recs}),
           rule="every configuration of SyltDriver's universe (19 sinks - 15 output paths with fresh stdout/stderr, `-o -` with stdout/stderr a pipe / an appended-to log / "
                "a file shared with an earlier and a later writer, run mode on such a shared file - x {no --require, 6 spellings of M} x --no-std x 17 program classes x uses-std = %d), "
                "x %d program variants per class x %d command-line spellings (spelling 0 canonical, the others seeded random: "
                "-o/--output/--output=F/-oF, --require/-r/=, argument order); a case is one run of the built sylt binary in its own scratch "
                "directory; distinct = different (argv, program files, state of the output path)" % (len(base), nv, ns),
           exhaustive=True,
           trace_validation={"records": len(recs), "rejected": len(rejects), "tlc_states": r.distinct, "tlc_wall_s": round(r.wall_s, 1),
                             "actions": {k: v[1] for k, v in r.coverage.items() if k.startswith("Trace")}},
           recording_guards=guards, runs_repeated_after_a_timeout=sum(1 for x in recs if x.get("repeated")),
           exit_codes={str(k): sum(1 for x in recs if x["exit"] == k) for k in sorted({x["exit"] for x in recs})},
           unwritable_stdout_status_left_open={"records": len(open_status), "exit_0": sum(1 for x in open_status if x["exit"] == 0),
                                               "strict": STRICT_STDOUT == "1"},
           panic_is_diagnostic=PANIC_OK == "1")

    # 3. negative controls: the quick universe, recorded again with stubbed worlds
    ncases = make_cases(base, 1, 1)
    nmain = {i for i in rejects if i <= len(ncases)}     # variant 0 / spelling 0 is a prefix of every tier's universe
    if verdicts.violations:
        # the controls (like the counters above) are calibrated for a conforming tree; the run is a failure anyway
        ev.set(negative_controls="skipped: violations found")
    else:
        negative_controls(wd, base, ncases, recs, 1, 1, sylt, lua, nmain, ev)

    picks = [i for i in (1, 3, 68, 150, 200, 262, 330, 425, len(recs) - 2) if 0 < i <= len(recs)]
    ev.set(samples=[sample_of(recs[i - 1]) for i in picks], known_findings_hit=verdicts.known_hits)
    ev.assume("TLC and the SyltDriver module are the reference; the library API (sylt::compile_with_reader_to_writer on the same files, same "
              "relative paths) supplies the error list and the complete program - a second output of the current compiler, never a stored one",
              "minilua stands in for `lua` (as the child process of run mode and to execute emitted programs when counting executed requires)",
              "an error block is a printed line ending in <source file>:<line>; wording and stream (stdout/stderr) are free",
              "unwritable FILE = parent directory missing, an existing directory, or /dev/full (all root-proof); a panic message that names the "
              "failure counts as the printed error unless C20_STRICT_PANIC=1",
              "an error without a source location is a printed line naming the missing imported file; every planted missing import must be named, "
              "whatever the library's error list says",
              "/dev/stdout is exercised with stdout a pipe, the FIFO with a reader held open by the recorder; -o through a symlink is judged by reading FILE",
              "`-o -` into an unwritable stdout: only rejected programs have a required status (C20_STRICT_STDOUT=1 requires non-zero for all)",
              "`a require of M` = M without one trailing .lua (SyltDriver!ExpectedModule); --dump-tree, -v, --help and a missing file argument are outside the property")
    rc = verdicts.finish()
    ev.violations = len(verdicts.violations)
    ev.write()
    return rc
