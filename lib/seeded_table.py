#!/usr/bin/env python3
"""Prints the markdown table of seeded/<id>/meta.json (DESIGN.md section 14 is generated from it)."""
import json, os, glob, re
rows = []
for d in sorted(glob.glob(os.path.join(os.path.dirname(os.path.dirname(os.path.abspath(__file__))), "seeded", "*"))):
    m = json.load(open(os.path.join(d, "meta.json")))
    readme = open(os.path.join(d, "README.md")).read() if os.path.exists(os.path.join(d, "README.md")) else ""
    title = ""
    for l in readme.splitlines():
        l = l.strip("# ").strip()
        if l and not l.lower().startswith("mutation") or (l.lower().startswith("mutation") and ":" in l):
            title = l.split(":", 1)[-1].strip() if l.lower().startswith("mutation") else l
            break
    files = ", ".join(os.path.basename(f) for f in m["files_changed"])
    rows.append("| %s | %s | %s | %s | %s |" % (m["id"], files, (m.get("summary") or title)[:160].replace("|", "/"), (("was " + ", ".join(m["detected_by"]) + "; now no effect (fix " + m["neutralised_by"] + ")") if m.get("neutralised_by") else (", ".join(m["detected_by"]) or "**not yet**")), (m.get("note") or "").replace("|", "/")[:330]))
print("| id | file(s) changed | what it does | caught by | remark |\n|---|---|---|---|---|")
print("\n".join(rows))
