#!/bin/bash
# Run checks against a MUTATED copy of /repo without touching /repo or /verif:
#   lib/mutant.sh <slot> <patch.diff | --revert <commit> | --none> <ID> [<ID> ...]      (env TIER=quick|thorough)
# Creates /tmp/vm/<slot>/{repo (git worktree of /repo HEAD + patch), verif (copy of /verif's working tree incl. build caches)},
# rewrites the path dependencies of the copy to the mutated worktree, runs ./check <ID> --tier $TIER for each ID and
# prints one line per check:  MUTANT <slot> <ID> exit=<rc> violations=<n> known=<n>.  Logs: /tmp/vm/<slot>/log.<ID>.
# Clean up with: lib/mutant.sh <slot> --clean
# (The registered checks always run in /verif against /repo itself; this tool exists so that seeded changes can be tried
#  while other work goes on in /repo and /verif. The official procedure - git -C /repo apply; ./check; git -C /repo checkout -- . -
#  gives the same verdicts.)
set -u
slot=$1; shift
base=/tmp/vm/$slot
if [ "$1" = "--clean" ]; then
  git -C /repo worktree remove --force $base/repo 2>/dev/null
  rm -rf $base
  git -C /repo worktree prune
  exit 0
fi
mode=$1; shift
rev=""
if [ "$mode" = "--revert" ]; then rev=$1; shift; fi
TIER=${TIER:-quick}
if [ ! -d $base/repo ]; then
  mkdir -p $base
  git -C /repo worktree add -q --detach $base/repo HEAD || exit 2
else
  git -C $base/repo reset -q --hard && git -C $base/repo clean -fdq -e target      # also clears a --revert left in the index
  git -C $base/repo checkout -q --detach $(git -C /repo rev-parse HEAD)      # follow /repo's HEAD
fi
if [ "$mode" = "--revert" ]; then
  git -C $base/repo revert --no-commit $rev || exit 2
elif [ "$mode" != "--none" ]; then
  git -C $base/repo apply "$mode" || { echo "patch does not apply"; exit 2; }
fi
mkdir -p $base/verif
rsync -a --delete --exclude work --exclude replays --exclude .git --exclude evidence /verif/ $base/verif/
mkdir -p $base/verif/evidence
cd $base/verif
sed -i "s#\"/repo/#\"$base/repo/#g" harness/Cargo.toml
sed -i "s#\"/repo\"#\"$base/repo\"#g; s#\"/repo/tests\"#\"$base/repo/tests\"#g; s#cwd=\"/repo\"#cwd=\"$base/repo\"#g" lib/vlib.py checks/*.py harness/src/bin/*.rs
export SYLT_REPO=$base/repo
for id in "$@"; do
  ./check $id --tier $TIER > $base/log.$id 2>&1
  rc=$?
  nv=$(grep -c '^VIOLATION' $base/log.$id)
  nk=$(grep -c '^KNOWN-FINDING' $base/log.$id)
  cp $base/log.$id $base/keep.$id.log 2>/dev/null; echo "MUTANT $slot $id exit=$rc violations=$nv known=$nk"
done
