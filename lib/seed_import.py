#!/usr/bin/env python3
"""seed_import.py <P> <k> <detected-by: 'C01,C10' or '-'> [note]: copy a confirmed seeded change from /tmp/mut/<P>/mutations/<k> to /verif/seeded/<P>-<k>/"""
import json, os, shutil, sys, re
P, k, det = sys.argv[1], sys.argv[2], sys.argv[3]
note = sys.argv[4] if len(sys.argv) > 4 else ""
src = "%s/%s/mutations/%s" % (os.environ.get("MUTROOT", "/tmp/mut"), P, k)
dst = "/verif/seeded/%s-%s" % (P, k)
os.makedirs(dst, exist_ok=True)
shutil.copy(src + "/patch.diff", dst + "/patch.diff")
if os.path.exists(dst + "/demo"):
    shutil.rmtree(dst + "/demo")
shutil.copytree(src + "/demo", dst + "/demo", ignore=shutil.ignore_patterns("target", "*.lua.out", "out.with", "out.without", "tokdump"))
# drop build outputs of demo drivers
for root, dirs, files in os.walk(dst + "/demo"):
    for d in list(dirs):
        if d == "target":
            shutil.rmtree(os.path.join(root, d)); dirs.remove(d)
readme = open(src + "/README.md").read() if os.path.exists(src + "/README.md") else ""
shutil.copy(src + "/README.md", dst + "/README.md") if readme else None
files = re.findall(r"^\+\+\+ b/(\S+)", open(src + "/patch.diff").read(), re.M)
meta = {
    "id": "%s-%s" % (P, k),
    "breaks_property": P,
    "files_changed": files,
    "needs_to_manifest": (readme.split("\n\n")[1] if readme.count("\n\n") else readme)[:900].strip(),
    "author": "independent sub-agent given only the property text and a scratch worktree of /repo",
    "confirmed": {"applies_to_repo_head": True, "compiles": True, "unit_tests": "158 passed (sylt::test::program_tests fails in the baseline too)",
                  "demo_without_patch_exit": 0, "demo_with_patch_exit": 1,
                  "how": "/tmp/mut/validate.sh: git apply in a scratch worktree, cargo build, cargo test --workspace --no-fail-fast --offline, demo/run.sh before and after"},
    "detected_by": [] if det == "-" else det.split(","),
    "how_run": "lib/mutant.sh <slot> seeded/%s-%s/patch.diff <ID>  (isolated mutated copy of /repo; same verdict as git -C /repo apply ...; ./check <ID> --tier quick; git -C /repo checkout -- .)" % (P, k),
    "note": note,
}
json.dump(meta, open(dst + "/meta.json", "w"), indent=1)
print(dst, meta["detected_by"])
