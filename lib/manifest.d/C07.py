check("C07", "exploration",
      "The outcome protocol of one compilation is a TLA+ state machine (SyltPipeline: Start, ParseErr/ParseOk, CompileErr/CompileOk, RenderErr, Finish; "
      "there is no action for a panic, an abort or a timeout, so such a run is a truncated trace and not a behaviour). TLC model-checks the protocol on its own "
      "(invariants, no dead end, every fair behaviour reaches Finish, all actions covered). A recorder runs the real compiler through the public API in isolated "
      "worker processes (15 s stall watchdog, 60 s solitary re-run before a `timeout` is recorded, a worker killed by a signal is an `abort` for the input it was on) "
      "and writes the observed event list per input; TLC (Trace_Pipeline) validates every event list as a complete behaviour with all invariants evaluated in every "
      "state and prints one REJECT per run that is not. Inputs: exhaustive index-addressed token-string universes defined in TLA+ and re-derived by TLC "
      "(all strings of <=4/5 tokens over a 20-spelling alphabet framed as top-level text and as entry-point body; <=3/4 tokens over a 31-spelling alphabet), "
      "the index-addressed families of structured programs, defined in TLA+ (SyltPipeline!FamCase), emitted by TLC (MC_Families) and re-derived by TLC "
      "from the index of every recorded run (id, whole text, std flag): nest (22 constructs - if/elif/else bodies and conditions, case arms/else/scrutinee, "
      "loop bodies with and without do, do-blocks, inner function definitions, immediately invoked closures, parentheses, list/tuple/blob literals, call "
      "arguments, arrow calls, left/right operator towers, unary minus - each nested in itself and in every other to depth 8/16/24/32, as trailing expression "
      "of every block and as non-trailing statement, well typed and with a type error planted innermost: 7744 programs), nestraw/nestsolo (type-changing literal "
      "towers, not/call/index/field-access chains, blob declarations nested through field types, nested type annotations, import chains of length 8/16), "
      "place (every top-level-only statement kind x 13 inner positions x what else its name is; every inner-only statement kind at the top level of the main "
      "and of an imported file), cyc (import cycles in which some or every file has a syntax error), selfty (self-referential inferred types printed by a "
      "type error); "
      "20 kinds of seeded mutations of the 350 corpus files (truncate/delete/dup/swap/splice/move and copy statements between top level and function bodies/"
      "garbage/char cuts/same-class token swaps/line and statement deletion and duplication/snippet injection) with and without std, and ~1500 in-memory multi-file "
      "projects (missing files, cycles, import/definition collisions, std names, arbitrary text). Rejected runs are delta-debugged to a minimal input whose token "
      "skeleton is the violation signature. Exploration level: TLA+ contributes the protocol and the exhaustive short-string universes; totality over all UTF-8 is not proved.",
      "Trusted: TLC, the SyltPipeline/Trace_Pipeline modules, the recorder c07 (maps Ok/Err/panic, per-error rendering and process fate to events). "
      "Hangs are detected by budgets, not proved absent (work that doubles per nesting level is a timeout from depth ~24; work that doubles per two levels "
      "- e.g. the parser's assignable-then-expression probe - stays inside the budgets up to the bound). After 8 recorded timeouts in a universe the recorder "
      "stops and the rest of that universe is `notrun` (rejected, reported with the timeouts). Nesting depth of inputs is bounded by 40 (workers have a 512 MB stack). The harness is a debug build "
      "(overflow checks on), as `cargo build`/`cargo test` build the compiler. Bytes written before a failure are recorded but not constrained here (C03/C06).",
      "TLA+ outcome-protocol spec + TLC trace validation of recorded compilations (isolated workers, TLC-decided exhaustive token universes, TLC-emitted families of nested / misplaced / cyclic programs, corpus mutation, project families)",
      "DESIGN.md 5.11, 8/C07")
