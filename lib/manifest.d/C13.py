check("C13", "model_checking",
      "TLC enumerates SyltExpr's universes (all depth-2 operator/unary/postfix shapes over distinct leaf names, the depth-3 shapes around postfix forms (a unary operator over a call / index / field access whose base is a composite, parenthesised expression, alone and as either operand of every binary operator; postfix chains on composite bases), all 13^3 unparenthesised "
      "three-operator chains, the same chains over literal leaves written over several lines inside parentheses (a line break or a comment before the 2nd / 3rd operator), long chains of 5-10 operands of one operator and of two alternating operators (left associativity at every length), unary operators before prime calls, all depth-2 well-typed int/bool trees with their values), checks at spec level that the printing rules and the "
      "operator table agree with a reference precedence-climbing parser, and every case is replayed: the real parser's public tree (spans and "
      "parenthesis nodes dropped) for the minimal-parenthesis and the fully parenthesised text must equal the specified tree; typed cases are "
      "compiled and run and must print the specified value. Bounded-exhaustive (depth 2, full operator-pair matrix on both sides).",
      "Trusted: TLC, SyltExpr (the property's table transcribed), astdump (AST -> JSON), minilua for the value checks. "
      "Unary-next-to-*,/ groupings are left open by the property and always parenthesised.",
      "TLA+ operator-table spec; TLC-enumerated expression universe replayed into the real parser/compiler", "DESIGN.md 5.2, 8/C13")
