check("C01", "model_checking",
      "The dynamic semantics SyltSem (TLA+: strict left-to-right big-step evaluator over a heap of frames, lists and blobs, closures by reference, "
      "fresh variables per block/iteration/arm/call) is the reference. TLC runs every program of the pairwise-nesting universe of SyltGen (64 construct "
      "templates; every construct in every type-compatible hole of every other; six harness contexts: start, global initialiser, live across a recursive "
      "call on either side, closure per loop iteration, blob method; ~14k programs) with spec invariants (heap well-formed, the typed generator never gets "
      "stuck) and prints the expected trace; each program is rendered, compiled by the real compiler, run in minilua, and the print sequence and terminal "
      "status must be equal. Bounded-exhaustive over that universe. "
      "Two further universes go the same way (spec/MC_SemX.tla): SyltLimits - literal arithmetic at the numeric limits: every ordered pair of 14 int atoms "
      "(2^63-1, 2^62, 2^32, 2^31, ~sqrt 2^63, their negations, small ints) and 11 float atoms (2^1023, 1.5*2^1023, 2^512, +-0.0, small floats) under every "
      "operator, written with literals only / through variables / half and half / as a global / negated / as compound assignment, a second level on top of every "
      "result that is a limit value and every kind of enclosing expression around the results that are MIN, MAX, an infinity, a NaN or -0.0, plus float literals "
      "beyond the largest double (1 825 programs, ~51k print events); the expectation is SyltNum64 (64-bit words as 8 bytes, arithmetic modulo 2^64, decimal text) and "
      "the IEEE rules for overflow, NaN and the sign of zero in SyltValues. SyltNestSelf - blob literals nested in methods of blob literals, both with a field n: "
      "16 field shapes (function literal, parenthesised once / twice, call with one / two function-literal arguments, if- / case-picked, IIFE, tuple index, closure "
      "variable, six data expressions over self.n) x 3 uses of self x 4 contexts (method value, local, closure, inside a method of a third blob literal): 144 programs; "
      "SyltSem binds self of a literal only in the fields that are function literals. "
      "Second direction (trace validation, spec/Trace_Sem.tla, docs/C01-corpus.md): the maintainers' own programs under /repo/tests (not generated from the "
      "specification) are compiled and run by the real tool chain, the run is recorded (program as the real parser read it, printed lines, terminal status) and "
      "TLC executes each recorded program with SyltSem and accepts the record only if SyltSem's print texts and status equal the recorded ones (thorough: all "
      "in-model files, ~200 of the 223 the compiler accepts; quick: a seeded stratified sample of 40); corrupted recordings and altered programs are negative controls.",
      "Trusted: TLC, SyltSem/SyltValues as the reading of 'what the source denotes', the printer, minilua as stand-in for Lua 5.3 (none exists in the sandbox). "
      "Numbers are small ints and dyadic floats, and in SyltLimits 64-bit ints and the doubles m*2^x with |m| < 10^6, the infinities, NaN, -0.0; dict/set iteration "
      "order, float results that would be rounded, division by zero and the sign a NaN is printed with are outside the model (dropped, never judged).",
      "TLA+ reference semantics executed by TLC over a pairwise-nesting program universe; replay into compiler + Lua interpreter", "DESIGN.md 5.6, 8/C01")
