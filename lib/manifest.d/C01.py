check("C01", "model_checking",
      "The dynamic semantics SyltSem (TLA+: strict left-to-right big-step evaluator over a heap of frames, lists and blobs, closures by reference, "
      "fresh variables per block/iteration/arm/call) is the reference. TLC runs every program of the pairwise-nesting universe of SyltGen (64 construct "
      "templates; every construct in every type-compatible hole of every other; six harness contexts: start, global initialiser, live across a recursive "
      "call on either side, closure per loop iteration, blob method; ~14k programs) with spec invariants (heap well-formed, the typed generator never gets "
      "stuck) and prints the expected trace; each program is rendered, compiled by the real compiler, run in minilua, and the print sequence and terminal "
      "status must be equal. Bounded-exhaustive over that universe. "
      "Second direction (trace validation, spec/Trace_Sem.tla, docs/C01-corpus.md): the maintainers' own programs under /repo/tests (not generated from the "
      "specification) are compiled and run by the real tool chain, the run is recorded (program as the real parser read it, printed lines, terminal status) and "
      "TLC executes each recorded program with SyltSem and accepts the record only if SyltSem's print texts and status equal the recorded ones (thorough: all "
      "in-model files, ~200 of the 223 the compiler accepts; quick: a seeded stratified sample of 40); corrupted recordings and altered programs are negative controls.",
      "Trusted: TLC, SyltSem/SyltValues as the reading of 'what the source denotes', the printer, minilua as stand-in for Lua 5.3 (none exists in the sandbox). "
      "Numbers are small ints and dyadic floats; dict/set iteration order, i64 overflow and float rounding are outside the model.",
      "TLA+ reference semantics executed by TLC over a pairwise-nesting program universe; replay into compiler + Lua interpreter", "DESIGN.md 5.6, 8/C01")
