check("C08", "model_checking",
      "SyltAnnot (TLA+) defines the annotation sites of a program and the erasure universe Masks(n, np); MC_Annot emits the programs of the "
      "pairwise-nesting universe with their site counts and then validates the recorded compile results: TLC asserts that each record covers the "
      "spec's mask universe (every subset of the program-specific sites when there are <= 8/6, plus all-on, all-off, every single site on/off and "
      "every prefix erased over all sites) and that all variants are accepted with one and the same Lua digest. Bounded: sampled programs in quick, "
      "all ~14k programs in thorough.",
      "Trusted: TLC, SyltAnnot's definition of a site (variable definitions of non-function values, parameters of non-function type, return types of "
      "value-returning functions), the printer (its site count is cross-checked against the specification per program), FNV digest of the Lua text.",
      "TLA+ erasure universe + TLC validation of recorded compile results over all annotation subsets", "DESIGN.md 5.5, 8/C08")
