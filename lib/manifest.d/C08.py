check("C08", "model_checking",
      "SyltAnnot (TLA+) defines the annotation sites of a program and the erasure universe Masks(n, np). Two program universes are emitted by "
      "TLC with their site counts: MC_Annot = SyltGen's pairwise-nesting programs; MC_AnnotFam = the annotation-type families of SyltAnnotFam "
      "(G: generic / structured nominal types - generic blobs and enums, std Maybe, blobs with fn-typed and `*` fields, blobs over generics - "
      "written bare, applied, partially applied and nested in list / tuple / Opt / Box annotations at every site kind and context, with a second "
      "use of the same type at another instantiation before or after it, in the same or another function; S: generic function signatures called "
      "at two instantiations; F: variable definitions whose value is function-typed but not a literal, annotated fn / pu; L: annotations naming types declared later "
      "in the file, in every order of {annotated definition, the type, another type mentioning it through tuple / list / fn / generic-argument "
      "positions}, with a call that needs the precise type; M: qualified type names - namespace, alias, chains through other files and folders, "
      "re-exports, from-imports, rooted paths, generic qualified types - at every site kind in main and in imported files of in-memory "
      "multi-file projects; O (SyltAnnotOrd): positional type arguments - generic blobs / enums with 2-3 type variables in every declaration order "
      "and every order of mention in the fields / variants, applied to every tuple of argument types at every site kind, nested in list / generic / "
      "itself, as field / payload type of other declarations, applied to the type variables of a generic function, with a second use at the "
      "reversed tuple). The harness compiles "
      "every erasure variant; MC_AnnotVal validates the records: TLC asserts that each record covers the spec's mask universe (every subset of the "
      "program-specific sites when there are <= 8/6 - always for the families -, plus all-on, all-off, every single site on/off and every prefix "
      "erased over all sites) and that all variants are accepted with one and the same Lua digest. Bounded: quick = 600 P + 700 G + all 136 S + "
      "134 F + 300 L + 300 M + 400 O programs (seeded), thorough = all ~15.6k + 23.8k programs.",
      "Trusted: TLC, SyltAnnot's definition of a site (variable definitions whose value is not a function literal, parameters of non-function "
      "type that are not needed to type a call made through them, return types of value-returning functions), the well-typedness by construction "
      "of the generated programs (the all-annotated variant being accepted is part of what is checked), the printer (its site count is "
      "cross-checked against the specification per program), FNV digest of the Lua text.",
      "TLA+ erasure universe + TLC validation of recorded compile results over all annotation subsets", "DESIGN.md 5.5, 8/C08; docs/C08.md")
