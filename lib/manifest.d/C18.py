check("C18", "model_checking",
      "Plain TLA+ models of the standard-library containers (SyltStd: list = Seq(V), dict = partial function, set = subset, Maybe = variant; "
      "one named action per operation: push prepend pop get set len map filter fold find contains last, dict new/from_list/update/get/remove/len/"
      "contains_key, set new/from_list/add/contains/remove/len) and of the helpers min max abs clamp sign div floor orDefault isJust isNone are "
      "explored by TLC with the history hidden behind a VIEW; an action constraint asserts the models' own algebra on every transition. "
      "One record per transition (history reaching s, operation, expected result, expected observation of s') for element/key types int, str, "
      "(int, int) and (str, str) is replayed as a Sylt program through the real compiler and minilua: the result, len and every element are "
      "printed and compared, and every library result / resulting container is compared inside Sylt with the same value written in source. "
      "Bounded-exhaustive over lists of length <=3, <=3 keys, ints -3..3 and half-steps in [-2,2]; thorough adds simulated 12-step behaviours.",
      "Trusted: TLC, SyltStd as the reading of 'a plain model of those containers', the renderer c18 (operation -> Sylt call text, menu of lambdas), "
      "minilua as stand-in for Lua 5.3. div/floor only where floor and truncation agree; iteration order of dicts/sets, for_each, dict.map/set.map and "
      "random_choice are not exercised.",
      "TLA+ container models, state-graph transition coverage (VIEW + per-transition records), replay into compiler + Lua interpreter",
      "DESIGN.md 4 (P3), 5.9, 8/C18")
