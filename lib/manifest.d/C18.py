check("C18", "model_checking",
      "Plain TLA+ models of the standard-library containers (SyltStd: list = Seq(V), dict = partial function, set = subset, Maybe = variant; "
      "one named action per operation: push prepend pop get set len map filter fold find contains last, dict new/from_list/update/get/remove/len/"
      "contains_key, set new/from_list/add/contains/remove/len) and of the helpers min max abs clamp sign div floor orDefault isJust isNone are "
      "explored by TLC with the history hidden behind a VIEW; an action constraint asserts the models' own algebra on every transition. "
      "One record per transition (history reaching s, operation, expected result, expected observation of s') for element/key types int, str, "
      "(int, int) and (str, str) is replayed as a Sylt program through the real compiler and minilua: the result, len and every element are "
      "printed and compared, and every library result / resulting container is compared inside Sylt with the same value written in source. "
      "Value semantics ACROSS containers (SyltShare, extends SyltStd): up to three registers; r1 is a list literal, Derive makes a new register "
      "from an existing one (list.map, list.filter, copy by for_each + push, dict.from_list, set.from_list, dict.map, set.map, entries / elements "
      "captured by a dict/set.for_each callback), Mutate changes exactly ONE register (push prepend pop set / update remove / add remove, writing a "
      "mark value no literal contains), and after every step ALL registers are observed (len + every element / key lookup / membership): in the "
      "model containers are values, so a mutation never shows through another container or through the tuples of the list it was made from, and "
      "two containers made from the same list are independent (action constraint ShareSane); element/key types int and (int, int). "
      "div and floor are read with FLOOR semantics on all operands: div(a, b) = floor(a / b) for a in -7..7, b in -3..3 without 0 (the remainder "
      "a - b*div(a, b) has the sign of b), floor on every half-step in [-2, 2] incl. the negative ones. "
      "Bounded-exhaustive over lists of length <=3, <=3 keys, ints -3..3 and half-steps in [-2,2]; SyltShare: literals of length <= 2 over 2 values, "
      "<= 3 registers, <= 2 mutations, <= 3 steps after the literal (thorough: 4); thorough adds simulated 12-step behaviours of SyltStd.",
      "Trusted: TLC, SyltStd / SyltShare as the reading of 'a plain model of those containers' (containers are values; div = floored division, the meaning "
      "div has where it is distinguished from quot and what the library states with math.floor(a / b)), the renderer c18 (operation -> Sylt call text, "
      "menu of lambdas), minilua as stand-in for Lua 5.3. div(a, 0), iteration order of dicts/sets (captured entries are observed as a bag: len + "
      "contains), lists of lists (elements legitimately shared references) and random_choice are not exercised. Known findings: K6 ((str, str) keys "
      "that print alike), K7 (set.map result carries the dict metatable: as_str / print of it fails).",
      "TLA+ container models incl. a several-register model of value semantics, state-graph transition coverage (VIEW + per-transition records), "
      "replay into compiler + Lua interpreter, stubbed-implementation negative control (copy rendered as alias must be rejected)",
      "DESIGN.md 4 (P3), 5.9, 8/C18; docs/C18.md")
