check("C20", "model_checking",
      "TLC model-checks the driver specification SyltDriver (the `sylt` command as a state machine: parse arguments, compile, then run the chunk / "
      "write it to stdout / write it to FILE, print every error, exit) over all 9044 configurations (19 sinks incl. absent FILE, existing FILE shorter than / as long as / longer than the output, the root-proof "
      "unwritable ones - missing parent directory, existing directory, /dev/full, full stdout - and writable non-regular ones - /dev/null, /dev/stdout as a pipe, a FIFO "
      "with a reader, symlinks to a file and to nowhere -, and `-o -` / run mode with stdout and stderr a pipe, a log opened for appending that already has content, "
      "a regular file shared with a writer before and a writer after the command (same open file description) x {no --require, M spelled m, m.lua, dir/m.lua, ext.helpers, a.b.c, m.lua.lua} "
      "x --no-std x accepted / rejected with 1, 2, 255, 256, 257, 512 errors / rejected for 2, 3, shared, mixed missing imports (errors without source location) / "
      "a project whose syntactically broken files import further broken, conflict-marked and missing files 2-4 levels deep / "
      "failing at run time by assert, unreachable, Lua error / a > 8 KiB line with and without an embedded line end x uses-std) with the contract (exit 0 <=> success, every error printed, FILE / stdout / the child's "
      "chunk complete or untouched in every state, stdout / stderr append-only streams: earlier content, then the command's output as one piece, then later writes) as invariants; then the built `sylt` binary is run once per configuration (quick) / x 3 programs per class x 2 command-line spellings "
      "(thorough) in its own scratch directory with minilua as `lua` on PATH, and every recorded run (exit code, stdout/stderr, FILE before/after, "
      "the chunk given to lua, error blocks, require sites and executed requires) is validated by TLC (Trace_Driver) as a behaviour of that specification, including the "
      "relational clauses against partner records (same bytes on every sink and spelling, exactly one require of M without one trailing .lua in front of the unchanged program, --no-std neutral "
      "for std-free programs). Bounded-exhaustive over the configuration space, not a proof.",
      "Trusted: TLC, the SyltDriver module as the reading of the property, the recorder c20 (raw facts only), minilua as `lua`, and the library API of the current tree "
      "as the reference for 'the complete program' and 'every error' (differential: never stored outputs, never message texts); in addition every error planted by a program's "
      "construction (broken files, missing imports; at least the number the class is written to have) must be printed whatever the library reports. The exit status of `-o -` into an unwritable "
      "stdout is left open for compilable programs (the property fixes it for FILE only; C20_STRICT_STDOUT=1 requires non-zero: sylt exits 0 there today); a panic message naming "
      "the failure counts as the printed error for an unwritable FILE (C20_STRICT_PANIC=1 does not accept it). Not explored: --dump-tree, -v, --help, no file argument, "
      "partially failing writes to a regular file.",
      "TLA+ driver spec + TLC trace validation of recorded runs of the built binary (index-addressed configuration universe, stubbed-world negative controls per clause)",
      "DESIGN.md 5.12, 8/C20")
