# One entry per claimed property. `check(pid, category, text, note, technique, design_ref)`.
check("C17", "model_checking",
      "TLC model-checks the lexer specification SyltLex (tiling, maximal munch, text-derived positions, determinism up to error extents, "
      "characters outside the token alphabet confined to strings/comments/error tokens) over all texts of length <=3 over 25 symbols, then "
      "validates the token list the real tokenizer produces for every text of index-addressed universes as a behaviour of that specification, "
      "evaluating the spec invariants in every state: all strings of length <=4/5 over an 18-character alphabet; all 1- and 2-fragment and "
      "sampled 3-fragment concatenations of 120 lexical fragments; random longer texts; all strings of length <=3 (+ sampled 4) over 9 token "
      "characters and 15 representatives of 8 classes of non-token characters (non-ASCII letters, decimal digits incl. non-BMP, other numerics, "
      "other white space, combining marks, connectors, BOM, NUL/controls/emoji), each representative between 33 x 27 contexts; all strings of "
      "length <=5/6 over {1 . e E + - a _} (number grammar) and sampled embeddings; 3 024 file beginnings x bodies x endings (BOM, CR LF, lone "
      "CR, NUL, no final newline ...); sampled texts with up to 65 537 lines / 131 073 columns; each of the 128 7-bit characters between 10 x 12 "
      "contexts (before LF / CR LF / end / digit / letter, inside strings and comments, with further lines behind it) and every pair of 7-bit "
      "characters in 1/4 contexts. Every recorded Int / Float token carries its VALUE and the specification (SyltLexNum: decimal strings "
      "compared symbolically, i64 limit, double range and rounding boundaries) decides kind and value: digit runs around 2^k and 10^k x 10 "
      "variations x leading zeros x contexts, integer part x float tail x contexts at the limits of the double range, digit runs of up to 310 "
      "digits in every number form. Bounded-exhaustive, not a proof.",
      "Trusted: TLC, the SyltLex module as the reading of 'documented token set' (ASCII-only identifier, digit and blank classes), the recorder "
      "c17 (maps Token variants to kinds and every character outside the token alphabet to the ASCII stand-in of its Unicode class by a table "
      "that is cross-checked against std's predicates). Error-token extents are unconstrained. For the long texts only the window and sampled "
      "tokens of the periodic prefix are compared (positions still derived from the whole text). Number values are compared as strings (Int "
      "decimal, Float in the recorder's shortest round-trip form {:e}); a float's class (zero/finite/inf) is always decided, its exact value for "
      "<= 15 significant digits and exponents -300..300; a digit run that does not fit i64 is specified as ONE Error token of that extent. Two known findings (C17.U1, C17.U2: the [\\d] "
      "of the number regexes is Unicode-aware) are reported as KNOWN-FINDING.",
      "TLA+ lexer spec + TLC trace validation of recorded token streams (index-addressed universes, sharded)", "DESIGN.md 5.1, 8/C17; docs/C17.md")
