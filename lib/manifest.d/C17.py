# One entry per claimed property. `check(pid, category, text, note, technique, design_ref)`.
check("C17", "model_checking",
      "TLC model-checks the lexer specification SyltLex (tiling, maximal munch, text-derived positions, determinism up to error extents) "
      "over all texts of length <=3, then validates the token list the real tokenizer produces for every text of index-addressed universes "
      "(all strings of length <=4/5 over an 18-character alphabet, all 1- and 2-fragment and sampled 3-fragment concatenations of 105 lexical fragments, "
      "random longer texts) as a behaviour of that specification, evaluating the spec invariants in every state. Bounded-exhaustive, not a proof.",
      "Trusted: TLC, the SyltLex module as the reading of 'documented token set', the recorder c17 (maps Token variants to kinds). "
      "Non-ASCII characters are shown to TLC as '@' (character-for-character abstraction); characters outside the BMP and Unicode digits are not explored.",
      "TLA+ lexer spec + TLC trace validation of recorded token streams (index-addressed universes)", "DESIGN.md 5.1, 8/C17")
