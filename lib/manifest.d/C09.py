check("C09", "model_checking",
      "SyltScope (TLA+) states Sylt's lexical scoping as a scope-stack machine (enter/exit of functions, blocks, if/elif/else bodies, case arms "
      "with optional binding, loop bodies; declare - a non-function local after its initialiser, a local function before; use -> innermost match, "
      "else module global, else unresolved). MC_Scope runs the machine action by action over 12 binder skeletons (<= 6 renamable binders: "
      "parameters, block-/branch-/loop-locals, case bindings, nested and recursive functions, module globals) under every naming of the universe "
      "(all maps into a pool of 2 / 3 names, all-distinct, max-shadow, every single pair merged) and checks spec-level invariants and ASSUMEs "
      "(all-distinct and max-shadow are legal, max-shadow is minimal, legality by resolution = proper colouring of the name-free conflict relation, "
      "names are only compared, every planted out-of-scope use is unresolved and every in-scope one resolves to its binder, all position classes "
      "inhabited). Conformance, decided by TLC on the recorded compile results (Trace_Scope re-derives the universe and asserts coverage): (a) all "
      "legal namings of a skeleton are accepted with one Lua digest; (b) each of the ~285 (binder, slot) planted uses is accepted where the binder "
      "is visible and rejected (non-empty errors, nothing written, not by the parser) where it is not: before its declaration, in its own "
      "initialiser, after the block / if / elif / else body / case arm / case else / loop / function that declares it, in a sibling function; "
      "(c) the programs of SyltGen's pairwise-nesting universe (500 sampled in quick, all ~15 600 in thorough) rendered all-distinct and with a "
      "heavily shadowing naming computed by the specification (greedy colouring, legality asserted with the machine) compile to the same digest. "
      "Bounded-exhaustive over the stated universe, not a proof.",
      "Trusted: TLC, SyltScope as the reading of 'lexical', the printer's `naming` knob, FNV digest for byte identity. Same-frame redeclaration is "
      "left out of the legal namings (the property does not say which wins); type / field / variant / std names and `start` are not renamed; "
      "namespaces (`use`, K4) are outside the universe. Known finding F6 (if/elif/else bodies, case arms and case else do not close their scope) "
      "is matched by three signature families (out-of-scope accepted / renaming changes output on skeletons / on generated programs with a case "
      "template); every other position class, binder kind or template is unmasked.",
      "TLA+ scope-stack machine over binder skeletons x namings + planted out-of-scope uses; TLC validation of recorded compile results",
      "DESIGN.md 5.4, 8/C09")
