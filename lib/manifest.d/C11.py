check("C11", "model_checking",
      "SyltInit (TLA+) defines a program as a SET of top-level definitions: a global may be initialised whenever the dynamic needs of its "
      "initialiser are met (evaluating it with the strict reference semantics SyltSem neither reads nor assigns an uninitialised global), start() "
      "runs last. MC_Init lets TLC explore EVERY admissible initialisation order of every program of two families: dependency SHAPES (1-4 globals, 15 "
      "initialiser kinds: literal, read, arithmetic, function reading / assigning / op-assigning a global, call, closure-returning function and its call, "
      "enum value, blob literal, blob of g_j, field read, list of g_j; every target choice; mutable and constant globals; 11 495 programs) and syntactic "
      "POSITIONS (a function or initialiser whose only mention of a later-declared global sits at one child position of one construct: 50 positions - "
      "if/elif/else conditions and branches, case scrutinee/arms/else, loop condition/body, callee, arguments, prime/arrow calls, tuple/list/blob/variant "
      "components, index/field base, unary/binary/and/or operands, assignment rhs and TARGET, ret, block, closure, method, <=> - x 4 kinds of user; 180 "
      "programs), SELF-REFERENCE of a non-function initialiser at each of those positions (45 programs, must be rejected), and TYPE ORDER (17 shapes of "
      "blob / enum declarations that mention each other directly, in list / tuple / fn types, as generic arguments, in chains and cycles, and "
      "signature-only uses of later-declared types; each with a well-typed use and planted ill-typed uses that must be rejected in every order; "
      "well-typedness is decided by the TLA+ typing judgement TypeOk; 48 programs) under the "
      "invariants no-uninitialised-access, confluence, blocked-iff-cyclic, and classifies each program: confluent (one result), cyclic (no complete "
      "behaviour), non-confluent (excluded from the behavioural comparison, counted). The harness renders every permutation of the top-level "
      "statements (all NS! up to 120, else 120 seeded ones incl. reversed) and two-file splits (other.sy, `from .. use` and `use ..` with qualified "
      "names, permuted within and across files), compiles each with the real compiler and runs the Lua in minilua. Trace_Init (TLC) re-derives every "
      "program and its outcomes from the recorded id, asserts that the recorded variants cover what the specification requires and that the recorded "
      "id set is the case set, and judges: (1) accept/reject identical over all permutations, (2) every permutation of an accepted confluent program "
      "prints exactly the specified lines and ends as specified, (3) cyclic value dependencies rejected in every order with a non-empty error list "
      "and zero Lua bytes.",
      "Trusted: TLC, SyltSem/SyltValues (shared with C01), the printer, minilua, the factoradic permutation numbering of the harness (self-checked to "
      "be a bijection). Quick samples the 4-global programs (1/12 + landmarks); thorough is exhaustive over the universe. Programs the compiler rejects "
      "in every order although the specification finds an admissible order are counted (no completeness is promised), not reported. Known findings "
      "F8/F8b/F23 are fixed in /repo; F24 (cyclically mentioning type declarations leave a field unchecked, order-dependent for mutual recursion) is reported as KNOWN-FINDING.",
      "TLA+ order-nondeterministic initialisation semantics explored by TLC + replay of all textual permutations into the compiler + TLC validation of the recorded results",
      "DESIGN.md 5.7, 8/C11; docs/C11.md")
