check("C15", "model_checking",
      "TLC model-checks the diagnostics specification SyltDiag (well-formed index-addressed universe of planted local errors; "
      "text-derived line index agrees with a running newline counter on every prefix of the spec's sample texts), then validates, "
      "for every applicable case of error kind (14) x file (main / imported sibling / imported from sub-folder) x position "
      "(first/middle/last top-level statement, function body, if-branch) x preceding text shape (none, ASCII/non-ASCII comment, "
      "non-ASCII string, string literal spanning 2 and 3 lines, blank lines, CRLF, tabs) and for seeded random stacked variations, "
      "that the FIRST error the real compiler returns names the file and the line TLC derives from the recorded text and the "
      "planted construct's offset. Bounded-exhaustive over the stated universe, not a proof.",
      "Trusted: TLC, SyltDiag/SyltLex!LineOf as the reading of 'the line where the construct is written' (for duplicate names: the "
      "textually later definition site), the recorder c15 (renders cases, records file/line of the first error; TLC re-checks the "
      "case fields, the marker and the preceding shape against the spec). Planted constructs are single-line; non-ASCII characters "
      "are shown to TLC as '@'. Columns and message texts are not observed.",
      "TLA+ diagnostics spec + TLC trace validation of recorded first-error locations (index-addressed universe)",
      "DESIGN.md 5.1, 8/C15; docs/C15.md")
