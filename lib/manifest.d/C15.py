check("C15", "model_checking",
      "TLC model-checks the diagnostics specification SyltDiag (well-formed index-addressed universe of planted local errors; "
      "text-derived line index agrees with a running newline counter on every prefix of the spec's sample texts), then validates, "
      "for every applicable case of error kind (31: syntax, unresolved, assignment to constants, operator/argument/annotation "
      "mismatch, break outside a loop, conflict marker; duplicate names for every ordered pair of introductions definition / "
      "`use` / `from .. use`, import/import from two different modules included; and 13 multi-line statements whose offending "
      "ELEMENT stands on a later line than the statement's first line - mismatching argument of a paren / prime / nested call, "
      "unresolved name as argument / list / tuple / blob-field element, 2nd / 3rd / last name missing from a multi-line "
      "`from .. use ( .. )` list, operator mismatch inside a multi-line parenthesised expression / condition, assignment to a "
      "constant inside a block lambda argument) x file (main / imported sibling / imported from "
      "sub-folder) x position (first/middle/last top-level statement, function body, if-branch) x preceding text shape (39: none, "
      "ASCII/non-ASCII comment, non-ASCII string, blank lines, CRLF, tabs, and string literals whose content spans lines in every "
      "way - text on the last line, ending with one or two newlines, beginning with a newline, only newlines, a blank line inside, "
      "CRLF inside, ending with CRLF - as initialiser, call argument and expression statement, directly after a comment, directly "
      "before a trailing comment, with non-ASCII text) x layout of the modules a colliding name is imported from (its own "
      "definition on an earlier / the same / a later line number than the colliding import statement), and for seeded random "
      "stacked variations, that the FIRST error the real compiler returns names the file and the line TLC derives from the "
      "recorded text and the planted construct's offset. Bounded-exhaustive over the stated universe (18 252 cases), not a proof.",
      "Trusted: TLC, SyltDiag/SyltLex!LineOf as the reading of 'the line where the construct is written' (for duplicate names: the "
      "textually later of the two introductions in the file that holds both - for import/import the second import statement - "
      "wherever the imported names are defined), the recorder c15 (renders cases, records file/line of the first error; TLC "
      "re-checks the case fields, the marker, the preceding shape and the layout of the imported modules against the spec). "
      "The offending element of every planted form is written on one line (for multi-line statements the element, not the "
      "statement, is 'the construct'; forms whose offending construct itself spans lines - blob-literal field mismatch, operands "
      "or annotation and value on different lines - are kept out, see docs/C15.md); non-ASCII characters are shown to TLC as '@'. "
      "Columns and message texts are not observed.",
      "TLA+ diagnostics spec + TLC trace validation of recorded first-error locations (index-addressed universe)",
      "DESIGN.md 5.1, 8/C15; docs/C15.md")
