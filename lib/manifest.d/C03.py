check("C03", "model_checking",
      "SyltMismatch (TLA+) states the property's list of definite mismatches as a table (planted form, the well-typed base it replaces, the typing "
      "rule it violates; operator and list forms are decided by the spec's own operator table) and the contexts a mismatch can sit in (global "
      "initialiser, function/closure/method body, if/elif/else branch and condition, case arm/else, loop body/condition, call argument, blob field, "
      "list/tuple element, unused expression statement, operand, return expression, function passed as argument, ...). SyltArrival adds the dimension "
      "HOW THE MISMATCHING OPERANDS ARRIVE: 60 cores (the table's kinds over operand slots with a planted and a base type vector, plus cores whose "
      "rule is a generic signature: user functions linking positions by *A - also first mentioned inside a nested function type and reused afterwards "
      "and vice versa, one or two levels deep - and std map/filter/fold/push/set/contains/for_each) x 38 arrival forms (literal, constant/mutable "
      "local, global, blob field, tuple component, list element through std, case binding, captured variable, result of a user function / generic "
      "identity, parameter of an annotated function, parameter of an UN-ANNOTATED function called with literals / variables / call results - one "
      "shared function or two nested closures, immediate / local / global); definiteness is decided by the spec's core typing table over the explicit "
      "types the forms deliver. TLC checks the universes' sanity, emits every table mismatch in every fitting context chain of length <= 2 (quick) / 3 "
      "(thorough) and every core x form vector in every top alone, the plainest statement positions and a seeded sample of the chains of length 2 "
      "(quick) / all chains <= 2 and every ordered pair of forms (thorough) as a base and a planted program, and validates the compile results recorded "
      "from the real compiler: the records must be exactly the spec's universe, the base accepted, the planted program Err with >= 1 error and zero bytes "
      "of Lua. Bounded-exhaustive over that product, not a proof. An un-annotated function used at two incompatible types by two call sites is accepted "
      "by design (per-call instantiation) and is not planted.",
      "Trusted: TLC, the tables MM / Cores and the core typing table as the reading of 'definite type mismatch' (explicit types only; no type inference "
      "in the spec), the printer (guarded: base must compile for every kind, core, form and derived mismatch; planted text must differ), "
      "vharness::project::compile_opts as the observation of errors and bytes written. Known finding C03.H1 (mismatch between an un-annotated parameter "
      "and an un-annotated parameter of a closure nested in the same function is accepted).",
      "TLA+ mismatch x arrival-form x context-chain universe + TLC validation of recorded compile results", "DESIGN.md 5.5, 8/C03; docs/C03.md")
