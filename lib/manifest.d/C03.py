check("C03", "model_checking",
      "SyltMismatch (TLA+) states the property's list of definite mismatches as a table (planted form, the well-typed base it replaces, the typing "
      "rule it violates; operator and list forms are decided by the spec's own operator table) and the contexts a mismatch can sit in (global "
      "initialiser, function/closure/method body, if/elif/else branch and condition, case arm/else, loop body/condition, call argument, blob field, "
      "list/tuple element, unused expression statement, operand, return expression, function passed as argument, ...). TLC checks the universe's "
      "sanity (every type-compatible context x mismatch cell inhabited, planted # base), emits every mismatch in every fitting context chain of "
      "length <= 2 (quick) / 3 (thorough) as a base and a planted program, and then validates the compile results recorded from the real compiler: "
      "the records must be exactly the spec's universe, the base accepted, the planted program Err with >= 1 error and zero bytes of Lua. "
      "Bounded-exhaustive over that product, not a proof.",
      "Trusted: TLC, the table MM as the reading of 'definite type mismatch' (literals and prelude functions only; no type inference in the spec), "
      "the printer (guarded: base must compile, planted text must differ), vharness::project::compile_opts as the observation of errors and bytes written.",
      "TLA+ mismatch x context-chain universe + TLC validation of recorded compile results", "DESIGN.md 5.5, 8/C03")
