check("C04", "model_checking",
      "SyltPurity (TLA+) defines the universe of cases (forbidden construct x form x placement path): part A assignment to a constant "
      "(`::` local / global, parameter, case binding, imported constant under an alias; = += -= *= /= and field forms), part B every construct "
      "forbidden inside `pu` (assignment to local / outer / global / field, `:=`, read of a mutable outer local / global, call of a user fn, of an "
      "fn-typed parameter, of impure std) under nesting paths of length <= 3 over 12 placement elements (block, if / else branch, loop body and condition, "
      "case arm, nested fn / pu closure, blob method, call argument, if-expression, immediately-invoked pu), part C an impure function arriving in a "
      "`pu`-typed position (variable annotation, parameter, return, blob field, list / tuple element, assignment, push) directly, through aliases, "
      "parameters and returned values, part D (round 3) the constructs of part B crossed with the kind of value involved and the syntactic "
      "position of the name / value: reads of a mutable global / outer local holding an int, list, blob, tuple, pure or impure function as alias, "
      "argument, arrow-call receiver, tuple / list element, operand, receiver of a field read / pu-field call / list.get, index base and - for pure "
      "functions - callee of `f(x)`, `f' x`, `x -> f()`, `x -> f'`, `f(f(x))`; `:=` / annotated declarations of 12 kinds of value including pu / fn "
      "function literals and function names; assignments per value kind and target shape (variable, +=, field, function-typed field, tuple index); "
      "calls of 8 impure callee shapes in the 4 call surfaces; all under nesting paths of length <= 2 (180 cells, 14 436 cases). Each case denotes a planted program and one or two base programs differing only in the forbidden thing. TLC checks "
      "the universe (every cell inhabited, planted # base, ids injective), emits the tier's share, and validates the recorded compile results: the trace "
      "must cover exactly the share, every base accepted, the planted program rejected. Bounded-exhaustive over that universe, not a proof.",
      "Trusted: TLC, SyltPurity as the reading of the property's clauses, the printer (guarded: >= 95 % of bases accepted overall, per part and per cell), "
      "vharness::project::compile as the observation of acceptance. Known finding K3 (impure function through an `fn`-annotated parameter) is reported as KNOWN-FINDING.",
      "TLA+ universe of planted purity / constancy violations x placement paths + TLC validation of recorded compile results", "DESIGN.md 5.5, 8/C04")
