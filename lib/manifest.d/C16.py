# One entry per claimed property. `check(pid, category, text, note, technique, design_ref)`.
check("C16", "exploration",
      "TLC model-checks the specification SyltDeterminism (state: seen[input] = set of results, hist; action Run(input, process, run, result); "
      "invariant Determinism: no input ever has two results) on its own - it holds for every implementation that is a function of its input and TLC "
      "finds the violation for a free environment - and checks the well-formedness of the input universe Case(1..6480) defined in the same module "
      "(15 families: accepted programs with blobs/enums of 2-8 fields/variants in 4 declaration orders, many globals, 2-4 imported modules; rejected "
      "programs with k=2..4 independent planted errors in different statements, different fields of one blob declaration or literal, different enum "
      "variants, different files, duplicate definitions, unresolved names, undeclared generics, missing imports). The recorder compiles every input 9 "
      "times through sylt::compile_with_reader_to_writer - 6x in one process interleaved with all other inputs (fresh HashMap keys and a different "
      "number of earlier compilations each time), 3x in separate processes with different HOME/LANG/TZ/RUST_BACKTRACE/cwd/thread count - and records "
      "the digest of the Lua bytes or of the complete rendered error list; TLC (Trace_Determinism) re-derives each case from its index, replays the "
      "runs as Run actions with the spec invariants evaluated in every state, and rejects every input whose runs disagree. quick: 40 cases per "
      "family (600) + the 344 corpus files of /repo/tests; thorough: the whole universe + corpus. Hash seeds are sampled by repetition, not enumerated. "
      "The CONTEXT of a run is a second specification, SyltDetContext: state ph = the history of the compiling process, action RunFrom(history, input, "
      "configuration, result), invariants HistoryIndependence (result(P after any history) = result(P fresh)) and SpellingIndependence; TLC proves them for "
      "a function-of-input implementation and must find the violation for a cache-, a counter- and a spelling-dependent one. Four more universes are defined "
      "there and validated by Trace_DetContext, which re-derives every recorded context: hist - a library of 34 programs (1-3 files, 0-4 std imports, globals "
      "named like preamble imports, syntax/resolution/type/import errors inside ( ) [ ] { } at depth 0-6, with and without std), each fresh in its own process, "
      "P,P,P, after each of 11 warm-up programs W, after W,W' and as W,P,W',P (1190 processes); long - 6 histories of 400/2500 (thorough 1200/6000) "
      "compilations in one thread mixing accepted and rejected programs; path - 64 projects on disk (one module imported both relative and rooted, sub-folders, "
      "exports.sy, 3 error kinds) x 10 spellings of the main file and working directories (bare name, ./, .., absolute, //), one process each through sylt's own "
      "file reader, errors compared with file names normalised; seed - 1008 declarations with a member written 2-3 times (blob fields, enum variants, imports, "
      "parameters, case arms, literal fields, globals), 256 (thorough 512) fresh hash keys each (quick: 126 inputs).",
      "Trusted: TLC, the SyltDeterminism module, the recorder c16 (FNV-64 digests stand for the bytes; rendering of the cases from the case fields). "
      "An order dependence that shows with probability p per run escapes an input of the first universe with probability about (1-p)^8, an input of the seed "
      "universe with (1-p)^N, N = 256/512 (p = 0.78 %: 13 % / 1.8 % per input, < 1e-10 per family). On-disk projects go through "
      "sylt::compile_with_reader_to_writer + sylt::read_file in a child process (not the binary's argument parsing). Negative controls: free-environment, "
      "cache, counter and spelling spec models; recorders that salt one run (all five trace kinds).",
      "TLA+ determinism spec with explicit process history and configuration + TLC trace validation of repeated, history-dependent, long-running, "
      "differently-spelled and re-seeded compilations (index-addressed universes)",
      "DESIGN.md 5.11, 8/C16; docs/C16.md")
