# One entry per claimed property. `check(pid, category, text, note, technique, design_ref)`.
check("C16", "exploration",
      "TLC model-checks the specification SyltDeterminism (state: seen[input] = set of results, hist; action Run(input, process, run, result); "
      "invariant Determinism: no input ever has two results) on its own - it holds for every implementation that is a function of its input and TLC "
      "finds the violation for a free environment - and checks the well-formedness of the input universe Case(1..6480) defined in the same module "
      "(15 families: accepted programs with blobs/enums of 2-8 fields/variants in 4 declaration orders, many globals, 2-4 imported modules; rejected "
      "programs with k=2..4 independent planted errors in different statements, different fields of one blob declaration or literal, different enum "
      "variants, different files, duplicate definitions, unresolved names, undeclared generics, missing imports). The recorder compiles every input 9 "
      "times through sylt::compile_with_reader_to_writer - 6x in one process interleaved with all other inputs (fresh HashMap keys and a different "
      "number of earlier compilations each time), 3x in separate processes with different HOME/LANG/TZ/RUST_BACKTRACE/cwd/thread count - and records "
      "the digest of the Lua bytes or of the complete rendered error list; TLC (Trace_Determinism) re-derives each case from its index, replays the "
      "runs as Run actions with the spec invariants evaluated in every state, and rejects every input whose runs disagree. quick: 40 cases per "
      "family (600) + the 344 corpus files of /repo/tests; thorough: the whole universe + corpus. Hash seeds are sampled by repetition, not enumerated.",
      "Trusted: TLC, the SyltDeterminism module, the recorder c16 (FNV-64 digests stand for the bytes; rendering of the cases from the case fields). "
      "An order dependence that shows with probability p per run escapes an input with probability about (1-p)^8. In-memory projects are not on disk, "
      "so the rendered error text never contains source excerpts. Negative controls: free-environment spec model; recorder that salts one run.",
      "TLA+ determinism spec + TLC trace validation of repeated in-process and cross-process compilations (index-addressed universe)",
      "DESIGN.md 5.11, 8/C16; docs/C16.md")
