check("C14", "model_checking",
      "SyltSurface (TLA+) defines the surface sites of a core program (call form paren/prime/arrow/arrow-prime, `ret e` vs trailing expression, "
      "`loop do` vs `loop true do`, 0-2 redundant parentheses per expression, comment and blank-line points per statement, and inside every bracket-like construct - list, tuple, "
      "paren and prime argument lists, grouping parentheses, blob literal, blob/enum declaration, `from .. use (..)` list, multi-line conditions, function-literal signatures and the end of the signature line - "
      "a line break at each gap with every interleaving of comment line / blank line / end-of-line comment of length <= 3, indentation width or tab), when a choice is legal (from the token that follows the call: a prime call "
      "swallows everything up to a closer, the right side of `->` must be a whole call, `->` needs a primary on its left and a first argument; every callee takes both forms, a prime "
      "after a non-name callee only at the lowest precedence level) and a "
      "token-level model with a reference parser that follows sylt-parser. TLC checks Desugar(Parse(Render(core, choice))) = core for every legal and "
      "'other tree or syntax error' for every illegal raw choice of the call skeletons, and the real parser's tree of every such rendering is compared "
      "with the reference parser's by TLC (so the legality rule is validated, in both directions, against the real grammar). TLC then enumerates the "
      "variant universe of every program (19 skeletons, the shared prelude, SyltGen's pairwise-nesting universe): all legal choice functions "
      "over <= 6 sugar sites, every site toggled, uniform/strided/mixed patterns; every variant is compiled and TLC validates the recorded results "
      "(coverage of the re-derived universe, legality of every recorded choice, accepted, same parser tree, same Lua bytes; the `<!>` line number is "
      "masked only for variants that move lines). Bounded: quick samples every 64th nesting pair; thorough takes all ~3000 expressions.",
      "Trusted: TLC, SyltSurface's site/legality definitions, surface.rs (renderer; strict: a choice it cannot honour is a tool error; the plain "
      "rendering is checked to be byte-identical with printer.rs), astdump, FNV digests. Not offered (said in the evidence): `->` where callee and first "
      "argument both contain a function literal, parentheses inside assignment targets, line breaks outside newline-skipping constructs. "
      "Open known finding: parentheses around a blob field's function literal lose `self`.",
      "TLA+ sugar/layout spec with token-level reference parser; TLC-enumerated variants replayed into parser and compiler; TLC validation of the records",
      "DESIGN.md 5.3, 8/C14")
