check("C10", "model_checking",
      "Two bindings. (a) The recursion/closure-dense programs of SyltGen's universe (expression live across a recursive call on either side, closures "
      "created per loop iteration, blob methods, counters/shared captured variables/case bindings captured by closures/higher-order recursion), "
      "SyltOrder's evaluation-order and re-entrancy universes, and three further products run by spec/MC_Reent.tla - CHAINS (a chain of field / index / "
      "method links, 13 kinds x local/global root, held across a sibling call that changes the chain at one of its links), CAPTURE BY REFERENCE "
      "(SyltCapture: one expression reads x and creates a getter and a setter closure over x - tuple elements, call arguments, list elements, blob "
      "fields; x local / global / upvalue / per loop iteration / per recursive activation / block-local; later changes by the creator and by the "
      "sibling closure must be visible through every closure) and LIBRARY RE-ENTRANCY (SyltLibReent: filter / map / fold / find / for_each, the set / "
      "dict / maybe equivalents, whose callbacks call the library again - get / last / len / contains / pop / dict.get / set.contains directly or "
      "from the callback of a nested higher-order call, the same function nested included) - are executed by the reference semantics SyltSem in "
      "TLC, and the compiled program's trace must equal the specified one. (b) SyltActivation, a "
      "trace-only TLA+ spec over the interpreter's activation event log (Enter/Exit/GlobalWrite/GlobalRead/Closure), is validated by TLC on every "
      "run: the NoInterference invariant (no activation reads a global temporary last written by another activation) is evaluated at every event, "
      "so a shared temporary is caught even when the clobbered value happens not to reach a print. SyltActivation is also model-checked on its own "
      "(the invariant is violable in the free model).",
      "Trusted: TLC, SyltSem, SyltActivation, minilua and the faithfulness of its event log (only globals named V<digits> are logged: a temporary "
      "shared inside the Lua preamble is seen by binding (a) only), the printer.",
      "TLA+ reference semantics + TLC trace validation of the Lua interpreter's activation event log (NoInterference)", "DESIGN.md 5.10, 8/C10")
