check("C10", "model_checking",
      "Two bindings. (a) The recursion/closure-dense programs of SyltGen's universe (expression live across a recursive call on either side, closures "
      "created per loop iteration, blob methods, counters/shared captured variables/case bindings captured by closures/higher-order recursion) are "
      "executed by the reference semantics SyltSem in TLC, and the compiled program's trace must equal the specified one. (b) SyltActivation, a "
      "trace-only TLA+ spec over the interpreter's activation event log (Enter/Exit/GlobalWrite/GlobalRead/Closure), is validated by TLC on every "
      "run: the NoInterference invariant (no activation reads a global temporary last written by another activation) is evaluated at every event, "
      "so a shared temporary is caught even when the clobbered value happens not to reach a print. SyltActivation is also model-checked on its own "
      "(the invariant is violable in the free model).",
      "Trusted: TLC, SyltSem, SyltActivation, minilua and the faithfulness of its event log (only globals named V<digits> are logged), the printer.",
      "TLA+ reference semantics + TLC trace validation of the Lua interpreter's activation event log (NoInterference)", "DESIGN.md 5.10, 8/C10")
