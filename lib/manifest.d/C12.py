check("C12", "model_checking",
      "TLC model-checks the module specification SyltModules: PathToFile (import path text -> file: relative to the importing "
      "file, leading / = project root, trailing / = that folder's exports.sy, bare / = the root's exports.sy, implicit namespace "
      "= last path component) is total on the candidate texts of a 6-file tree and agrees with every documented way of naming a "
      "file; for every configuration = base program (4: constants and calling functions, one shared mutable global, a blob and an "
      "enum type used across files, an initialiser with an effect) x placement of its 3-4 non-start globals over the tree (all "
      "3744, up to 3 files besides main.sy, so cycles through main.sy and diamonds occur) x variant (per cross-file reference "
      "use / use-as / from / from-as with offset and stride, relative / rooted / folder / bare-/ path, back-imports closing cycles, "
      "same-named decoy globals in third files, three `from` layouts) the invariant ConfigOK holds (visible names unambiguous, every "
      "reference as written resolves to the intended global of the intended file, no negative twin's reference resolves, each file "
      "once in the load sequence). The expected behaviour of each program is computed by the dynamic semantics SyltSem. Every "
      "configuration is then written as an in-memory project, compiled by the real compiler with a counting reader, run in minilua, "
      "and TLC (Trace_Modules) re-derives each configuration from its address, asserts exact coverage of the universe and judges "
      "each record: accepted, prints and status equal the specification's, each file of the load sequence read exactly once and no "
      "other, every negative twin (import removed / unqualified / alias bypassed / wrong or unknown namespace) rejected. "
      "Bounded-exhaustive over the stated universe (quick: 1 of 32 variants per placement, thorough: 8), not a proof.",
      "Trusted: TLC, SyltSem as the meaning of a base program, SyltModules as the reading of the guide's Imports chapter, the printer "
      "and the recorder c12 (writes the specification's import lines verbatim; a syntactically wrong twin is a tool error), minilua "
      "in place of Lua 5.3. Out of the universe: re-export (from-import or namespace access of a name the other file only imported), "
      "`use /` without alias, `.sy` suffixes in paths. No -coverage (SyltSem's recursion exhausts the heap under cost "
      "instrumentation): vacuity is guarded by counting styles, path forms, twin kinds, cycles, diamonds, decoys among the accepted "
      "and conforming configurations.",
      "TLA+ module/import spec + SyltSem reference run + replay into compiler and minilua + TLC trace validation (index-addressed universe)",
      "DESIGN.md 5.8, 8/C12; docs/C12.md")
