check("C02", "model_checking",
      "SyltSound (TLA+) defines the universe of almost-well-typed programs: a menu of 24 perturbation kinds (literal of another type, operator of "
      "another class, argument dropped/added, declaration moved into an if/else/elif branch, case arm, loop body or block with the use left after it, "
      "use before declaration, call of a non-function, missing/misspelt field, function-typed parameter called at a second type with and without "
      "generic annotation, branches of different types or without a value, void as value, variant payloads, list element types, field / captured "
      "variable assigned another type, textual order of globals whose initialisers call functions using other globals, case bindings misused or used "
      "after the case, annotation / return type contradicting the value, tuple index out of range, non-bool condition, function that can fall off its "
      "end, a blob / enum / tuple value of a different but similar user type (prefix / subset / superset / same names other types; the similar types are "
      "declared in every program) at initialisers, assignments, arguments, returns, fields, list elements and case scrutinees, an ill-typed operand "
      "reaching an operator / field read / index through an un-annotated parameter from a literal, variable, alias chain, field, call result or tuple "
      "element, a name used outside the region where it is bound: self in every non-method position of a blob literal, case binding in a sibling arm, "
      "loop-body local in the condition, parameter / inner local outside its function) applied at EVERY applicable node (tree engine in TLA+: pre-order sites, node replacement) of well-typed bases: 17 dedicated programs, every "
      "SyltGen template in its harness contexts, and (thorough) a seeded shard of the pairwise nesting. TLC enumerates (base, site, alternative) and "
      "emits the programs; each is compiled by the real compiler with std, only the accepted ones are run in minilua under step and call-depth "
      "budgets with the global-access log and prints recorded. TLC (Trace_Sound) then re-derives every case from its id, validates the recorded "
      "events against SyltSound's outcome protocol (Start, CompileErr|CompileOk, global writes/reads, prints, one terminal in {Done, AssertFailed, "
      "Unreachable, ResourceExhausted, NotLoadable}; a dynamic type error, any other runtime error and a read of a never-written global are not "
      "behaviours) and runs the accepted program in the strict reference semantics SyltSem with top-level initialisation in dependency order "
      "(stuck:<why> is the spec-level dynamic type error, also where Lua is permissive: arity, missing field, out-of-scope variable whose slot holds "
      "a value; nil printed where the reference run prints a value). The protocol is also model-checked on its own (SndSound holds; violable once a "
      "DynTypeError terminal is admitted). Bounded: the universe is the menu x sites x bases, exhaustive for the dedicated and single-template "
      "families in the thorough tier, sampled (seeded shard) for the pairwise nesting.",
      "Trusted: TLC, SyltSem/SyltValues as the reading of the dynamic semantics, the AST printer, minilua as stand-in for Lua 5.3 and its error "
      "classification (reference-manual message wording) and global-access log. Soundness is checked on perturbations of the listed bases only; "
      "programs outside SyltSem's builtin domain or numeric model are judged by the Lua-level protocol alone. Several genuine checker holes are "
      "registered as known findings with signatures specific to failure class, perturbation kind/variant and base.",
      "TLA+ perturbation universe enumerated by TLC; replay into compiler + Lua interpreter; TLC trace validation against an outcome protocol and a strict reference semantics",
      "DESIGN.md 5.5, 5.6, 8/C02; docs/C02.md")
