check("C06", "exploration",
      "The load protocol is a TLA+ state machine (SyltLoad = the outcome protocol SyltPipeline + one action LoadOk; a successful run may only Finish after its "
      "chunk was loaded; there is no action for a loader refusal, so such a run is not a behaviour). TLC model-checks it on its own (invariants, no dead end, "
      "`compiled ~> loaded`, every fair behaviour completes, all actions covered). SyltCorners (TLA+) defines the lexical-corner universe as an index-addressed "
      "sequence of 2232 (thorough 5257) complete Sylt projects written out as text by the specification: spelling class x emission site of identifiers (every Lua reserved word "
      "that is a legal Sylt name - derived in TLA+ as Lua's 22 reserved words minus Sylt's token table -, underscores, `__index`, `_ENV`, digits, 300 characters; "
      "27 sites: blob / externblob / generic fields declared, read, written, op-assigned, nested, through self, called; parameters, locals, constants, globals, "
      "function names, captures, case bindings, loop variables, externals, namespaces and import aliases; capitalised spellings for variants, blob and enum names), "
      "42 string contents (backslash runs, every escape shape, raw LF / CR / NUL / TAB, non-ASCII, long brackets, comments, 5000 characters) x 16 sites (incl. the "
      "--require argument), 24 numeric literals (max i64, overflow, `1.`, `.5`, exponents to inf / denormal / underflow, 17-30 digits, leading zeros) x 9 sites, "
      "63 expression forms as a statement whose value is unused x 10 positions (thorough: + all 3025 ordered pairs of operand forms inside an unused tuple), 27 program shapes x sizes around Lua's static limits (N locals / calls / reads / "
      "parameters / globals / closures in {50,150,199,201,260}, elif chains and case arms to 210, operator chains and nesting to 260, upvalues to 300), and control "
      "transfers (break / continue / ret / <!>) x placement (enclosing construct, followed by another statement or not). TLC checks the universe (ids and texts unique, every cell inhabited, the spelling occurs in the text, sizes straddle the "
      "limits) and emits every case; the recorder compiles each through the public API and hands every emitted chunk to minilua's loader; TLC (Trace_Load) "
      "re-derives every case from its index, requires the trace to cover the universe, and validates every recorded event list as a complete behaviour with all "
      "invariants evaluated in every state - one REJECT per run whose chunk the loader refuses. The same validation runs over every file of /repo/tests and over "
      "the 15.6 k programs of the C01 universe (SyltGen; seeded sample of 2000 in quick). Exploration level: the universe is a finite product chosen in the "
      "specification, not all programs.",
      "No Lua interpreter exists in the sandbox: 'the Lua interpreter loads the chunk' means minilua's loader accepts it (full Lua 5.3 lexer and grammar, 200 locals, "
      "255 upvalues, 200 C levels, break / goto resolution); chunks are loaded, never run. Trusted: TLC, SyltLoad / SyltCorners / Trace_Load, the recorder c06 "
      "(placeholder substitution, mapping of Ok / Err / panic and of the loader's answer to events, classification of refusals by Lua's fixed wording), minilua's "
      "loader. Rejected programs and compiler panics are counted, not judged. Nested if-statements deeper than 10 are left out (compile time is exponential in the "
      "depth - a totality problem). Known findings on the pinned tree: F3, F11 (fields, externals, strings, require argument), F21 (statement after ret), K1 (locals, nesting, upvalues).",
      "TLA+ load-protocol spec + TLA+-defined lexical-corner universe emitted by TLC + TLC trace validation of recorded compile/load runs (lexical universe, corpus, C01 universe)",
      "DESIGN.md 5.11, 6.3, 8/C06")
