check("C05", "model_checking",
      "SyltShapes (TLA+) defines the universe of shape-rule violations: for every blob / enum / externblob declaration over field / variant sets of "
      "size 0-3 from a small name pool (generic or not) and tuple lengths 1-3, every violation kind (missing / unknown literal field, unknown field "
      "read / written directly, through a variable, an annotated, an uncalled and an unannotated parameter, unknown variant constructed / matched, "
      "non-total case without else, constant index = length / length+1, tuple length mismatch in every operator, definition, assignment, argument, "
      "list and return, externblob literal, break / continue outside a loop or inside a closure / named function / blob method / closure argument "
      "that is itself inside a loop) as an accepted base snippet plus the planted variant, placed in 11 contexts (start, helper, global initialiser, "
      "closure, both if branches, case arm, case else, loop body, blob method), and the entry-point programs (no start, start only in a used file, "
      "only local, wrong arity / return / not a function; single- and two-file projects). TLC checks the universe (cells inhabited, planted # base, "
      "ids unique), emits every case, and validates the recorded observations: base accepted and its Lua loads in minilua, planted rejected after "
      "the parser; with FULL=1 TLC also requires the trace to cover exactly the universe. Bounded-exhaustive over the stated universe, not a proof.",
      "Trusted: TLC, SyltShapes as the reading of the nine clauses, the printer, minilua's loader as stand-in for Lua 5.3's. "
      "`from other use start` and a `pu` start are not in the rejected set (the latter is an accepted control). Declarations inside functions are C07's.",
      "TLA+ universe of planted shape violations + TLC validation of recorded compile/load results", "DESIGN.md 5.5, 8/C05")
