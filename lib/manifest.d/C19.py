check("C19", "model_checking",
      "SyltComposite (TLA+) defines value expressions of 32 types (ints, floats, strings, bools, tuples, lists, blobs, enum values, nesting depth <= 2, "
      "plus 7 depth-3 types in thorough), index-addressed, and every ordered pair of equal type; the expected result of every operator the property "
      "names for the type (== != on everything, < <= > >= on numbers, strings and tuples of them, + - * / on numeric tuples, + on strings and tuples "
      "with strings, tuple / number, unary minus) is computed by the dynamic semantics (SyltSem!ApplyBin = StructEq / Cmp3 / Arith / Negate). TLC runs one "
      "behaviour per batch and checks the invariant NoLawViolated on the same values: == total, reflexive (second evaluation and same object), symmetric, "
      "!= complements ==, distinct literals differ, order total, a<=b iff a<b or a==b, a>=b iff a>b or a==b, trichotomy, > and >= are flipped < and <=, "
      "== and < transitive / < irreflexive and respects == on all triples of the types with <= 30 values, tuples: == component-wise, < lexicographic, "
      "+ - * / component-wise, negation involutive / additive inverse / component-wise, tuple / number component-wise, == symmetric across 38 "
      "mixed-provenance pairs (push/pop/map/filter/field/index/call/computed payloads/library Maybe). HISTORIES (operators are functions of their "
      "operands): every triple of values of 13 types (list, tuple, blob, enum value, list in tuple / blob / list / enum payload, tuple in list / tuple, "
      "blob in blob / list) bound to three variables x 21 templates of 3 applications over the same objects (same object left / right / repeated / "
      "flipped / inside a fresh tuple or list), expected values threaded through one state, laws: step k = the same application alone = on fresh values. "
      "Every batch is replayed as a Sylt program through "
      "the real compiler and minilua; printed line i is compared with the rendering of the i-th expected value (2.0 = 2 on both sides). "
      "quick: strided pairs + diagonals + strided history triples (58 459 applications, 4 941 histories); thorough: all pairs and all history triples "
      "(258 656 applications, 41 076 histories) + 134 172 sampled depth-3 applications.",
      "Trusted: TLC, SyltValues/SyltSem as the reading of 'structural', the printer (AST -> Sylt text), render_value (expected value -> text), minilua as "
      "stand-in for Lua 5.3. Bounded: leaves from 2-4 values per scalar type, lists of length <= 3, depth <= 2 exhaustively and depth 3 sampled; "
      "transitivity only on types with <= 30 values; results outside the dyadic model (inexact quotients, division by zero, negative zero) are dropped; "
      "strings over {a, b}. Rejected combinations are counted as not_exercisable (0 on the current tree); vacuity guards demand every (operator, kind) "
      "cell of the statement, every history template and shape judged, boolean cells with both outcomes. Histories are 3 steps over 3 objects; longer or "
      "cross-function state is out of reach. (C19.1, `+` on tuples with a string component, was found by this check and is repaired in /repo.)",
      "TLA+ value universe with spec-level algebraic laws as a TLC invariant, expected values emitted per behaviour, replay into compiler + Lua interpreter; "
      "negative controls: corrupted expectations (flat and inside histories), 16 mutations of the emitted runtime (5 of them stateful, visible to histories "
      "only), 3 faults planted in the specification's operators",
      "DESIGN.md 4 (P1), 5.6, 7, 8/C19")
