#!/usr/bin/env python3
"""Regenerates MANIFEST.json from the table below (single source of truth for the manifest)."""
import json, os
ROOT = os.path.dirname(os.path.dirname(os.path.abspath(__file__)))

CHECKS = {}
NOT_YET = {}

def check(pid, category, text, note, technique, design_ref, thorough=True):
    CHECKS[pid] = {
        "property_id": pid,
        "quick_cmd": "./check %s --tier quick" % pid,
        **({"thorough_cmd": "./check %s --tier thorough" % pid} if thorough else {}),
        "evidence_file": "/verif/evidence/%s.json" % pid,
        "replay_cmd_template": "./check %s --replay {path}" % pid,
        "engine": "tlc+vharness",
        "level_claimed": {"category": category, "text": text, "design_ref": design_ref},
        "level_note": note,
        "technique": technique,
    }

# Only checks the coordinator has reviewed and seen pass on the unchanged tree are claimed: lib/enabled.txt lists them.
ENABLED = set(open(os.path.join(ROOT, "lib", "enabled.txt")).read().split())
for _f in sorted(os.listdir(os.path.join(ROOT, "lib", "manifest.d"))):
    if _f.endswith(".py") and _f[:-3] in ENABLED:
        exec(open(os.path.join(ROOT, "lib", "manifest.d", _f)).read())

props = [json.loads(l)["id"] for l in open(os.path.join(ROOT, "properties.jsonl"))]
manifest = {
    "version": 1,
    "setup_cmd": "cd /verif && ./check --setup",
    "hooks": {
        "guard": "sylt_verif",
        "enable": "rustc cfg: RUSTFLAGS='--cfg sylt_verif' when building the harness binary `unify` into harness/target-hooked (vlib.harness_hooked); the hooks "
                  "(sylt-compiler/src/verif_trace.rs + four emit sites in typechecker.rs) log the type checker's union-find events (push, constraint added, "
                  "constraints copied, union) into a thread-local buffer that is empty unless sylt_compiler::verif_trace::start() was called; every other observation "
                  "is made through sylt's public API with the guard off",
        "baseline_off_cmd": "cd /repo && cargo test --workspace --no-fail-fast --offline",
        "source_commits": ["ca2ddd0"],
        "add_only": True,
    },
    "engines": [
        {"name": "tlc", "path": "/verif/spec", "serves_properties": sorted(CHECKS), "kind_free_text": "TLA+ specifications checked by TLC 1.8 (model checking of the spec universes + trace validation of recorded implementation behaviour)"},
        {"name": "vharness", "path": "/verif/harness", "serves_properties": sorted(CHECKS), "kind_free_text": "Rust conformance harness: path-depends on /repo's crates, replays TLC-generated cases into the real code and records traces for TLC"},
        {"name": "minilua", "path": "/verif/minilua", "serves_properties": [p for p in sorted(CHECKS) if p in ("C01","C02","C05","C06","C10","C11","C12","C13","C18","C19","C20")], "kind_free_text": "Lua 5.3 interpreter written for this framework (no Lua exists in the sandbox); loads and runs the emitted chunks"},
    ],
    "checks": [CHECKS[p] for p in props if p in CHECKS],
    "not_applicable": [{"property_id": p, "reason": NOT_YET.get(p, "check not built yet in this round; planned in DESIGN.md section 8")} for p in props if p not in CHECKS],
    "notes": "Driver: ./check <ID> --tier quick|thorough [--replay F]. Known findings: /verif/known_findings.json. Design: /verif/DESIGN.md.",
}
json.dump(manifest, open(os.path.join(ROOT, "MANIFEST.json"), "w"), indent=1)
print("checks:", sorted(CHECKS), "not_applicable:", [x["property_id"] for x in manifest["not_applicable"]])
