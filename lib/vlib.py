"""Common machinery for the per-property checks: building the harness, running TLC,
known findings, replay files, evidence, exit codes.

Exit codes of a check: 0 = property held on everything explored (KNOWN-FINDING lines allowed),
1 = at least one VIOLATION line printed, 2 = tool error (never a verdict).
"""
import hashlib
import json
import os
import re
import shutil
import subprocess
import sys
import time

ROOT = os.path.dirname(os.path.dirname(os.path.abspath(__file__)))
SPEC = os.path.join(ROOT, "spec")
HARNESS = os.path.join(ROOT, "harness")
BIN = os.path.join(HARNESS, "target", "debug")
TLA_CP = "/opt/veriftools/tla/tla2tools.jar:/opt/veriftools/tla/CommunityModules-deps.jar"
NCPU = os.cpu_count() or 4


class ToolError(Exception):
    pass


_pending_verdicts = []


def tool_error(msg):
    """Exit 2 (never a verdict) - unless violations were already found in this run: a violation that is on record is
    reported (exit 1) even when a later self-test, guard or control of the check fails, because those are calibrated for
    a tree on which the property holds and may legitimately fail on one where it does not."""
    print("TOOL-ERROR: " + msg, file=sys.stderr)
    for v in _pending_verdicts:
        if v.violations and not v.finished:
            print("(violations found before the tool error are reported)", file=sys.stderr)
            rc = v.finish()
            sys.stdout.flush()
            sys.exit(rc)
    sys.stdout.flush()
    sys.exit(2)


def seed():
    try:
        return int(os.environ.get("VERIF_SEED", "1"))
    except ValueError:
        return 1


# --------------------------------------------------------------------------- building

_built = set()


def build_harness(bins=None):
    """Rebuild the harness (and with it the sylt crates from /repo's working tree).
    bins: list of binary names to build; None builds the library only."""
    targets = ["--lib"] if not bins else sum((["--bin", b] for b in bins), [])
    key = tuple(targets)
    if key in _built:
        return
    env = dict(os.environ, CARGO_NET_OFFLINE="true")
    p = subprocess.run(["cargo", "build", "--offline", "-q"] + targets, cwd=HARNESS, env=env,
                       stdout=subprocess.PIPE, stderr=subprocess.STDOUT, text=True)
    if p.returncode != 0:
        sys.stderr.write(p.stdout[-6000:])
        tool_error("harness build failed (does /repo compile?)")
    _built.add(key)


_sylt_bin = None


def build_sylt_binary(workdir):
    """Build the `sylt` binary from /repo's working tree into a target dir under /verif/work."""
    global _sylt_bin
    if _sylt_bin:
        return _sylt_bin
    tgt = os.path.join(ROOT, "work", "sylt-target")
    env = dict(os.environ, CARGO_NET_OFFLINE="true", CARGO_TARGET_DIR=tgt)
    p = subprocess.run(["cargo", "build", "--offline", "-q", "-p", "sylt", "--bin", "sylt"], cwd="/repo", env=env,
                       stdout=subprocess.PIPE, stderr=subprocess.STDOUT, text=True)
    if p.returncode != 0:
        sys.stderr.write(p.stdout[-6000:])
        tool_error("building the sylt binary failed")
    _sylt_bin = os.path.join(tgt, "debug", "sylt")
    return _sylt_bin


def harness(binname, args, stdin=None, timeout=3600, env=None, check=True):
    """Run a harness binary. Harness binaries exit 0 normally and 2 on tool errors;
    verdicts are data in their output files, never exit codes."""
    build_harness([binname])
    e = dict(os.environ)
    e["VERIF_ROOT"] = ROOT
    if env:
        e.update(env)
    try:
        p = subprocess.run([os.path.join(BIN, binname)] + [str(a) for a in args], input=stdin, env=e,
                           stdout=subprocess.PIPE, stderr=subprocess.PIPE, text=True, timeout=timeout)
    except subprocess.TimeoutExpired:
        tool_error("harness %s timed out after %ss" % (binname, timeout))
    if check and p.returncode != 0:
        sys.stderr.write(p.stderr[-4000:])
        tool_error("harness %s %s exited %d" % (binname, " ".join(map(str, args)), p.returncode))
    return p


HOOKED_TARGET = os.path.join(HARNESS, "target-hooked")
_built_hooked = set()


def harness_hooked(binname, args, timeout=3600, env=None):
    """Build (into harness/target-hooked, with sylt compiled with --cfg sylt_verif: the hooks recorded in MANIFEST.hooks)
    and run a harness binary that needs the instrumented compiler."""
    e = dict(os.environ, CARGO_NET_OFFLINE="true", CARGO_TARGET_DIR=HOOKED_TARGET,
             RUSTFLAGS="--cfg sylt_verif --check-cfg cfg(sylt_verif)")
    if binname not in _built_hooked:
        p = subprocess.run(["cargo", "build", "--offline", "-q", "--bin", binname], cwd=HARNESS, env=e,
                           stdout=subprocess.PIPE, stderr=subprocess.STDOUT, text=True)
        if p.returncode != 0:
            sys.stderr.write(p.stdout[-6000:])
            tool_error("hooked harness build failed (does /repo compile with --cfg sylt_verif?)")
        _built_hooked.add(binname)
    e = dict(os.environ)
    e["VERIF_ROOT"] = ROOT
    if env:
        e.update(env)
    try:
        p = subprocess.run([os.path.join(HOOKED_TARGET, "debug", binname)] + [str(a) for a in args], env=e,
                           stdout=subprocess.PIPE, stderr=subprocess.PIPE, text=True, timeout=timeout)
    except subprocess.TimeoutExpired:
        tool_error("harness %s timed out after %ss" % (binname, timeout))
    if p.returncode != 0:
        sys.stderr.write(p.stderr[-4000:])
        tool_error("hooked harness %s exited %d" % (binname, p.returncode))
    return p


# --------------------------------------------------------------------------- work dirs

def workdir(pid, clean=True):
    d = os.path.join(ROOT, "work", pid)
    if clean and os.path.isdir(d):
        shutil.rmtree(d, ignore_errors=True)
    os.makedirs(d, exist_ok=True)
    return d


# --------------------------------------------------------------------------- TLC

class TlcResult:
    def __init__(self):
        self.stdout = ""
        self.generated = 0
        self.distinct = 0
        self.depth = 0
        self.ok = False            # "Model checking completed. No error has been found."
        self.error = None          # first error text, if any
        self.invariant_violated = None
        self.records = []          # parsed payloads of printed <<"TAG", json>> lines
        self.coverage = {}         # action name -> (distinct, total)
        self.wall_s = 0.0
        self.timed_out = False


_PRINT_RE = re.compile(r'^<<"([A-Z_]+)", "(.*)">>$')


def _unescape_tla(s):
    # TLC prints strings with \" and \\ escaped
    out = []
    i = 0
    while i < len(s):
        c = s[i]
        if c == "\\" and i + 1 < len(s):
            n = s[i + 1]
            if n == "n":
                out.append("\n")
            elif n == "t":
                out.append("\t")
            elif n == "r":
                out.append("\r")
            elif n == "f":
                out.append("\f")
            else:
                out.append(n)
            i += 2
        else:
            out.append(c)
            i += 1
    return "".join(out)


def tlc(module, cfg=None, wd=None, workers=None, simulate=None, depth=None, env=None, timeout=1800,
        xmx="8g", deque=False, tags=("REPLAY",), coverage=True, extra=None, tlc_seed=None, deadlock=False,
        out_file=None):
    """Run TLC on spec/<module>.tla with spec/<cfg>. Returns TlcResult. Raises nothing; caller decides."""
    assert wd, "work dir required"
    cfg = cfg or (module + ".cfg")
    meta = os.path.join(wd, "tlc-" + module + "-" + os.path.basename(cfg).replace(".cfg", ""))
    shutil.rmtree(meta, ignore_errors=True)
    os.makedirs(meta, exist_ok=True)
    jopts = ["-XX:+UseParallelGC", "-Xss1g", "-Xmx" + xmx, "-Dfile.encoding=UTF-8"]
    if deque:
        jopts.append("-Dtlc2.tool.queue.IStateQueue=StateDeque")
    cmd = ["java"] + jopts + ["-cp", TLA_CP, "tlc2.TLC", "-metadir", meta, "-cleanup", "-noGenerateSpecTE",
                              "-config", os.path.join(SPEC, cfg)]
    if not deadlock:
        cmd += ["-deadlock"]  # -deadlock = do NOT check for deadlock
    if simulate is not None:
        cmd += ["-simulate", "num=%d" % simulate]
        if depth:
            cmd += ["-depth", str(depth)]
        cmd += ["-seed", str(tlc_seed if tlc_seed is not None else seed())]
        workers = workers or 1
    else:
        workers = workers or NCPU
    cmd += ["-workers", str(workers)]
    if coverage and simulate is None:
        cmd += ["-coverage", "1"]
    if extra:
        cmd += list(extra)
    cmd += [os.path.join(SPEC, module + ".tla")]
    e = dict(os.environ)
    e.pop("JAVA_TOOL_OPTIONS", None)
    if env:
        e.update({k: str(v) for k, v in env.items()})
    r = TlcResult()
    t0 = time.time()
    log = out_file or os.path.join(wd, "tlc-%s.out" % module)
    with open(log, "w") as lf:
        try:
            p = subprocess.run(cmd, cwd=SPEC, env=e, stdout=lf, stderr=subprocess.STDOUT, timeout=timeout)
            rc = p.returncode
        except subprocess.TimeoutExpired:
            r.timed_out = True
            rc = -1
    r.wall_s = time.time() - t0
    r.returncode = rc
    r.log = log
    tagset = set(tags)
    cov_re = re.compile(r"^<(\w+) line \d+, col \d+ to line \d+, col \d+ of module (\w+)(?: \([\d ]+\))?>: (\d+):(\d+)")
    err_lines = []
    in_err = False
    with open(log, encoding="utf-8", errors="replace") as lf:
        for line in lf:
            line = line.rstrip("\n")
            m = _PRINT_RE.match(line)
            if m and m.group(1) in tagset:
                try:
                    r.records.append((m.group(1), json.loads(_unescape_tla(m.group(2)))))
                except Exception as ex:  # noqa
                    raise ToolError("cannot parse TLC print line: %s (%s)" % (line[:200], ex))
                continue
            if line.startswith("The coverage statistics at"):
                r.coverage = {}        # TLC prints interim reports every minute: only the last one counts
                continue
            m = cov_re.match(line)
            if m:
                name = m.group(1)
                d, t = int(m.group(3)), int(m.group(4))
                od, ot = r.coverage.get(name, (0, 0))
                r.coverage[name] = (od + d, ot + t)
                continue
            m = re.match(r"^(\d[\d,]*) states generated, (\d[\d,]*) distinct states found", line)
            if m:
                r.generated = int(m.group(1).replace(",", ""))
                r.distinct = int(m.group(2).replace(",", ""))
                continue
            m = re.match(r"^The depth of the complete state graph search is (\d+)", line)
            if m:
                r.depth = int(m.group(1))
                continue
            if "Model checking completed. No error has been found." in line:
                r.ok = True
            m = re.match(r"^Error: Invariant (\w+) is violated", line)
            if m:
                r.invariant_violated = m.group(1)
            if line.startswith("Error:") or line.startswith("TLC threw"):
                in_err = True
            if in_err and len(err_lines) < 40:
                err_lines.append(line)
            m = re.match(r"^The number of states generated: (\d+)", line)  # simulation mode
            if m:
                r.generated = int(m.group(1))
    if simulate is not None and rc == 0 and not err_lines:
        r.ok = True
    if err_lines:
        r.error = "\n".join(err_lines)
    shutil.rmtree(meta, ignore_errors=True)
    return r


def require_tlc_ok(r, what):
    """A failing spec-level run is a wrong specification or a tool problem, never a verdict on sylt."""
    if r.timed_out:
        tool_error("%s: TLC timed out after %.0fs (log %s)" % (what, r.wall_s, r.log))
    if not r.ok:
        tool_error("%s: TLC did not finish cleanly (log %s):\n%s" % (what, r.log, (r.error or "")[:3000]))


def sany(module):
    cmd = ["java", "-Dfile.encoding=UTF-8", "-cp", TLA_CP, "tla2sany.SANY", os.path.join(SPEC, module + ".tla")]
    p = subprocess.run(cmd, cwd=SPEC, stdout=subprocess.PIPE, stderr=subprocess.STDOUT, text=True)
    bad = p.returncode != 0 or "error" in p.stdout.lower().replace("semantic errors: 0", "").replace("0 errors", "") and "*** Errors" in p.stdout
    return (not bad), p.stdout


# --------------------------------------------------------------------------- findings / verdicts

def load_known():
    path = os.path.join(ROOT, "known_findings.json")
    with open(path) as f:
        data = json.load(f)
    return data.get("findings", [])


class Verdicts:
    """Collects violations, matches them against known findings by signature, prints the lines."""

    def __init__(self, pid, control=False):
        """control=True: a scratch collector for a negative control (its 'violations' are expected and never reported)"""
        self.pid = pid
        self.control = control
        self.known = [k for k in load_known() if k["property"] == pid and k.get("status") == "known"]
        self.violations = []   # (signature, what, replay_obj)
        self.known_hits = {}   # finding id -> count
        self.known_examples = {}
        self.finished = False
        if not control:
            _pending_verdicts.append(self)

    def add(self, signature, what, replay):
        """signature: string computed from the *case*; replay: JSON-able object to reproduce."""
        for k in self.known:
            if k.get("signature") == signature or (k.get("signature_re") and re.match(k["signature_re"], signature)):
                self.known_hits[k["id"]] = self.known_hits.get(k["id"], 0) + 1
                self.known_examples.setdefault(k["id"], replay)
                return "known"
        self.violations.append((signature, what, replay))
        return "violation"

    def finish(self, max_lines=25):
        """Print KNOWN-FINDING / VIOLATION lines; return exit code."""
        self.finished = True
        for k in self.known:
            if k["id"] in self.known_hits:
                print("KNOWN-FINDING: property=%s %s [%s; signature %s; hit %d times in this run]" % (
                    self.pid, k["what_fails"], k["id"], k.get("signature") or k.get("signature_re"), self.known_hits[k["id"]]))
        if not self.violations:
            return 0
        d = os.path.join(ROOT, "replays", self.pid)
        os.makedirs(d, exist_ok=True)
        seen_sig = {}
        for sig, what, replay in self.violations:
            seen_sig.setdefault(sig, []).append((what, replay))
        n = 0
        for sig, items in seen_sig.items():
            what, replay = items[0]
            body = json.dumps({"property": self.pid, "signature": sig, "what": what, "count": len(items),
                               "replay": replay}, indent=1, sort_keys=True)
            h = hashlib.sha1(body.encode()).hexdigest()[:16]
            path = os.path.join(d, h + ".json")
            with open(path, "w") as f:
                f.write(body + "\n")
            if n < max_lines:
                print("VIOLATION property=%s replay=%s signature=%s cases=%d :: %s" % (self.pid, path, sig, len(items), what[:300]))
            n += 1
        if n > max_lines:
            print("(%d further violation signatures not printed; all replay files are in %s)" % (n - max_lines, d))
        return 1


# --------------------------------------------------------------------------- evidence

class Evidence:
    def __init__(self, pid, tier, level):
        self.pid = pid
        self.tier = tier
        self.level = level
        self.t0 = time.time()
        self.cov = {}
        self.assumptions = []
        self.violations = 0

    def set(self, **kw):
        self.cov.update(kw)

    def add(self, key, n=1):
        self.cov[key] = self.cov.get(key, 0) + n

    def assume(self, *texts):
        self.assumptions.extend(texts)

    def write(self):
        os.makedirs(os.path.join(ROOT, "evidence"), exist_ok=True)
        obj = {
            "property_id": self.pid,
            "tier": self.tier,
            "seed": seed(),
            "level": self.level,
            "coverage": self.cov,
            "assumptions": self.assumptions,
            "wall_s": round(time.time() - self.t0, 2),
            "violations": self.violations,
        }
        path = os.path.join(ROOT, "evidence", self.pid + ".json")
        tmp = path + ".tmp"
        with open(tmp, "w") as f:
            json.dump(obj, f, indent=1, sort_keys=True)
            f.write("\n")
        os.replace(tmp, path)
        return path


def read_ndjson(path):
    out = []
    with open(path) as f:
        for line in f:
            line = line.strip()
            if line:
                out.append(json.loads(line))
    return out


def write_ndjson(path, items):
    with open(path, "w") as f:
        for it in items:
            f.write(json.dumps(it, separators=(",", ":")) + "\n")


def sha(obj):
    return hashlib.sha1(json.dumps(obj, sort_keys=True).encode()).hexdigest()[:16]
