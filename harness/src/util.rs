//! Small helpers: ndjson I/O, hashing, violation/replay files, env knobs.

use serde::de::DeserializeOwned;
use serde::Serialize;
use std::io::{BufRead, Write};
use std::path::{Path, PathBuf};

pub fn read_ndjson<T: DeserializeOwned>(path: &Path) -> Vec<T> {
    let f = std::fs::File::open(path).unwrap_or_else(|e| tool_error(&format!("open {}: {}", path.display(), e)));
    let mut out = Vec::new();
    for (i, line) in std::io::BufReader::new(f).lines().enumerate() {
        let line = line.unwrap();
        if line.trim().is_empty() {
            continue;
        }
        match serde_json::from_str(&line) {
            Ok(v) => out.push(v),
            Err(e) => tool_error(&format!("{}:{}: bad json: {}", path.display(), i + 1, e)),
        }
    }
    out
}

pub fn write_ndjson<T: Serialize>(path: &Path, items: &[T]) {
    if let Some(d) = path.parent() {
        let _ = std::fs::create_dir_all(d);
    }
    let mut f = std::io::BufWriter::new(std::fs::File::create(path).unwrap());
    for it in items {
        serde_json::to_writer(&mut f, it).unwrap();
        f.write_all(b"\n").unwrap();
    }
    f.flush().unwrap();
}

pub fn write_json<T: Serialize>(path: &Path, item: &T) {
    if let Some(d) = path.parent() {
        let _ = std::fs::create_dir_all(d);
    }
    let mut f = std::io::BufWriter::new(std::fs::File::create(path).unwrap());
    serde_json::to_writer_pretty(&mut f, item).unwrap();
    f.write_all(b"\n").unwrap();
}

/// FNV-1a, stable across runs and processes (std's SipHash is randomly keyed).
pub fn fnv(s: &str) -> u64 {
    let mut h: u64 = 0xcbf29ce484222325;
    for b in s.as_bytes() {
        h ^= *b as u64;
        h = h.wrapping_mul(0x100000001b3);
    }
    h
}

pub fn hex(h: u64) -> String {
    format!("{:016x}", h)
}

/// A tool error is never a verdict: exit status 2 and no VIOLATION line.
pub fn tool_error(msg: &str) -> ! {
    eprintln!("TOOL-ERROR: {}", msg);
    std::process::exit(2)
}

pub fn verif_root() -> PathBuf {
    std::env::var("VERIF_ROOT").map(PathBuf::from).unwrap_or_else(|_| PathBuf::from("/verif"))
}

pub fn seed() -> u64 {
    std::env::var("VERIF_SEED").ok().and_then(|s| s.parse().ok()).unwrap_or(1)
}
