//! Small helpers: ndjson I/O, hashing, violation/replay files, env knobs.

use serde::de::DeserializeOwned;
use serde::Serialize;
use std::io::{BufRead, Write};
use std::path::{Path, PathBuf};

pub fn read_ndjson<T: DeserializeOwned>(path: &Path) -> Vec<T> {
    let f = std::fs::File::open(path).unwrap_or_else(|e| tool_error(&format!("open {}: {}", path.display(), e)));
    let mut out = Vec::new();
    for (i, line) in std::io::BufReader::new(f).lines().enumerate() {
        let line = line.unwrap();
        if line.trim().is_empty() {
            continue;
        }
        match serde_json::from_str(&line) {
            Ok(v) => out.push(v),
            Err(e) => tool_error(&format!("{}:{}: bad json: {}", path.display(), i + 1, e)),
        }
    }
    out
}

pub fn write_ndjson<T: Serialize>(path: &Path, items: &[T]) {
    if let Some(d) = path.parent() {
        let _ = std::fs::create_dir_all(d);
    }
    let mut f = std::io::BufWriter::new(std::fs::File::create(path).unwrap());
    for it in items {
        serde_json::to_writer(&mut f, it).unwrap();
        f.write_all(b"\n").unwrap();
    }
    f.flush().unwrap();
}

pub fn write_json<T: Serialize>(path: &Path, item: &T) {
    if let Some(d) = path.parent() {
        let _ = std::fs::create_dir_all(d);
    }
    let mut f = std::io::BufWriter::new(std::fs::File::create(path).unwrap());
    serde_json::to_writer_pretty(&mut f, item).unwrap();
    f.write_all(b"\n").unwrap();
}

/// FNV-1a, stable across runs and processes (std's SipHash is randomly keyed).
pub fn fnv(s: &str) -> u64 {
    let mut h: u64 = 0xcbf29ce484222325;
    for b in s.as_bytes() {
        h ^= *b as u64;
        h = h.wrapping_mul(0x100000001b3);
    }
    h
}

pub fn hex(h: u64) -> String {
    format!("{:016x}", h)
}

/// A tool error is never a verdict: exit status 2 and no VIOLATION line.
pub fn tool_error(msg: &str) -> ! {
    eprintln!("TOOL-ERROR: {}", msg);
    std::process::exit(2)
}

pub fn verif_root() -> PathBuf {
    std::env::var("VERIF_ROOT").map(PathBuf::from).unwrap_or_else(|_| PathBuf::from("/verif"))
}

pub fn seed() -> u64 {
    std::env::var("VERIF_SEED").ok().and_then(|s| s.parse().ok()).unwrap_or(1)
}

/// Text Lua 5.3 prints for a float (`%.14g`, with ".0" appended when it looks like an integer).
pub fn lua_float_text(f: f64) -> String {
    if f.is_nan() {
        return if f.is_sign_negative() { "-nan".into() } else { "nan".into() };
    }
    if f.is_infinite() {
        return if f < 0.0 { "-inf".into() } else { "inf".into() };
    }
    if f == 0.0 {
        return if f.is_sign_negative() { "-0.0".into() } else { "0.0".into() };
    }
    // 14 significant digits
    let sci = format!("{:.13e}", f); // d.ddddddddddddde[-]x
    let (mant, exp) = sci.split_once('e').unwrap();
    let exp: i32 = exp.parse().unwrap();
    let neg = mant.starts_with('-');
    let digits: String = mant.chars().filter(|c| c.is_ascii_digit()).collect(); // 14 digits
    let mut out = String::new();
    if neg {
        out.push('-');
    }
    if exp < -4 || exp >= 14 {
        let mut d = digits.trim_end_matches('0').to_string();
        if d.is_empty() {
            d.push('0');
        }
        out.push_str(&d[..1]);
        if d.len() > 1 {
            out.push('.');
            out.push_str(&d[1..]);
        }
        out.push_str(&format!("e{}{:02}", if exp < 0 { "-" } else { "+" }, exp.abs()));
        out
    } else if exp >= 0 {
        let int_len = (exp + 1) as usize;
        let int_part = &digits[..int_len];
        let frac = digits[int_len..].trim_end_matches('0');
        out.push_str(int_part);
        if frac.is_empty() {
            out.push_str(".0");
        } else {
            out.push('.');
            out.push_str(frac);
        }
        out
    } else {
        let zeros = (-exp - 1) as usize;
        let frac_all = format!("{}{}", "0".repeat(zeros), digits);
        let frac = frac_all.trim_end_matches('0');
        out.push_str("0.");
        out.push_str(frac);
        out
    }
}

/// Text `print` shows for a value snapshot of the specification (SyltValues!Render).
pub fn render_value(v: &serde_json::Value) -> String {
    match v["k"].as_str().unwrap_or("?") {
        "int" => format!("{}", v["v"].as_i64().unwrap()),
        "float" => {
            let n = v["n"].as_i64().unwrap() as f64;
            let d = v["d"].as_i64().unwrap() as i32;
            lua_float_text(n / 2f64.powi(d))
        }
        "str" => v["v"].as_str().unwrap().to_string(),
        "bool" => format!("{}", v["v"].as_bool().unwrap()),
        "nil" => "nil".into(),
        "tuple" => {
            let es: Vec<String> = v["es"].as_array().unwrap().iter().map(render_value).collect();
            if es.len() == 1 {
                format!("({},)", es[0])
            } else {
                format!("({})", es.join(", "))
            }
        }
        "list" => {
            let es: Vec<String> = v["es"].as_array().unwrap().iter().map(render_value).collect();
            format!("[{}]", es.join(", "))
        }
        "variant" => format!("{} {}", v["tag"].as_str().unwrap(), render_value(&v["val"])),
        other => format!("<unprintable:{}>", other),
    }
}
