//! Real parser AST -> the framework's JSON convention (spans and Parenthesis nodes dropped,
//! arrow calls desugared the way name resolution desugars them).

use serde_json::{json, Value};
use sylt_parser::expression::{ComparisonKind, ExpressionKind};
use sylt_parser::statement::StatementKind;
use sylt_parser::{Assignable, AssignableKind, Expression, Op, Statement, VarKind};

pub fn assignable(a: &Assignable) -> Value {
    match &a.kind {
        AssignableKind::Read(id) => json!({"k":"name","n":id.name}),
        AssignableKind::Call(f, args) => {
            json!({"k":"call","f":assignable(f),"args":args.iter().map(expr).collect::<Vec<_>>()})
        }
        AssignableKind::ArrowCall(first, f, args) => {
            let mut all = vec![expr(first)];
            all.extend(args.iter().map(expr));
            json!({"k":"call","f":assignable(f),"args":all})
        }
        AssignableKind::Access(inner, id) => json!({"k":"fld","e":assignable(inner),"f":id.name}),
        AssignableKind::Index(inner, i) => json!({"k":"idx","e":assignable(inner),"i":expr(i)}),
        AssignableKind::Expression(e) => expr(e),
        AssignableKind::Variant { enum_ass, variant, value } => {
            json!({"k":"variant","enum":assignable(enum_ass),"v":variant.name,"e":expr(value)})
        }
    }
}

fn bin(op: &str, a: &Expression, b: &Expression) -> Value {
    json!({"k":"bin","op":op,"l":expr(a),"r":expr(b)})
}

pub fn block(b: &[Statement]) -> Value {
    Value::Array(b.iter().filter_map(stmt).collect())
}

pub fn expr(e: &Expression) -> Value {
    use ExpressionKind::*;
    match &e.kind {
        Get(a) => assignable(a),
        Add(a, b) => bin("+", a, b),
        Sub(a, b) => bin("-", a, b),
        Mul(a, b) => bin("*", a, b),
        Div(a, b) => bin("/", a, b),
        Neg(a) => json!({"k":"un","op":"-","a":expr(a)}),
        Not(a) => json!({"k":"un","op":"not","a":expr(a)}),
        Comparison(a, k, b) => bin(
            match k {
                ComparisonKind::Equals => "==",
                ComparisonKind::NotEquals => "!=",
                ComparisonKind::Greater => ">",
                ComparisonKind::GreaterEqual => ">=",
                ComparisonKind::Less => "<",
                ComparisonKind::LessEqual => "<=",
            },
            a,
            b,
        ),
        AssertEq(a, b) => bin("<=>", a, b),
        And(a, b) => bin("and", a, b),
        Or(a, b) => bin("or", a, b),
        Parenthesis(inner) => expr(inner),
        If(branches) => {
            let arms: Vec<Value> = branches
                .iter()
                .map(|b| match &b.condition {
                    Some(c) => json!({"c":expr(c),"body":block(&b.body)}),
                    None => json!({"else":true,"body":block(&b.body)}),
                })
                .collect();
            json!({"k":"if","arms":arms})
        }
        Case { to_match, branches, fall_through } => {
            let arms: Vec<Value> = branches
                .iter()
                .map(|b| {
                    json!({"v":b.pattern.name,"bind":b.variable.as_ref().map(|v| v.name.clone()),"body":block(&b.body)})
                })
                .collect();
            json!({"k":"case","e":expr(to_match),"arms":arms,"els":fall_through.as_ref().map(|b| block(b))})
        }
        Function { params, ret, body, pure, .. } => {
            let ps: Vec<Value> =
                params.iter().map(|(id, ty)| json!({"n":id.name,"ty":format!("{}", ty)})).collect();
            json!({"k":"fn","pure":pure,"params":ps,"ret":format!("{}", ret),"body":block(body)})
        }
        Blob { blob, fields } => {
            let fs: Vec<Value> = fields.iter().map(|(n, e)| json!({"f":n,"e":expr(e)})).collect();
            json!({"k":"blob","name":format!("{:?}", blob.kind).len(),"fields":fs})
        }
        Tuple(es) => json!({"k":"tuple","es":es.iter().map(expr).collect::<Vec<_>>()}),
        List(es) => json!({"k":"list","es":es.iter().map(expr).collect::<Vec<_>>()}),
        Float(f) => json!({"k":"float","v":f}),
        Int(i) => json!({"k":"int","v":i}),
        Str(s) => json!({"k":"str","v":s}),
        Bool(b) => json!({"k":"bool","v":b}),
        Nil => json!({"k":"nil"}),
    }
}

pub fn stmt(s: &Statement) -> Option<Value> {
    use StatementKind::*;
    Some(match &s.kind {
        EmptyStatement => return None,
        Use { path, name, .. } => json!({"k":"use","path":path.name,"as":name.name()}),
        FromUse { path, imports, .. } => {
            let im: Vec<Value> = imports
                .iter()
                .map(|(a, b)| json!({"n":a.name,"as":b.as_ref().map(|x| x.name.clone())}))
                .collect();
            json!({"k":"from","path":path.name,"imports":im})
        }
        Blob { name, fields, external, .. } => {
            let mut fs: Vec<(String, String)> =
                fields.iter().map(|(k, v)| (k.name.clone(), format!("{}", v))).collect();
            fs.sort();
            json!({"k":"blobdecl","name":name.name,"fields":fs,"external":external})
        }
        Enum { name, variants, .. } => {
            let mut vs: Vec<(String, String)> =
                variants.iter().map(|(k, v)| (k.name.clone(), format!("{}", v))).collect();
            vs.sort();
            json!({"k":"enumdecl","name":name.name,"variants":vs})
        }
        Assignment { kind, target, value } => {
            let op = match kind {
                Op::Nop => "=",
                Op::Add => "+=",
                Op::Sub => "-=",
                Op::Mul => "*=",
                Op::Div => "/=",
            };
            json!({"k":"asg","op":op,"t":assignable(target),"e":expr(value)})
        }
        Definition { ident, kind, ty, value } => json!({
            "k":"def","n":ident.name,
            "kind": if *kind == VarKind::Const {"const"} else {"mut"},
            "ty":format!("{}", ty),"e":expr(value)}),
        ExternalDefinition { ident, ty, .. } => json!({"k":"extern","n":ident.name,"ty":format!("{}", ty)}),
        Loop { condition, body } => {
            json!({"k":"loop","c":expr(condition),"body":stmt(body).unwrap_or(Value::Null)})
        }
        Break => json!({"k":"break"}),
        Continue => json!({"k":"continue"}),
        Ret { value } => json!({"k":"ret","e":value.as_ref().map(expr)}),
        Block { statements } => json!({"k":"block","body":block(statements)}),
        StatementExpression { value } => json!({"k":"expr","e":expr(value)}),
        Unreachable => json!({"k":"unreach"}),
    })
}

/// Parse `src` as a single-file project without std and dump the main module.
pub fn parse_module(src: &str) -> Result<Vec<Value>, Vec<crate::ErrInfo>> {
    use std::path::Path;
    let main = crate::Project::abs("main.sy");
    let reader = |p: &Path| -> Result<String, sylt_common::Error> {
        if p == main.as_path() {
            Ok(src.to_string())
        } else {
            Err(sylt_common::Error::FileNotFound(p.to_path_buf()))
        }
    };
    match sylt_parser::tree(&main, reader, false) {
        Ok(ast) => {
            let m = &ast.modules[0].1;
            Ok(m.statements.iter().filter_map(stmt).collect())
        }
        Err(errs) => Err(errs.iter().map(crate::project::err_info).collect()),
    }
}
