//! C10 replayer/recorder: spec-executed recursion/closure-dense programs -> compiler -> minilua with the
//! activation event log recorded.
//!   c10 replay <cases.ndjson> <results.ndjson> <events.ndjson>
//!   c10 run <file.sy> [lua]        compile one source text, run it, print its output (to look at a replay by hand)
//! results: as c01 (trace comparison with the specification's expected observation);
//! events: one record per program {i, ev:[{e,a,p,n}]} for Trace_Activation.

use minilua::Event;
use serde_json::{json, Value};
use std::path::Path;
use vharness::luarun::{self, Status};
use vharness::printer::{print_program, PrintOpts};
use vharness::util::*;
use vharness::{CompileResult, Project};

fn ev_json(e: &Event) -> Value {
    match e {
        Event::Enter { act, parent_act, .. } => json!({"e":"enter","a":act,"p":parent_act,"n":""}),
        Event::Exit { act } => json!({"e":"exit","a":act,"p":0,"n":""}),
        Event::GlobalWrite { act, name } => json!({"e":"gw","a":act,"p":0,"n":name}),
        Event::GlobalRead { act, name } => json!({"e":"gr","a":act,"p":0,"n":name}),
        Event::Closure { act, .. } => json!({"e":"clo","a":act,"p":0,"n":""}),
    }
}

fn main() {
    let args: Vec<String> = std::env::args().collect();
    // c10 run <file.sy> [lua]: compile one source text and run it (for looking at a replay by hand; nothing is judged)
    if args.len() >= 3 && args[1] == "run" {
        let src = std::fs::read_to_string(&args[2]).unwrap_or_else(|e| tool_error(&format!("{}: {}", args[2], e)));
        match vharness::compile(&Project::single(&src)) {
            CompileResult::Ok { lua } => {
                if args.len() > 3 {
                    println!("{}", vharness::project::body_of(&lua));
                }
                let r = luarun::run_with(&lua, &luarun::default_opts());
                for p in &r.obs.prints {
                    println!("{}", p);
                }
                println!("-- {:?}", r.obs.status);
            }
            CompileResult::Err { errors, .. } => {
                for e in errors {
                    println!("error {}:{} {}", e.file, e.line, e.message);
                }
            }
            CompileResult::Panic { message, .. } => println!("panic {}", message),
        }
        return;
    }
    if args.len() < 5 || args[1] != "replay" {
        tool_error("usage: c10 replay <cases> <results> <events>");
    }
    let cases: Vec<Value> = read_ndjson(Path::new(&args[2]));
    let popts = PrintOpts::default();
    let out = vharness::pool::par_map(&cases, |i, c| {
        let src = print_program(c["tops"].as_array().unwrap(), &popts);
        let want_prints: Vec<String> = c["out"].as_array().unwrap().iter().map(|e| render_value(&e["v"])).collect();
        let want_status = c["status"].as_str().unwrap().to_string();
        match vharness::compile(&Project::single(&src)) {
            CompileResult::Ok { lua } => {
                let mut o = luarun::default_opts();
                o.record_events = true;
                let r = luarun::run_with(&lua, &o);
                let got_status = match &r.obs.status {
                    Status::Done => "done".to_string(),
                    Status::AssertFailed => "assert_failed".to_string(),
                    Status::Unreachable { .. } => "unreachable".to_string(),
                    other => other.short(),
                };
                let ok = got_status == want_status && r.obs.prints == want_prints;
                let verdict = match &r.obs.status {
                    Status::LoadError { .. } => "load_error",
                    Status::Unsupported { .. } => "tool",
                    Status::StepLimit => "dropped",
                    _ if ok => "ok",
                    _ => "mismatch",
                };
                let mut res = json!({"i": i, "verdict": verdict,
                    "want": {"prints": want_prints, "status": want_status},
                    "got": {"prints": r.obs.prints, "status": got_status, "detail": format!("{:?}", r.obs.status)}});
                if verdict != "ok" {
                    res["source"] = json!(src);
                }
                let ev: Vec<Value> = r.events.iter().map(ev_json).collect();
                let enters = r.events.iter().filter(|e| matches!(e, Event::Enter { .. })).count();
                let closures = r.events.iter().filter(|e| matches!(e, Event::Closure { .. })).count();
                let depth = {
                    let mut d = 0usize;
                    let mut m = 0usize;
                    for e in r.events.iter() {
                        match e {
                            Event::Enter { .. } => {
                                d += 1;
                                m = m.max(d);
                            }
                            Event::Exit { .. } => d = d.saturating_sub(1),
                            _ => {}
                        }
                    }
                    m
                };
                (res, json!({"i": i, "ev": ev, "enters": enters, "closures": closures, "depth": depth, "source": src}))
            }
            CompileResult::Err { errors, .. } => (
                json!({"i": i, "verdict": "rejected", "source": src,
                       "error": errors.first().map(|e| format!("{}:{} {}", e.file, e.line, e.message))}),
                json!({"i": i, "ev": [], "enters": 0, "closures": 0, "depth": 0, "source": ""}),
            ),
            CompileResult::Panic { message, .. } => (
                json!({"i": i, "verdict": "panic", "source": src, "error": message}),
                json!({"i": i, "ev": [], "enters": 0, "closures": 0, "depth": 0, "source": ""}),
            ),
        }
    });
    let (results, events): (Vec<Value>, Vec<Value>) = out.into_iter().unzip();
    write_ndjson(Path::new(&args[3]), &results);
    write_ndjson(Path::new(&args[4]), &events);
}
