//! C09 recorder: lexical resolution and consistent renaming.
//!   c09 record <cases.ndjson> <trace.ndjson>
//!   c09 print  <cases.ndjson> <n> [variant]    source text of case n (naming `variant`, default 0)
//!   c09 probe  <file.sy> [lua]                 compile one program from disk, print the observation
//! Cases (emitted by TLC, MC_Scope):
//!   {t:"nam", sk, tops, namings:[{nm:[int], names:[str]}]}   one skeleton, its legal namings (binder j -> names[j-1])
//!   {t:"oos", sk, b, slot, form, tops, names:[str]}          one use of binder b planted at slot `slot` in position `form`
//!   (a `{k:"module", name}` node in tops starts the file <name>.sy: two-file skeletons)
//!   {t:"gen", rec, id, tops, shadow:[{b, n}]}                one program of SyltGen's universe and a shadowing naming
//! Records (same order):
//!   {t:"nam", sk, results:[{nm, class, digest, bytes, stage}], sources?}
//!   {t:"oos", sk, b, slot, form, class, bytes, stage, detail, src}
//!   {t:"gen", rec, id, shadow, distinct:{class, digest, ..}, shadowed:{class, digest, ..}, sources?}
//! class ok|err|panic; bytes = bytes written to the output (0 expected on rejection); stage syntax|later|none.
//! Rust only renders, compiles and records; legality, coverage and the verdicts are TLC's (Trace_Scope).
//! C09_STUB=salt:   negative control - the digest of one naming per skeleton / of the shadowed program is perturbed.
//! C09_STUB=accept: negative control - every planted variant is recorded as accepted.

use serde_json::{json, Value};
use std::collections::BTreeMap;
use std::path::Path;
use vharness::printer::{print_program, PrintOpts};
use vharness::util::*;
use vharness::{CompileResult, Project};

fn observe(p: &Project) -> Value {
    match vharness::compile(p) {
        CompileResult::Ok { lua } => json!({"class": "ok", "digest": hex(fnv(&lua)), "bytes": lua.len(), "stage": "none", "detail": ""}),
        CompileResult::Err { errors, bytes_written } => {
            let stage = if errors.iter().any(|e| e.kind == "syntax") { "syntax" } else { "later" };
            let detail = errors.first().map(|e| format!("{}:{} {}", e.file, e.line, e.message)).unwrap_or_default();
            // an Err without any error is recorded as such: "rejected" requires a non-empty list
            let class = if errors.is_empty() { "err-empty" } else { "err" };
            json!({"class": class, "digest": "", "bytes": bytes_written, "stage": stage, "detail": detail})
        }
        CompileResult::Panic { message, bytes_written } => {
            json!({"class": "panic", "digest": "", "bytes": bytes_written, "stage": "none", "detail": message})
        }
    }
}

fn naming_from_names(names: &Value) -> BTreeMap<i64, String> {
    names
        .as_array()
        .expect("names")
        .iter()
        .enumerate()
        .map(|(j, n)| (j as i64 + 1, n.as_str().expect("name").to_string()))
        .collect()
}

fn naming_from_pairs(pairs: &Value) -> BTreeMap<i64, String> {
    pairs
        .as_array()
        .expect("shadow")
        .iter()
        .map(|p| (p["b"].as_i64().expect("b"), p["n"].as_str().expect("n").to_string()))
        .collect()
}

/// A `{k:"module", m, name}` node starts the next file (`<name>.sy`); everything before the first one is main.sy.
fn render(tops: &Value, naming: BTreeMap<i64, String>) -> Project {
    let opts = PrintOpts { naming, ..Default::default() };
    let mut files: Vec<(String, Vec<Value>)> = vec![("main.sy".to_string(), Vec::new())];
    for t in tops.as_array().expect("tops") {
        if t["k"] == "module" {
            files.push((format!("{}.sy", t["name"].as_str().expect("module name")), Vec::new()));
        } else {
            files.last_mut().unwrap().1.push(t.clone());
        }
    }
    Project { files: files.into_iter().map(|(n, ts)| (n, print_program(&ts, &opts))).collect(), main: "main.sy".into() }
}

fn text_of(p: &Project) -> String {
    if p.files.len() == 1 {
        return p.files["main.sy"].clone();
    }
    p.files.iter().map(|(k, v)| format!("// ---- file {}\n{}", k, v)).collect::<Vec<_>>().join("\n")
}

/// the programs of a case: one per variant
fn sources(c: &Value) -> Vec<Project> {
    match c["t"].as_str().unwrap_or("") {
        "nam" => c["namings"].as_array().expect("namings").iter().map(|n| render(&c["tops"], naming_from_names(&n["names"]))).collect(),
        "oos" => vec![render(&c["tops"], naming_from_names(&c["names"]))],
        "gen" => vec![render(&c["tops"], BTreeMap::new()), render(&c["tops"], naming_from_pairs(&c["shadow"]))],
        other => tool_error(&format!("unknown case type {:?}", other)),
    }
}

fn main() {
    let args: Vec<String> = std::env::args().collect();
    if args.len() < 3 {
        tool_error("usage: c09 record <cases> <trace> | print <cases> <n> [variant] | probe <file> [lua]");
    }
    match args[1].as_str() {
        "probe" => {
            let src = std::fs::read_to_string(&args[2]).unwrap_or_else(|e| tool_error(&format!("{}: {}", args[2], e)));
            println!("{}", observe(&Project::single(&src)));
            if args.len() > 3 {
                if let CompileResult::Ok { lua } = vharness::compile(&Project::single(&src)) {
                    println!("{}", vharness::project::body_of(&lua));
                }
            }
        }
        "print" => {
            let cases: Vec<Value> = read_ndjson(Path::new(&args[2]));
            let n: usize = args[3].parse().unwrap();
            let v: usize = args.get(4).map(|s| s.parse().unwrap()).unwrap_or(0);
            let srcs = sources(&cases[n]);
            println!("{}", text_of(&srcs[v.min(srcs.len() - 1)]));
        }
        "record" => {
            if args.len() < 4 {
                tool_error("usage: c09 record <cases> <trace>");
            }
            let cases: Vec<Value> = read_ndjson(Path::new(&args[2]));
            let stub = std::env::var("C09_STUB").unwrap_or_default();
            // one task per (case, variant) so that a skeleton with hundreds of namings is spread over all threads
            let all_sources: Vec<Vec<Project>> = cases.iter().map(sources).collect();
            let tasks: Vec<(usize, usize)> =
                all_sources.iter().enumerate().flat_map(|(i, s)| (0..s.len()).map(move |j| (i, j))).collect();
            // (the always-accepting stub replaces the observation of every planted use: nothing to compile there)
            let obs: Vec<Value> = vharness::pool::par_map(&tasks, |_, &(i, j)| {
                if stub == "accept" && cases[i]["t"] == "oos" {
                    json!({"class": "ok", "digest": "stub", "bytes": 1, "stage": "none", "detail": "stub"})
                } else {
                    observe(&all_sources[i][j])
                }
            });
            let mut per_case: Vec<Vec<Value>> = cases.iter().map(|_| Vec::new()).collect();
            for (&(i, _), o) in tasks.iter().zip(obs.into_iter()) {
                per_case[i].push(o);
            }
            let mut recs = Vec::new();
            for (i, c) in cases.iter().enumerate() {
                let o = &mut per_case[i];
                let srcs: Vec<String> = all_sources[i].iter().map(text_of).collect();
                let rec = match c["t"].as_str().unwrap() {
                    "nam" => {
                        if stub == "salt" && o.len() > 1 {
                            let d = format!("{}x", o[1]["digest"].as_str().unwrap_or(""));
                            o[1]["digest"] = json!(d);
                        }
                        let namings = c["namings"].as_array().unwrap();
                        let results: Vec<Value> = o
                            .iter()
                            .zip(namings.iter())
                            .map(|(r, n)| json!({"nm": n["nm"], "class": r["class"], "digest": r["digest"], "bytes": r["bytes"], "stage": r["stage"]}))
                            .collect();
                        let uniform = o.iter().all(|r| r["class"] == "ok" && r["digest"] == o[0]["digest"]);
                        let mut rec = json!({"t": "nam", "sk": c["sk"], "results": results});
                        if !uniform {
                            // keep the first accepted source and up to three deviating ones for the replay file
                            let mut keep = Vec::new();
                            for (j, r) in o.iter().enumerate() {
                                if (r["class"] != "ok" || r["digest"] != o[0]["digest"]) && keep.len() < 3 {
                                    keep.push(json!({"variant": j, "names": namings[j]["names"], "detail": r["detail"], "src": srcs[j]}));
                                }
                            }
                            rec["sources"] = json!({"reference": srcs[0], "deviating": keep});
                        }
                        rec
                    }
                    "oos" => {
                        let mut r = o[0].clone();
                        if stub == "accept" {
                            r = json!({"class": "ok", "digest": "stub", "bytes": 1, "stage": "none", "detail": "stub"});
                        }
                        json!({"t": "oos", "sk": c["sk"], "b": c["b"], "slot": c["slot"], "form": c["form"], "class": r["class"], "bytes": r["bytes"],
                               "stage": r["stage"], "detail": r["detail"], "src": srcs[0]})
                    }
                    "gen" => {
                        if stub == "salt" {
                            let d = format!("{}x", o[1]["digest"].as_str().unwrap_or(""));
                            o[1]["digest"] = json!(d);
                        }
                        let mut rec = json!({"t": "gen", "rec": c["rec"], "id": c["id"], "shadow": c["shadow"],
                                             "distinct": o[0], "shadowed": o[1]});
                        if !(o[0]["class"] == "ok" && o[1]["class"] == "ok" && o[0]["digest"] == o[1]["digest"]) {
                            rec["sources"] = json!({"distinct": srcs[0], "shadowed": srcs[1]});
                        }
                        rec
                    }
                    _ => unreachable!(),
                };
                recs.push(rec);
            }
            write_ndjson(Path::new(&args[3]), &recs);
        }
        _ => tool_error("unknown mode"),
    }
}
