//! C02 recorder: TLC-emitted almost-well-typed programs -> printer -> real compiler; ONLY the accepted ones are run
//! in minilua (step and call-depth budgets); the run's events are recorded for Trace_Sound.
//!   c02 record <prelude.json> <cases.ndjson> <trace.ndjson> <detail.ndjson>
//!   c02 print  <prelude.json> <cases.ndjson> <n>          source text of case n
//!   c02 probe  <file.sy>...                               compile + run source files (debugging)
//! Case:   {id, kd, v, pre, tops}          (pre: the common Prelude precedes tops)
//! Trace:  {id, kd, v, ev:[{e, n, c, x}]}  one record per case, events in order:
//!            start; compile_err | compile_panic | compile_ok;
//!            then for accepted programs  gw(name) / gr(name) (global writes / reads, in order), print(nil|val) ...,
//!            and one  term(done | assert_failed | unreachable | resource_exhausted | not_loadable |
//!                          dyn_type_error(c = what) | runtime_error(c = class) | unsupported)
//! Detail: {i, accepted, errkind, nerr, source?, lua_status?, prints?, stubbed}   (for reports, never for verdicts)
//! Negative controls (C02_STUB): "dynerr" reports a dynamic type error as the terminal event of every 5th accepted
//! run, "unwritten" inserts a read of a never written global there, "nilprint" reports its first print as nil:
//! Trace_Sound must reject exactly those.

use serde_json::{json, Value};
use std::path::Path;
use vharness::luarun::{self, Status};
use vharness::printer::{print_program, PrintOpts};
use vharness::util::*;
use vharness::{CompileResult, Project};

fn ev(e: &str, n: &str, c: &str, x: i64) -> Value {
    json!({"e": e, "n": n, "c": c, "x": x})
}

/// "attempt to perform arithmetic on a nil value (local 'a')" -> "arith-on-nil"
fn dyn_detail(class: &str, message: &str) -> String {
    let m = match message.find("attempt to ") {
        Some(i) => &message[i + "attempt to ".len()..],
        None => return class.to_lowercase(),
    };
    let m = m.split(" (").next().unwrap_or(m);
    let words: Vec<&str> = m.split_whitespace().collect();
    let ty = |w: &str| w.trim_end_matches(|c: char| !c.is_ascii_alphabetic()).to_string();
    match words.as_slice() {
        ["perform", "arithmetic", "on", "a", t, ..] => format!("arith-on-{}", ty(t)),
        ["perform", "bitwise", ..] => "bitwise".into(),
        ["concatenate", "a", t, ..] => format!("concat-of-{}", ty(t)),
        ["call", "a", t, ..] => format!("call-of-{}", ty(t)),
        ["index", "a", t, ..] => format!("index-of-{}", ty(t)),
        ["compare", "two", t, ..] => format!("compare-two-{}", ty(t)),
        ["compare", a, "with", b, ..] => format!("compare-{}-with-{}", ty(a), ty(b)),
        ["get", "length", "of", "a", t, ..] => format!("length-of-{}", ty(t)),
        _ => class.to_lowercase(),
    }
}

fn source_of(prelude: &[Value], case: &Value, opts: &PrintOpts) -> String {
    let tops = case["tops"].as_array().unwrap();
    if case["pre"].as_bool().unwrap_or(false) {
        let mut all = prelude.to_vec();
        all.extend(tops.iter().cloned());
        print_program(&all, opts)
    } else {
        print_program(tops, opts)
    }
}

fn run_accepted(lua: &str, events: &mut Vec<Value>, stub: &str, stub_here: bool) -> Value {
    let mut o = luarun::default_opts();
    o.record_events = true;
    o.max_steps = 3_000_000;
    o.max_call_depth = 1000;
    let r = luarun::run_with(lua, &o);
    for e in r.events.iter() {
        match e {
            minilua::Event::GlobalWrite { name, .. } => events.push(ev("gw", name, "", 0)),
            minilua::Event::GlobalRead { name, .. } => events.push(ev("gr", name, "", 0)),
            _ => {}
        }
    }
    for (i, p) in r.obs.prints.iter().enumerate().take(60) {
        let nil = p == "nil" || (stub_here && stub == "nilprint" && i == 0);
        events.push(ev("print", if nil { "nil" } else { "val" }, "", i as i64 + 1));
    }
    if stub_here && stub == "unwritten" {
        events.push(ev("gr", "V999999", "", 0));
    }
    let term = if stub_here && stub == "dynerr" {
        ev("term", "dyn_type_error", "arith-on-nil", 0)
    } else {
        match &r.obs.status {
            Status::Done => ev("term", "done", "", 0),
            Status::AssertFailed => ev("term", "assert_failed", "", 0),
            Status::Unreachable { line } => ev("term", "unreachable", "", *line as i64),
            Status::StackOverflow | Status::StepLimit => ev("term", "resource_exhausted", &r.obs.status.short(), 0),
            Status::LoadError { .. } => ev("term", "not_loadable", "", 0),
            Status::Unsupported { .. } => ev("term", "unsupported", "", 0),
            Status::LuaError { class, message } => {
                if r.obs.status.is_dynamic_type_error() {
                    ev("term", "dyn_type_error", &dyn_detail(class, message), 0)
                } else if let Some(i) = message.find("bad argument #") {
                    // a library function applied to a value of the wrong type: "bad argument #1 to 'insert' (table expected, got nil)"
                    let got = message[i..].split("got ").nth(1).unwrap_or("").trim_end_matches(')').split_whitespace().next().unwrap_or("");
                    let got = if got == "no" { "nothing" } else { got };
                    ev("term", "dyn_type_error", &format!("bad-argument-got-{}", got), 0)
                } else {
                    ev("term", "runtime_error", class, 0)
                }
            }
        }
    };
    events.push(term);
    json!({"lua_status": format!("{:?}", r.obs.status), "prints": r.obs.prints.iter().take(60).collect::<Vec<_>>(), "steps": r.obs.steps})
}

fn main() {
    let args: Vec<String> = std::env::args().collect();
    vharness::project::quiet_panics();
    if args.len() < 3 {
        tool_error("usage: c02 record|print|probe ...");
    }
    let popts = PrintOpts::default();
    match args[1].as_str() {
        "probe" => {
            for f in &args[2..] {
                let src = std::fs::read_to_string(f).unwrap();
                println!("=== {}", f);
                match vharness::compile(&Project::single(&src)) {
                    CompileResult::Ok { lua } => {
                        if std::env::var("SHOW_LUA").is_ok() {
                            println!("{}", vharness::project::body_of(&lua));
                        }
                        let mut evs = Vec::new();
                        let d = run_accepted(&lua, &mut evs, "", false);
                        println!("ACCEPTED prints={} status={} term={}", d["prints"], d["lua_status"], evs.last().unwrap());
                    }
                    CompileResult::Err { errors, .. } => println!(
                        "REJECTED {}",
                        errors.first().map(|e| format!("{}:{} {} {}", e.file, e.line, e.kind, e.message)).unwrap_or_default()
                    ),
                    CompileResult::Panic { message, .. } => println!("PANIC {}", message),
                }
            }
        }
        "print" => {
            let prelude: Vec<Value> = serde_json::from_str(&std::fs::read_to_string(&args[2]).unwrap()).unwrap();
            let cases: Vec<Value> = read_ndjson(Path::new(&args[3]));
            let n: usize = args[4].parse().unwrap();
            println!("{}", source_of(&prelude, &cases[n], &popts));
        }
        "record" => {
            if args.len() < 6 {
                tool_error("usage: c02 record <prelude.json> <cases.ndjson> <trace.ndjson> <detail.ndjson>");
            }
            let prelude: Vec<Value> = serde_json::from_str(&std::fs::read_to_string(&args[2]).unwrap()).unwrap();
            let stub = std::env::var("C02_STUB").unwrap_or_default();
            // the cases are streamed in chunks (a thorough universe is > 100 000 programs: holding cases, sources and
            // details of all of them at once took 8 GB)
            use std::io::{BufRead, Write};
            let input = std::io::BufReader::new(std::fs::File::open(&args[3]).unwrap_or_else(|e| tool_error(&format!("cannot read {}: {}", args[3], e))));
            let mut tout = std::io::BufWriter::new(std::fs::File::create(&args[4]).unwrap());
            let mut dout = std::io::BufWriter::new(std::fs::File::create(&args[5]).unwrap());
            let mut lines = input.lines();
            let mut base = 0usize;
            loop {
                let mut cases: Vec<Value> = Vec::new();
                for l in lines.by_ref() {
                    let l = l.unwrap();
                    if l.trim().is_empty() {
                        continue;
                    }
                    cases.push(serde_json::from_str(&l).unwrap_or_else(|e| tool_error(&format!("bad case line: {}", e))));
                    if cases.len() >= 4000 {
                        break;
                    }
                }
                if cases.is_empty() {
                    break;
                }
                let out = vharness::pool::par_map(&cases, |j, c| {
                    let i = base + j;
                    let src = source_of(&prelude, c, &popts);
                    let mut events = vec![ev("start", "", "", 0)];
                    let mut detail = json!({"i": i, "accepted": false, "stubbed": false});
                    match vharness::compile(&Project::single(&src)) {
                        CompileResult::Ok { lua } => {
                            events.push(ev("compile_ok", "", "", lua.len() as i64));
                            let stub_here = !stub.is_empty() && i % 5 == 2;
                            let d = run_accepted(&lua, &mut events, &stub, stub_here);
                            detail["accepted"] = json!(true);
                            detail["stubbed"] = json!(stub_here);
                            detail["run"] = d;
                            detail["source"] = json!(src);
                        }
                        CompileResult::Err { errors, bytes_written } => {
                            let kind = errors.first().map(|e| e.kind.clone()).unwrap_or_default();
                            events.push(ev("compile_err", &kind, "", errors.len() as i64));
                            detail["errkind"] = json!(kind);
                            detail["nerr"] = json!(errors.len());
                            detail["bytes"] = json!(bytes_written);
                            detail["errline"] = json!(errors.first().map(|e| e.line).unwrap_or(0));
                        }
                        CompileResult::Panic { message, .. } => {
                            events.push(ev("compile_panic", "", "", 0));
                            detail["errkind"] = json!("panic");
                            detail["panic"] = json!(message);
                            detail["source"] = json!(src);
                        }
                    }
                    (json!({"id": c["id"], "kd": c["kd"], "v": c["v"], "ev": events}), detail)
                });
                for (t, d) in out.iter() {
                    serde_json::to_writer(&mut tout, t).unwrap();
                    tout.write_all(b"\n").unwrap();
                    serde_json::to_writer(&mut dout, d).unwrap();
                    dout.write_all(b"\n").unwrap();
                }
                base += cases.len();
            }
            tout.flush().unwrap();
            dout.flush().unwrap();
        }
        _ => tool_error("unknown mode"),
    }
}
