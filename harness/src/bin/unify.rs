//! Recorder for Trace_Unify: compiles programs with the type checker's union-find hooks switched on
//! (sylt built with --cfg sylt_verif) and writes one record per compilation.
//!   unify record <cases.ndjson> <trace.ndjson>     case: {id, src, std: bool} -> {id, class, ev:[...]}
//! Built into harness/target-hooked by vlib.harness_hooked(); in the ordinary build it is a stub.

#[cfg(not(sylt_verif))]
fn main() {
    eprintln!("TOOL-ERROR: unify was built without --cfg sylt_verif");
    std::process::exit(2);
}

#[cfg(sylt_verif)]
fn main() {
    use serde_json::{json, Value};
    use std::path::Path;
    use vharness::util::*;
    use vharness::{CompileResult, Project};
    let args: Vec<String> = std::env::args().collect();
    if args.len() < 4 || args[1] != "record" {
        tool_error("usage: unify record <cases> <trace>");
    }
    let stub = std::env::var("UNIFY_STUB").unwrap_or_default();
    let cases: Vec<Value> = read_ndjson(Path::new(&args[2]));
    vharness::project::quiet_panics();
    let out = vharness::pool::par_map(&cases, |i, c| {
        let src = c["src"].as_str().unwrap();
        let mut opts = vharness::project::CompileOpts::default();
        opts.no_std = !c["std"].as_bool().unwrap_or(false);
        sylt_compiler::verif_trace::start();
        let (res, _) = vharness::project::compile_opts(&Project::single(src), &opts);
        let events = sylt_compiler::verif_trace::take();
        let class = match res {
            CompileResult::Ok { .. } => "ok",
            CompileResult::Err { .. } => "err",
            CompileResult::Panic { .. } => "panic",
        };
        let mut ev: Vec<Value> = events.iter().map(|e| serde_json::from_str(e).expect("event is JSON")).collect();
        // negative control: pretend the implementation lost one constraint in some union
        if stub == "lose" && i % 2 == 0 {
            if let Some(u) = ev.iter_mut().find(|e| e["e"] == "union" && e["n"].as_i64().unwrap_or(0) > 0) {
                u["n"] = json!(u["n"].as_i64().unwrap() - 1);
            }
        }
        json!({"id": c["id"], "class": class, "ev": ev})
    });
    write_ndjson(Path::new(&args[3]), &out);
}
