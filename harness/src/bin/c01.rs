//! C01/C10/C06 replayer: spec-executed programs -> printer -> real compiler -> minilua; compare traces.
//!   c01 replay <cases.ndjson> <results.ndjson>
//!   c01 print <cases.ndjson> <n>        print the source of case n (debugging / replays)
//! Case: {id, tops, out:[{k:"print", v:snapshot}], status}.
//! Result: {i, verdict: "ok"|"mismatch"|"rejected"|"panic"|"dropped"|"load_error"|"unsupported", expected, got, source?, ...}

use serde_json::{json, Value};
use std::path::Path;
use vharness::printer::{print_program, PrintOpts};
use vharness::util::*;
use vharness::{CompileResult, Project};

/// Text of a print snapshot. The kinds of the numeric-limits dimension are handled here: `i64` / `fx` carry the text the
/// specification computed (64-bit ints in decimal; inf, -inf, nan, -0.0); `fbig` is the float n * 2^e, shown like every other
/// float ("%.14g"). Everything else is util::render_value.
fn snapshot_text(v: &Value) -> String {
    match v["k"].as_str().unwrap_or("?") {
        "i64" | "fx" => v["text"].as_str().unwrap().to_string(),
        "fbig" => lua_float_text(v["n"].as_i64().unwrap() as f64 * 2f64.powi(v["e"].as_i64().unwrap() as i32)),
        "tuple" => {
            let es: Vec<String> = v["es"].as_array().unwrap().iter().map(snapshot_text).collect();
            if es.len() == 1 {
                format!("({},)", es[0])
            } else {
                format!("({})", es.join(", "))
            }
        }
        "list" => format!("[{}]", v["es"].as_array().unwrap().iter().map(snapshot_text).collect::<Vec<_>>().join(", ")),
        "variant" => format!("{} {}", v["tag"].as_str().unwrap(), snapshot_text(&v["val"])),
        _ => render_value(v),
    }
}

fn expected(case: &Value) -> (Vec<String>, String) {
    let prints: Vec<String> = case["out"].as_array().unwrap().iter().map(|e| snapshot_text(&e["v"])).collect();
    (prints, case["status"].as_str().unwrap().to_string())
}

/// The sign of a NaN is not something a Sylt program denotes (x86 produces "-nan" for inf - inf, other machines "nan"):
/// an observed "-nan" is read as "nan", also inside the text of a tuple or list.
fn normalise_nan(line: &str) -> String {
    if line.contains("-nan") {
        line.replace("-nan", "nan")
    } else {
        line.to_string()
    }
}

#[cfg(feature = "lua")]
fn run_case(src: &str, lua: &str, case: &Value) -> Value {
    use vharness::luarun::{self, Status};
    let (want_prints, want_status) = expected(case);
    let mut opts = luarun::default_opts();
    opts.record_events = std::env::var("C01_EVENTS").is_ok();
    let r = luarun::run_with(lua, &opts);
    let got_status = match &r.obs.status {
        Status::Done => "done".to_string(),
        Status::AssertFailed => "assert_failed".to_string(),
        Status::Unreachable { .. } => "unreachable".to_string(),
        other => other.short(),
    };
    let got_prints: Vec<String> = r.obs.prints.iter().map(|l| normalise_nan(l)).collect();
    let ok = got_status == want_status && got_prints == want_prints;
    let verdict = match &r.obs.status {
        Status::LoadError { .. } => "load_error",
        // the emitted chunk uses something minilua does not provide: what the compiler emitted is data (the checks decide)
        Status::Unsupported { .. } => "unsupported",
        Status::StepLimit => "dropped",
        _ if ok => "ok",
        _ => "mismatch",
    };
    let mut out = json!({"verdict": verdict, "want": {"prints": want_prints, "status": want_status},
           "got": {"prints": got_prints, "status": got_status, "detail": format!("{:?}", r.obs.status)}});
    if verdict != "ok" {
        out["source"] = json!(src);
    }
    out
}

#[cfg(not(feature = "lua"))]
fn run_case(_src: &str, _lua: &str, _case: &Value) -> Value {
    json!({"verdict": "compiled"})
}

fn main() {
    let args: Vec<String> = std::env::args().collect();
    if args.len() < 4 {
        tool_error("usage: c01 replay|print ...");
    }
    let cases: Vec<Value> = read_ndjson(Path::new(&args[2]));
    let opts = PrintOpts::default();
    match args[1].as_str() {
        "print" => {
            let n: usize = args[3].parse().unwrap();
            println!("{}", print_program(cases[n]["tops"].as_array().unwrap(), &opts));
        }
        "replay" => {
            let results = vharness::pool::par_map(&cases, |i, c| {
                let status = c["status"].as_str().unwrap_or("");
                if status.starts_with("drop") || status.starts_with("stuck") {
                    return json!({"i": i, "verdict": "dropped", "why": status});
                }
                let src = print_program(c["tops"].as_array().unwrap(), &opts);
                let mut r = match vharness::compile(&Project::single(&src)) {
                    CompileResult::Ok { lua } => run_case(&src, &lua, c),
                    CompileResult::Err { errors, .. } => json!({"verdict":"rejected","source":src,
                        "error": errors.first().map(|e| format!("{}:{} {} {}", e.file, e.line, e.kind, e.message))}),
                    CompileResult::Panic { message, .. } => json!({"verdict":"panic","source":src,"error":message}),
                };
                r["i"] = json!(i);
                r
            });
            write_ndjson(Path::new(&args[3]), &results);
        }
        _ => tool_error("unknown mode"),
    }
}
