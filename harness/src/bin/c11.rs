//! C11 recorder: every textual permutation (and two-file split) of each SyltInit program -> real compiler -> minilua.
//!   c11 record <cases.ndjson> <trace.ndjson> <maxperm> <twogroups> <twoperms>
//!   c11 print  <cases.ndjson> <n> <perm> <mask> <style>     show the rendering of one variant (debugging / replays)
//!   c11 probe  <dir>                                         compile + run dir/main.sy (+ other .sy files)
//! Case:   {fam:"shape"|"pos"|"unspec"|"self"|"type"|"dead"|"deadself", id:[{kind,j}] | {pos,user} | {shape,use} | {ctx,pos,user}, n, class, tops:[top-level nodes in canonical order, start last], out, status}
//! Record: {fam, id, n, class, tops, obs:[{class, ekind, nerr, bytes, prints, status}], variants:[[perm, mask, style, obs#]], detail:{..}}
//!   perm  = index of the permutation of the NS statements in factoradic (Lehmer) order: 0 = canonical, NS!-1 = reversed
//!   mask  = bit c set: canonical statement c (0-based) lives in other.sy (start, the last statement, never does); 0 = one file
//!   style = 0 one file | 1 `from other use a, b` | 2 `use other` + qualified names
//!   obs#  = 1-based index into obs (distinct observations of this program)
//! The specification (Trace_Init) re-derives the program and its expected result from id, asserts that the variants
//! cover what it requires, and judges every variant. Nothing is decided here.
//! C11_STUB=dropprint|flipclass: negative controls (one variant per record is falsified).

use serde_json::{json, Value};
use std::collections::{BTreeMap, BTreeSet};
use std::path::Path;
use vharness::printer::{print_program, PrintOpts};
use vharness::project::{compile_opts, CompileOpts};
use vharness::util::*;
use vharness::{CompileResult, Project};

fn fact(n: usize) -> u64 {
    (1..=n as u64).product()
}

/// k-th permutation of 0..n in lexicographic (factoradic) order
fn perm_of(n: usize, mut k: u64) -> Vec<usize> {
    let mut elems: Vec<usize> = (0..n).collect();
    let mut out = Vec::with_capacity(n);
    for i in 0..n {
        let f = fact(n - 1 - i);
        let d = (k / f) as usize;
        k %= f;
        out.push(elems.remove(d));
    }
    out
}

struct Rng(u64);
impl Rng {
    fn next(&mut self) -> u64 {
        // splitmix64
        self.0 = self.0.wrapping_add(0x9E3779B97F4A7C15);
        let mut z = self.0;
        z = (z ^ (z >> 30)).wrapping_mul(0xBF58476D1CE4E5B9);
        z = (z ^ (z >> 27)).wrapping_mul(0x94D049BB133111EB);
        z ^ (z >> 31)
    }
    fn below(&mut self, n: u64) -> u64 {
        self.next() % n
    }
}

/// which permutations of a program with ns statements are rendered as one file
fn single_perms(ns: usize, maxperm: u64, rng: &mut Rng) -> Vec<u64> {
    let total = fact(ns);
    if total <= maxperm {
        return (0..total).collect();
    }
    let mut set: BTreeSet<u64> = BTreeSet::new();
    set.insert(0);
    set.insert(total - 1);
    while (set.len() as u64) < maxperm {
        set.insert(rng.below(total));
    }
    set.into_iter().collect()
}

/// two-file renderings: `groups` distinct (mask, style) pairs, each with `perms` distinct permutations
fn two_file_variants(ns: usize, groups: u64, perms: u64, rng: &mut Rng) -> Vec<(u64, u64, u64)> {
    if ns < 2 || groups == 0 || perms == 0 {
        return vec![];
    }
    let masks = (1u64 << (ns - 1)) - 1; // masks 1..=masks
    let mut gs: BTreeSet<(u64, u64)> = BTreeSet::new();
    if masks * 2 <= groups {
        for m in 1..=masks {
            for s in 1..=2 {
                gs.insert((m, s));
            }
        }
    } else {
        while (gs.len() as u64) < groups {
            gs.insert((1 + rng.below(masks), 1 + rng.below(2)));
        }
    }
    let mut out = Vec::new();
    for (m, s) in gs {
        for p in single_perms(ns, perms, rng) {
            out.push((p, m, s));
        }
    }
    out
}

// ---------------------------------------------------------------- rendering

/// global ids and type names a node refers to
fn refs(v: &Value, ids: &mut BTreeSet<i64>, types: &mut BTreeSet<String>) {
    match v {
        Value::Object(m) => {
            match m.get("k").and_then(|k| k.as_str()) {
                Some("var") => {
                    ids.insert(m["b"].as_i64().unwrap());
                }
                Some("tname") | Some("tapp") => {
                    types.insert(m["n"].as_str().unwrap().to_string());
                }
                Some("blob") => {
                    types.insert(m["name"].as_str().unwrap().to_string());
                }
                Some("variant") => {
                    types.insert(m["enum"].as_str().unwrap().to_string());
                }
                _ => {}
            }
            for (_, x) in m {
                refs(x, ids, types);
            }
        }
        Value::Array(a) => a.iter().for_each(|x| refs(x, ids, types)),
        _ => {}
    }
}

/// qualify the type names that are declared in the other file
fn qualify(v: &mut Value, foreign: &BTreeSet<String>, ns: &str) {
    match v {
        Value::Object(m) => {
            let field = match m.get("k").and_then(|k| k.as_str()) {
                Some("tname") | Some("tapp") => Some("n"),
                Some("blob") => Some("name"),
                Some("variant") => Some("enum"),
                _ => None,
            };
            if let Some(f) = field {
                let cur = m[f].as_str().unwrap().to_string();
                if foreign.contains(&cur) {
                    m.insert(f.to_string(), json!(format!("{}.{}", ns, cur)));
                }
            }
            for (_, x) in m.iter_mut() {
                qualify(x, foreign, ns);
            }
        }
        Value::Array(a) => a.iter_mut().for_each(|x| qualify(x, foreign, ns)),
        _ => {}
    }
}

fn decl_name(top: &Value) -> Option<String> {
    match top["k"].as_str() {
        Some("enum") | Some("blobdecl") => Some(top["name"].as_str().unwrap().to_string()),
        _ => None,
    }
}

fn global_name(top: &Value) -> Option<(i64, String)> {
    if top["k"] == "def" {
        let id = top["b"].as_i64().unwrap();
        let n = top["n"].as_str().unwrap_or("");
        Some((id, if n.is_empty() { format!("g{}", id) } else { n.to_string() }))
    } else {
        None
    }
}

/// the project for (perm, mask, style)
fn render(tops: &[Value], perm: u64, mask: u64, style: u64) -> Project {
    let ns = tops.len();
    let order = perm_of(ns, perm);
    if style == 0 {
        let seq: Vec<Value> = order.iter().map(|&c| tops[c].clone()).collect();
        return Project::single(&print_program(&seq, &PrintOpts::default()));
    }
    let in_other = |c: usize| mask >> c & 1 == 1;
    let all_names: BTreeMap<i64, String> = tops.iter().filter_map(global_name).collect();
    let mut files = BTreeMap::new();
    for (fname, other_name, is_other) in [("main", "other", false), ("other", "main", true)] {
        let mine: Vec<usize> = order.iter().cloned().filter(|&c| in_other(c) == is_other).collect();
        // what this file declares, what it needs from the other one
        let mut own_ids = BTreeSet::new();
        let mut own_types = BTreeSet::new();
        for &c in &mine {
            if let Some((id, _)) = global_name(&tops[c]) {
                own_ids.insert(id);
            }
            if let Some(n) = decl_name(&tops[c]) {
                own_types.insert(n);
            }
        }
        let mut ids = BTreeSet::new();
        let mut types = BTreeSet::new();
        for &c in &mine {
            refs(&tops[c], &mut ids, &mut types);
        }
        let need_ids: Vec<i64> = ids.iter().cloned().filter(|i| !own_ids.contains(i) && all_names.contains_key(i)).collect();
        let need_types: BTreeSet<String> = types.iter().cloned().filter(|t| !own_types.contains(t)).collect();
        let mut opts = PrintOpts::default();
        for (id, n) in &all_names {
            let qualified = style == 2 && !own_ids.contains(id);
            opts.naming.insert(*id, if qualified { format!("{}.{}", other_name, n) } else { n.clone() });
        }
        let mut seq: Vec<Value> = mine.iter().map(|&c| tops[c].clone()).collect();
        if style == 2 {
            for t in seq.iter_mut() {
                qualify(t, &need_types, other_name);
            }
        }
        let import = if style == 2 {
            // main always names the other file (it must be part of the project); the other file only when it needs main
            if !is_other || !need_ids.is_empty() || !need_types.is_empty() {
                Some(format!("use {}", other_name))
            } else {
                None
            }
        } else {
            let mut names: Vec<String> = need_ids.iter().map(|i| all_names[i].clone()).collect();
            names.extend(need_types.iter().cloned());
            if !names.is_empty() {
                Some(format!("from {} use {}", other_name, names.join(", ")))
            } else if !is_other {
                Some(format!("use {}", other_name))
            } else {
                None
            }
        };
        if let Some(line) = import {
            let node = json!({"k": "raw", "text": line});
            // imports are top-level statements too: first or last, depending on the permutation
            if perm % 2 == 0 {
                seq.insert(0, node);
            } else {
                seq.push(node);
            }
        }
        files.insert(format!("{}.sy", fname), print_program(&seq, &opts));
    }
    Project { files, main: "main.sy".into() }
}

// ---------------------------------------------------------------- observing

#[cfg(feature = "lua")]
fn run_lua(lua: &str) -> (Vec<String>, String, String) {
    use vharness::luarun::{self, Status};
    let r = luarun::run(lua);
    let st = match &r.status {
        Status::Done => "done".to_string(),
        other => other.short(),
    };
    (r.prints, st, format!("{:?}", r.status))
}

#[cfg(not(feature = "lua"))]
fn run_lua(_lua: &str) -> (Vec<String>, String, String) {
    tool_error("c11 needs the lua feature")
}

/// (observation as the specification sees it, free-text detail for humans)
fn observe(p: &Project) -> (Value, String) {
    match compile_opts(p, &CompileOpts::default()).0 {
        CompileResult::Ok { lua } => {
            let (prints, status, detail) = run_lua(&lua);
            (json!({"class": "ok", "ekind": "-", "nerr": 0, "bytes": lua.len().min(1), "prints": prints, "status": status}), detail)
        }
        CompileResult::Err { errors, bytes_written } => {
            let first = errors.first();
            (
                json!({"class": "err", "ekind": first.map(|e| e.kind.clone()).unwrap_or_else(|| "-".into()),
                       "nerr": errors.len(), "bytes": bytes_written, "prints": [], "status": "-"}),
                first.map(|e| format!("{}:{} {} {}", e.file, e.line, e.kind, e.message)).unwrap_or_default(),
            )
        }
        CompileResult::Panic { message, bytes_written } => (
            json!({"class": "panic", "ekind": "-", "nerr": 0, "bytes": bytes_written, "prints": [], "status": "-"}),
            message,
        ),
    }
}

fn seed_for(id: &Value) -> u64 {
    seed().wrapping_mul(0x100000001b3) ^ fnv(&id.to_string())
}

fn record_case(c: &Value, maxperm: u64, twog: u64, twop: u64, stub: &str) -> Value {
    let tops = c["tops"].as_array().unwrap();
    let ns = tops.len();
    if tops[ns - 1]["n"] != "start" {
        tool_error("c11: the last canonical statement must be start");
    }
    let mut rng = Rng(seed_for(&json!([c["fam"], c["id"]])));
    let mut plan: Vec<(u64, u64, u64)> = single_perms(ns, maxperm, &mut rng).into_iter().map(|p| (p, 0, 0)).collect();
    let nsingle = plan.len();
    plan.extend(two_file_variants(ns, twog, twop, &mut rng));
    let mut obs: Vec<Value> = Vec::new();
    let mut detail: BTreeMap<String, String> = BTreeMap::new();
    let mut variants: Vec<Value> = Vec::new();
    for (vi, &(perm, mask, style)) in plan.iter().enumerate() {
        let (mut o, d) = observe(&render(tops, perm, mask, style));
        if stub == "dropprint" && vi == 2.min(nsingle - 1) {
            let mut pr = o["prints"].as_array().cloned().unwrap_or_default();
            if pr.pop().is_some() {
                o["prints"] = json!(pr);
            }
        }
        if stub == "flipclass" && vi == 1.min(nsingle - 1) {
            o = if o["class"] == "ok" {
                json!({"class": "err", "ekind": "compile", "nerr": 1, "bytes": 0, "prints": [], "status": "-"})
            } else {
                json!({"class": "ok", "ekind": "-", "nerr": 0, "bytes": 1, "prints": [], "status": "done"})
            };
        }
        let oi = match obs.iter().position(|x| *x == o) {
            Some(i) => i,
            None => {
                obs.push(o);
                detail.insert(format!("{}", obs.len()), d);
                obs.len() - 1
            }
        };
        variants.push(json!([perm, mask, style, oi + 1]));
    }
    json!({"fam": c["fam"], "id": c["id"], "n": c["n"], "class": c["class"], "tops": c["tops"], "obs": obs, "variants": variants, "detail": detail})
}

fn main() {
    let args: Vec<String> = std::env::args().collect();
    if args.len() < 3 {
        tool_error("usage: c11 record|print|probe ...");
    }
    match args[1].as_str() {
        "record" => {
            if args.len() < 7 {
                tool_error("usage: c11 record <cases> <trace> <maxperm> <twogroups> <twoperms>");
            }
            // self-check of the permutation numbering the specification relies on
            for n in 1..=6usize {
                let all: BTreeSet<Vec<usize>> = (0..fact(n)).map(|k| perm_of(n, k)).collect();
                if all.len() as u64 != fact(n) || perm_of(n, 0) != (0..n).collect::<Vec<_>>() {
                    tool_error("c11: perm_of is not a bijection");
                }
            }
            let cases: Vec<Value> = read_ndjson(Path::new(&args[2]));
            let maxperm: u64 = args[4].parse().unwrap();
            let twog: u64 = args[5].parse().unwrap();
            let twop: u64 = args[6].parse().unwrap();
            let stub = std::env::var("C11_STUB").unwrap_or_default();
            let recs = vharness::pool::par_map(&cases, |_, c| record_case(c, maxperm, twog, twop, &stub));
            write_ndjson(Path::new(&args[3]), &recs);
        }
        "print" => {
            if args.len() < 7 {
                tool_error("usage: c11 print <cases> <n> <perm> <mask> <style>");
            }
            let cases: Vec<Value> = read_ndjson(Path::new(&args[2]));
            let n: usize = args[3].parse().unwrap();
            let p = render(cases[n]["tops"].as_array().unwrap(), args[4].parse().unwrap(), args[5].parse().unwrap(), args[6].parse().unwrap());
            for (f, text) in &p.files {
                println!("// ---- {}\n{}", f, text);
            }
            let (o, d) = observe(&p);
            println!("// observation: {}\n// detail: {}", o, d);
        }
        "probe" => {
            let mut files = BTreeMap::new();
            for e in std::fs::read_dir(&args[2]).unwrap() {
                let p = e.unwrap().path();
                if p.extension().map(|x| x == "sy").unwrap_or(false) {
                    files.insert(p.file_name().unwrap().to_string_lossy().to_string(), std::fs::read_to_string(&p).unwrap());
                }
            }
            let (o, d) = observe(&Project { files, main: "main.sy".into() });
            println!("{}\n{}", o, d);
        }
        _ => tool_error("usage: c11 record|print|probe ..."),
    }
}
