//! C08 recorder: compile every annotation-erasure variant of each program.
//!   c08 record <cases.ndjson> <trace.ndjson> <maxexh>
//! Case: {id, tops, nsites, nprelude}. Record: {id, nsites, nprelude, results:[{mask:[bool], class, digest}]}.
//! The mask universe mirrors SyltAnnot!Masks; TLC asserts that the record covers it.
//! C08_STUB=salt: negative control, perturbs the digest of one variant per program.
//!   c08 probe <file.sy>..                                   compile hand-written programs (analysis aid)
//!   c08 print <cases.ndjson> <line> [all|none|0110..]       program text of a case (analysis aid)

use serde_json::{json, Value};
use std::collections::BTreeSet;
use std::path::Path;
use vharness::printer::{print_program_sites, Annot, PrintOpts};
use vharness::util::*;
use vharness::{CompileResult, Project};

fn masks(n: usize, np: usize, maxexh: usize) -> Vec<Vec<bool>> {
    let mut set: BTreeSet<Vec<bool>> = BTreeSet::new();
    set.insert(vec![true; n]);
    set.insert(vec![false; n]);
    for s in 0..n {
        set.insert((0..n).map(|j| j != s).collect());
        set.insert((0..n).map(|j| j == s).collect());
        set.insert((0..n).map(|j| j > s).collect());
    }
    let nf = n - np;
    if nf <= maxexh {
        for bits in 0..(1u32 << nf) {
            for base in [true, false] {
                let mut m = vec![base; np];
                for j in 0..nf {
                    m.push(bits >> j & 1 == 1);
                }
                set.insert(m);
            }
        }
    }
    set.into_iter().collect()
}

fn main() {
    let args: Vec<String> = std::env::args().collect();
    if args.len() >= 3 && args[1] == "probe" {
        // c08 probe <file.sy>...: compile hand-written programs (analysis aid, not part of the check)
        for f in &args[2..] {
            let src = std::fs::read_to_string(f).unwrap_or_else(|e| tool_error(&format!("{}: {}", f, e)));
            match vharness::compile(&Project::single(&src)) {
                CompileResult::Ok { lua } => println!("{}: ok {}", f, hex(fnv(&lua))),
                CompileResult::Err { errors, .. } => println!(
                    "{}: err {}",
                    f,
                    errors.iter().map(|e| format!("{}:{} {}", e.file, e.line, e.message)).collect::<Vec<_>>().join(" | ")
                ),
                CompileResult::Panic { message, .. } => println!("{}: panic {}", f, message),
            }
        }
        return;
    }
    if args.len() >= 4 && args[1] == "print" {
        // c08 print <cases.ndjson> <line (1-based)> [all|none|<mask of 0/1>]: the program text of a case (analysis aid)
        let cases: Vec<Value> = read_ndjson(Path::new(&args[2]));
        let c = &cases[args[3].parse::<usize>().unwrap() - 1];
        let annot = match args.get(4).map(|x| x.as_str()) {
            None | Some("all") => Annot::All,
            Some("none") => Annot::None,
            Some(bits) => Annot::Mask(bits.chars().map(|ch| ch == '1').collect()),
        };
        let opts = PrintOpts { annot, ..Default::default() };
        let (src, sites, _, _) = print_program_sites(c["tops"].as_array().unwrap(), &opts);
        println!("// {} sites={}\n{}", c["id"], sites, src);
        return;
    }
    if args.len() < 5 || args[1] != "record" {
        tool_error("usage: c08 record <cases> <trace> <maxexh>");
    }
    let cases: Vec<Value> = read_ndjson(Path::new(&args[2]));
    let maxexh: usize = args[4].parse().unwrap();
    let salt = std::env::var("C08_STUB").ok().as_deref() == Some("salt");
    let recs = vharness::pool::par_map(&cases, |_, c| {
        let tops = c["tops"].as_array().unwrap();
        let n = c["nsites"].as_u64().unwrap() as usize;
        let np = c["nprelude"].as_u64().unwrap() as usize;
        let mut results = Vec::new();
        let all_masks = masks(n, np, maxexh);
        let salted = 3.min(all_masks.len() - 1);
        for (vi, m) in all_masks.into_iter().enumerate() {
            let opts = PrintOpts { annot: Annot::Mask(m.clone()), ..Default::default() };
            let (src, sites, _, _) = print_program_sites(tops, &opts);
            if sites != n {
                tool_error(&format!("printer sees {} annotation sites, specification says {}", sites, n));
            }
            let (class, mut digest, detail) = match vharness::compile(&Project::single(&src)) {
                CompileResult::Ok { lua } => ("ok", hex(fnv(&lua)), String::new()),
                CompileResult::Err { errors, .. } => (
                    "err",
                    String::new(),
                    errors.first().map(|e| format!("{}:{} {}", e.file, e.line, e.message)).unwrap_or_default(),
                ),
                CompileResult::Panic { message, .. } => ("panic", String::new(), message),
            };
            if salt && vi == salted {
                digest.push('x');
            }
            let mut r = json!({"mask": m, "class": class, "digest": digest});
            if class != "ok" {
                r["detail"] = json!(detail);
                r["source"] = json!(src);
            }
            results.push(r);
        }
        json!({"id": c["id"], "nsites": n, "nprelude": np, "results": results})
    });
    write_ndjson(Path::new(&args[3]), &recs);
}
