//! C08 recorder: compile every annotation-erasure variant of each program.
//!   c08 record <cases.ndjson> <trace.ndjson> <maxexh>
//! Case: {id, tops, nsites, nprelude [, files: [{path, tops}]]}. Record: {id, nsites, nprelude, results:[{mask:[bool], class, digest}]}.
//! `tops` is main.sy; `files` are further files of the project (multi-file families). The sites of a project are
//! numbered main.sy first, then the files in the order given (the order SyltAnnot!NumSitesP counts them in).
//! The mask universe mirrors SyltAnnot!Masks; TLC asserts that the record covers it.
//! C08_STUB=salt: negative control, perturbs the digest of one variant per program.
//!   c08 probe <file.sy | dir>..                             compile hand-written programs / projects (dir/main.sy) (analysis aid)
//!   c08 print <cases.ndjson> <line> [all|none|0110..]       program text of a case (analysis aid)

use serde_json::{json, Value};
use std::collections::{BTreeMap, BTreeSet};
use std::path::Path;
use vharness::printer::{print_program_sites, Annot, PrintOpts};
use vharness::util::*;
use vharness::{CompileResult, Project};

fn masks(n: usize, np: usize, maxexh: usize) -> Vec<Vec<bool>> {
    let mut set: BTreeSet<Vec<bool>> = BTreeSet::new();
    set.insert(vec![true; n]);
    set.insert(vec![false; n]);
    for s in 0..n {
        set.insert((0..n).map(|j| j != s).collect());
        set.insert((0..n).map(|j| j == s).collect());
        set.insert((0..n).map(|j| j > s).collect());
    }
    let nf = n - np;
    if nf <= maxexh {
        for bits in 0..(1u32 << nf) {
            for base in [true, false] {
                let mut m = vec![base; np];
                for j in 0..nf {
                    m.push(bits >> j & 1 == 1);
                }
                set.insert(m);
            }
        }
    }
    set.into_iter().collect()
}

/// Render a case with the given mask: (project, number of sites seen by the printer, text for diagnostics).
fn render(c: &Value, mask: Option<&Vec<bool>>) -> (Project, usize, String) {
    let mut parts: Vec<(String, &Vec<Value>)> = vec![("main.sy".to_string(), c["tops"].as_array().unwrap())];
    if let Some(fs) = c.get("files").and_then(|x| x.as_array()) {
        for f in fs {
            parts.push((f["path"].as_str().unwrap().to_string(), f["tops"].as_array().unwrap()));
        }
    }
    let mut files = BTreeMap::new();
    let mut offset = 0usize;
    let mut text = String::new();
    for (path, tops) in &parts {
        // count this file's sites first, then print it with its slice of the mask
        let (_, n, _, _) = print_program_sites(tops, &PrintOpts::default());
        let annot = match mask {
            None => Annot::All,
            Some(m) => {
                if n == 0 {
                    Annot::None
                } else {
                    Annot::Mask((0..n).map(|j| *m.get(offset + j).unwrap_or(&true)).collect())
                }
            }
        };
        let (src, _, _, _) = print_program_sites(tops, &PrintOpts { annot, ..Default::default() });
        offset += n;
        if parts.len() > 1 {
            text.push_str(&format!("// ---- {}\n", path));
        }
        text.push_str(&src);
        files.insert(path.clone(), src);
    }
    (Project { files, main: "main.sy".into() }, offset, text)
}

fn load_dir(root: &Path, dir: &Path, files: &mut BTreeMap<String, String>) {
    for e in std::fs::read_dir(dir).unwrap() {
        let p = e.unwrap().path();
        if p.is_dir() {
            load_dir(root, &p, files);
        } else if p.extension().map(|x| x == "sy").unwrap_or(false) {
            files.insert(p.strip_prefix(root).unwrap().to_string_lossy().to_string(), std::fs::read_to_string(&p).unwrap());
        }
    }
}

fn main() {
    let args: Vec<String> = std::env::args().collect();
    if args.len() >= 3 && args[1] == "probe" {
        // analysis aid, not part of the check
        for f in &args[2..] {
            let p = Path::new(f);
            let project = if p.is_dir() {
                let mut files = BTreeMap::new();
                load_dir(p, p, &mut files);
                Project { files, main: "main.sy".into() }
            } else {
                Project::single(&std::fs::read_to_string(f).unwrap_or_else(|e| tool_error(&format!("{}: {}", f, e))))
            };
            match vharness::compile(&project) {
                CompileResult::Ok { lua } => println!("{}: ok {}", f, hex(fnv(&lua))),
                CompileResult::Err { errors, .. } => println!(
                    "{}: err {}",
                    f,
                    errors.iter().map(|e| format!("{}:{} {}", e.file, e.line, e.message)).collect::<Vec<_>>().join(" | ")
                ),
                CompileResult::Panic { message, .. } => println!("{}: panic {}", f, message),
            }
        }
        return;
    }
    if args.len() >= 4 && args[1] == "print" {
        // analysis aid: c08 print <cases.ndjson> <line (1-based)> [all|none|<mask of 0/1>]
        let cases: Vec<Value> = read_ndjson(Path::new(&args[2]));
        let c = &cases[args[3].parse::<usize>().unwrap() - 1];
        let n = c["nsites"].as_u64().unwrap_or(64) as usize;
        let mask: Option<Vec<bool>> = match args.get(4).map(|x| x.as_str()) {
            None | Some("all") => None,
            Some("none") => Some(vec![false; n]),
            Some(bits) => Some(bits.chars().map(|ch| ch == '1').collect()),
        };
        let (_, sites, text) = render(c, mask.as_ref());
        println!("// {} sites={}\n{}", c["id"], sites, text);
        return;
    }
    if args.len() < 5 || args[1] != "record" {
        tool_error("usage: c08 record <cases> <trace> <maxexh>");
    }
    let cases: Vec<Value> = read_ndjson(Path::new(&args[2]));
    let maxexh: usize = args[4].parse().unwrap();
    let salt = std::env::var("C08_STUB").ok().as_deref() == Some("salt");
    let recs = vharness::pool::par_map(&cases, |_, c| {
        let n = c["nsites"].as_u64().unwrap() as usize;
        let np = c["nprelude"].as_u64().unwrap() as usize;
        let mut results = Vec::new();
        let all_masks = masks(n, np, maxexh);
        let salted = 3.min(all_masks.len() - 1);
        for (vi, m) in all_masks.into_iter().enumerate() {
            let (project, sites, text) = render(c, Some(&m));
            if sites != n {
                tool_error(&format!("printer sees {} annotation sites, specification says {}", sites, n));
            }
            let (class, mut digest, detail) = match vharness::compile(&project) {
                CompileResult::Ok { lua } => ("ok", hex(fnv(&lua)), String::new()),
                CompileResult::Err { errors, .. } => (
                    "err",
                    String::new(),
                    errors.first().map(|e| format!("{}:{} {}", e.file, e.line, e.message)).unwrap_or_default(),
                ),
                CompileResult::Panic { message, .. } => ("panic", String::new(), message),
            };
            if salt && vi == salted {
                digest.push('x');
            }
            let mut r = json!({"mask": m, "class": class, "digest": digest});
            if class != "ok" {
                r["detail"] = json!(detail);
                r["source"] = json!(text);
            }
            results.push(r);
        }
        json!({"id": c["id"], "nsites": n, "nprelude": np, "results": results})
    });
    write_ndjson(Path::new(&args[3]), &recs);
}
