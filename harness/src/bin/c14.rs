//! C14 recorder / replayer: sugar and layout never change meaning.
//!
//!   c14 record <cases.ndjson> <preludes.json> <trace.ndjson>
//!       case   {id, pre, focus, sites, variants:[choice function]}      (emitted by TLC, MC_Surface mode emit)
//!       record {id, pre, focus, written, results:[{ch, class, raw, masked, ast}]}   results[0] is the plain variant
//!       For every variant: render (surface.rs, strict), compile through the public API, parse with the real parser.
//!         raw    = FNV digest of the emitted Lua
//!         masked = the same after replacing N in "Reached unreachable code on line N" (the one source-line number
//!                  the emitter embeds: intermediate.rs, S::Unreachable) by '#'
//!         ast    = digest of the real parser's tree (astdump: spans and Parenthesis nodes dropped, arrow calls
//!                  desugared; additionally `ret e` as the last statement of a function is read as `e`)
//!       Verdicts are NOT taken here: TLC (MC_Surface mode validate) re-derives the variant universe and compares.
//!   c14 parse <exprs.ndjson> <cases.ndjson> <out.ndjson>
//!       token-model replay: render expression j under the RAW choice, parse with the real parser, record the tree
//!       as text {j, ch, core, got}; TLC (mode pvalidate) compares with the reference parser.
//!   c14 render        {tops, ch, triv} on stdin -> source text on stdout (for replay files and notes)
//!   c14 probe         sources separated by a line "=====" on stdin -> parse tree / compile class per source
//!
//! Negative controls (C14_STUB): swap (one variant rendered from a core with two arguments swapped), salt (masked
//! digest of one variant perturbed), rawsalt (raw digest of a sugar-only variant perturbed), drop (one variant
//! missing), extra (a recorded choice function that is not legal), flip (parse mode: first two arguments of every
//! call swapped in the reported tree).

use serde_json::{json, Value};
use std::collections::BTreeMap;
use std::io::Read;
use std::path::Path;
use vharness::printer::{print_program, PrintOpts};
use vharness::surface::{choice_of, render_expr_stmt, render_program, triv_of};
use vharness::util::*;
use vharness::{CompileResult, Project};

const UNREACH: &str = "Reached unreachable code on line ";

fn mask_lines(lua: &str) -> String {
    let mut out = String::with_capacity(lua.len());
    let mut rest = lua;
    while let Some(i) = rest.find(UNREACH) {
        let (a, b) = rest.split_at(i + UNREACH.len());
        out.push_str(a);
        let digits = b.chars().take_while(|c| c.is_ascii_digit()).count();
        out.push('#');
        rest = &b[digits..];
    }
    out.push_str(rest);
    out
}

/// `ret e` as the last statement of a function body is the same tree as the trailing expression `e`
fn norm_tails(v: &mut Value) {
    match v {
        Value::Array(a) => a.iter_mut().for_each(norm_tails),
        Value::Object(o) => {
            if o.get("k").and_then(|k| k.as_str()) == Some("blob") {
                // astdump stores the LENGTH of the blob type's Debug text here, which contains span columns
                o.remove("name");
            }
            if o.get("k").and_then(|k| k.as_str()) == Some("fn") {
                if let Some(Value::Array(body)) = o.get_mut("body") {
                    if let Some(last) = body.last_mut() {
                        if last["k"] == "ret" && !last["e"].is_null() {
                            let e = last["e"].take();
                            *last = json!({"k": "expr", "e": e});
                        }
                    }
                }
            }
            o.values_mut().for_each(norm_tails);
        }
        _ => {}
    }
}

/// the project of a rendered program: main.sy plus the module files its `from .. use` tops bring along
fn project_of(src: &str, tops: &[Value]) -> Project {
    let mut p = Project::single(src);
    for t in tops {
        if t["k"] == "fromuse" {
            p.files.insert(format!("{}.sy", t["path"].as_str().unwrap()), t["src"].as_str().unwrap().to_string());
        }
    }
    p
}

/// the real parser's tree of the main module (astdump projection), all project files being served
fn ast_digest(proj: &Project) -> String {
    use std::path::Path;
    let main = Project::abs(&proj.main);
    let reader = |p: &Path| -> Result<String, sylt_common::Error> {
        proj.files.get(&Project::rel(p)).cloned().ok_or_else(|| sylt_common::Error::FileNotFound(p.to_path_buf()))
    };
    match sylt_parser::tree(&main, reader, false) {
        Ok(ast) => {
            let mut tops: Vec<Value> = ast.modules[0].1.statements.iter().filter_map(vharness::astdump::stmt).collect();
            tops.iter_mut().for_each(norm_tails);
            hex(fnv(&serde_json::to_string(&tops).unwrap()))
        }
        Err(errs) => format!("parse-error:{}", errs.len()),
    }
}

fn show(e: &Value) -> String {
    let list = |es: &Value| es.as_array().unwrap().iter().map(show).collect::<Vec<_>>().join(",");
    match e["k"].as_str().unwrap_or("?") {
        "int" => {
            let v = e["v"].as_i64().unwrap();
            if v < 0 {
                format!("(-{})", -v)
            } else {
                v.to_string()
            }
        }
        "name" => e["n"].as_str().unwrap().to_string(),
        "bin" => format!("({}{}{})", show(&e["l"]), e["op"].as_str().unwrap(), show(&e["r"])),
        "un" => format!("({}{})", e["op"].as_str().unwrap(), show(&e["a"])),
        "call" => format!("{}({})", show(&e["f"]), list(&e["args"])),
        "tuple" => format!("tuple[{}]", list(&e["es"])),
        "list" => format!("list[{}]", list(&e["es"])),
        "fld" => format!("{}.{}", show(&e["e"]), e["f"].as_str().unwrap()),
        "idx" => format!("{}[{}]", show(&e["e"]), show(&e["i"])),
        other => format!("<{}>", other),
    }
}

fn flip_args(e: &mut Value) {
    match e {
        Value::Array(a) => a.iter_mut().for_each(flip_args),
        Value::Object(o) => {
            if o.get("k").and_then(|k| k.as_str()) == Some("call") {
                if let Some(Value::Array(args)) = o.get_mut("args") {
                    if args.len() >= 2 {
                        args.swap(0, 1);
                    }
                }
            }
            o.values_mut().for_each(flip_args);
        }
        _ => {}
    }
}

/// swap the first two arguments of the first call with >= 2 arguments (depth first); false if there is none
fn swap_first(v: &mut Value) -> bool {
    match v {
        Value::Array(a) => a.iter_mut().any(swap_first),
        Value::Object(o) => {
            if o.get("k").and_then(|k| k.as_str()) == Some("call") {
                if let Some(Value::Array(args)) = o.get_mut("args") {
                    if args.len() >= 2 && args[0] != args[1] {
                        args.swap(0, 1);
                        return true;
                    }
                }
            }
            o.values_mut().any(swap_first)
        }
        _ => false,
    }
}
/// fallback corruption: the first int literal is incremented
fn bump_first_int(v: &mut Value) -> bool {
    match v {
        Value::Array(a) => a.iter_mut().any(bump_first_int),
        Value::Object(o) => {
            if o.get("k").and_then(|k| k.as_str()) == Some("int") {
                let n = o["v"].as_i64().unwrap();
                o.insert("v".into(), json!(n + 1));
                return true;
            }
            o.values_mut().any(bump_first_int)
        }
        _ => false,
    }
}

fn is_plain(ch: &BTreeMap<String, u64>) -> bool {
    ch.iter().all(|(k, v)| if k == "indent" { *v == 4 } else { *v == 0 })
}
fn sugar_only(ch: &BTreeMap<String, u64>) -> bool {
    !is_plain(ch) && ch.keys().all(|k| k == "indent" || k.starts_with("c@") || k.starts_with("t@") || k.starts_with("l@") || k.starts_with("p@"))
}

fn record(args: &[String]) {
    let cases: Vec<Value> = read_ndjson(Path::new(&args[2]));
    let preludes: Value = serde_json::from_str(&std::fs::read_to_string(&args[3]).unwrap()).unwrap();
    let stub = std::env::var("C14_STUB").unwrap_or_default();
    let triv = triv_of(&preludes["triv"]);
    if triv.len() < 2 {
        tool_error("preludes file carries no trivia table (SyltSurface!TrivSeqs)");
    }
    let recs = vharness::pool::par_map(&cases, |_, c| {
        let pre = c["pre"].as_str().unwrap();
        let mut tops: Vec<Value> = match pre {
            "none" => vec![],
            p => preludes[p].as_array().unwrap_or_else(|| tool_error(&format!("unknown prelude {}", p))).clone(),
        };
        let npre = tops.len();
        tops.extend(c["focus"].as_array().unwrap().iter().cloned());
        // plain variant first
        let mut variants: Vec<BTreeMap<String, u64>> = c["variants"].as_array().unwrap().iter().map(choice_of).collect();
        variants.sort_by_key(|ch| !is_plain(ch));
        if variants.is_empty() || !is_plain(&variants[0]) {
            tool_error(&format!("case {} has no plain variant", c["id"]));
        }
        let mut results = Vec::new();
        let mut written: BTreeMap<String, u64> = BTreeMap::new();
        let mut rawsalted = false;
        for (vi, ch) in variants.iter().enumerate() {
            if stub == "drop" && vi == 1 {
                continue;
            }
            let mut tops_v = tops.clone();
            if stub == "swap" && vi == 1 {
                let mut focus = Value::Array(tops_v.split_off(npre));
                if !swap_first(&mut focus) && !bump_first_int(&mut focus) {
                    // last resort: the last statement of the last definition's function body is written twice
                    let last = focus.as_array_mut().unwrap().last_mut().unwrap();
                    match last["e"]["body"].as_array_mut() {
                        Some(body) if !body.is_empty() => {
                            let st = body.last().unwrap().clone();
                            body.push(st);
                        }
                        _ => tool_error("swap stub: nothing to corrupt"),
                    }
                }
                tops_v.extend(focus.as_array().unwrap().iter().cloned());
            }
            let (src, wr) = match render_program(&tops_v, ch, true, &triv) {
                Ok(x) => x,
                Err(e) => tool_error(&format!("case {}: the renderer cannot honour choice {:?}: {}", c["id"], ch, e)),
            };
            if vi == 0 && stub.is_empty() && !tops.iter().any(|t| t["k"] == "fromuse") {
                let reference = print_program(&tops, &PrintOpts::default());
                if reference != src {
                    let diff = reference.lines().zip(src.lines()).find(|(a, b)| a != b);
                    tool_error(&format!("case {}: plain rendering differs from printer.rs default: {:?}", c["id"], diff));
                }
            }
            let proj = project_of(&src, &tops_v);
            let ast = ast_digest(&proj);
            let (class, mut raw, mut masked, detail) = match vharness::compile(&proj) {
                CompileResult::Ok { lua } => ("ok", hex(fnv(&lua)), hex(fnv(&mask_lines(&lua))), String::new()),
                CompileResult::Err { errors, .. } => (
                    "err",
                    String::new(),
                    String::new(),
                    errors.first().map(|e| format!("{}:{} {}", e.file, e.line, e.message)).unwrap_or_default(),
                ),
                CompileResult::Panic { message, .. } => ("panic", String::new(), String::new(), message),
            };
            if stub == "salt" && vi == 1 {
                masked.push('x');
            }
            if stub == "rawsalt" && !rawsalted && sugar_only(ch) {
                raw.push('x');
                rawsalted = true;
            }
            if class == "ok" {
                for (k, n) in wr {
                    *written.entry(k).or_insert(0) += n;
                }
            }
            let mut r = json!({"ch": ch, "class": class, "raw": raw, "masked": masked, "ast": ast});
            if class != "ok" {
                r["detail"] = json!(detail);
            }
            results.push(r);
        }
        if stub == "extra" {
            let mut r = results[0].clone();
            r["ch"]["p@bogus"] = json!(1);
            results.push(r);
        }
        json!({"id": c["id"], "pre": pre, "focus": c["focus"], "written": written, "results": results})
    });
    write_ndjson(Path::new(&args[4]), &recs);
}

fn parse_mode(args: &[String]) {
    let exprs: Vec<Value> = read_ndjson(Path::new(&args[2]));
    let mut by_j: BTreeMap<u64, (Value, String)> = BTreeMap::new();
    for x in &exprs {
        by_j.insert(x["j"].as_u64().unwrap(), (x["e"].clone(), x["path"].as_str().unwrap().to_string()));
    }
    let cases: Vec<Value> = read_ndjson(Path::new(&args[3]));
    let flip = std::env::var("C14_STUB").ok().as_deref() == Some("flip");
    let recs = vharness::pool::par_map(&cases, |_, c| {
        let j = c["j"].as_u64().unwrap();
        let (e, path) = by_j.get(&j).unwrap_or_else(|| tool_error(&format!("unknown expression {}", j)));
        let ch = choice_of(&c["ch"]);
        let src = render_expr_stmt(e, path, &ch).unwrap_or_else(|e| tool_error(&format!("render: {}", e)));
        let got = match vharness::astdump::parse_module(&src) {
            Ok(tops) => {
                let body = &tops[0]["e"]["body"];
                match body.as_array() {
                    Some(b) if b.len() == 1 && b[0]["k"] == "expr" => {
                        let mut t = b[0]["e"].clone();
                        if flip {
                            flip_args(&mut t);
                        }
                        show(&t)
                    }
                    _ => "error".to_string(), // parsed as something that is not one expression statement
                }
            }
            Err(_) => "error".to_string(),
        };
        json!({"j": j, "ch": c["ch"], "core": c["core"], "got": got, "src": src})
    });
    write_ndjson(Path::new(&args[4]), &recs);
}

fn main() {
    vharness::project::quiet_panics();
    let args: Vec<String> = std::env::args().collect();
    match args.get(1).map(|s| s.as_str()) {
        Some("record") if args.len() >= 5 => record(&args),
        Some("parse") if args.len() >= 5 => parse_mode(&args),
        Some("render") => {
            let mut inp = String::new();
            std::io::stdin().read_to_string(&mut inp).unwrap();
            let v: Value = serde_json::from_str(&inp).unwrap();
            match render_program(v["tops"].as_array().unwrap(), &choice_of(&v["ch"]), true, &triv_of(&v["triv"])) {
                Ok((src, _)) => print!("{}", src),
                Err(e) => tool_error(&e),
            }
        }
        Some("probe") => {
            let mut src = String::new();
            std::io::stdin().read_to_string(&mut src).unwrap();
            for chunk in src.split("\n=====\n") {
                let chunk = &format!("{}\n", chunk.trim_end_matches('\n'));
                match vharness::astdump::parse_module(chunk) {
                    Ok(ast) => println!("AST {}", serde_json::to_string(&ast).unwrap()),
                    Err(e) => println!("PARSE-ERR {:?}", e.iter().map(|x| format!("{}:{}", x.line, x.message)).collect::<Vec<_>>()),
                }
                match vharness::compile(&Project::single(chunk)) {
                    CompileResult::Ok { lua } => println!("OK {} masked {}", hex(fnv(&lua)), hex(fnv(&mask_lines(&lua)))),
                    CompileResult::Err { errors, .. } => {
                        println!("ERR {:?}", errors.iter().map(|x| format!("{}:{}", x.line, x.message)).collect::<Vec<_>>())
                    }
                    CompileResult::Panic { message, .. } => println!("PANIC {}", message),
                }
            }
        }
        _ => tool_error("usage: c14 record <cases> <preludes> <trace> | parse <exprs> <cases> <out> | render | probe"),
    }
}
