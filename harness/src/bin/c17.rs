//! C17 recorder: run the real tokenizer on a universe of texts and write one trace record per text.
//!   c17 strings <maxlen> <out.ndjson>            all strings of length 0..maxlen over ALPHABET (index order of Trace_Lex!StringAt)
//!   c17 frags <exhaustive-blocks 1|2|3> <samples> <out.ndjson>   fragment concatenations (index order of Trace_Lex!FragAt)
//!   c17 free <count> <out.ndjson>                seeded random longer texts
//!   c17 one <file-with-text>                      print the record for one text (replay)
//! Set C17_STUB=nonl to replace the tokenizer's positions by a deliberately wrong line counter
//! (negative control: TLC must reject).

use rand::{Rng, SeedableRng};
use serde_json::{json, Value};
use std::path::Path;
use sylt_tokenizer::{string_to_tokens, Token};
use vharness::util::*;

const ALPHABET: &[&str] =
    &["a", "e", "1", ".", "\"", "/", "\n", " ", "\t", "-", ">", "<", "=", "!", ":", "'", "+", "é"];

const FRAGS: &[&str] = &[
    "a", "e", "A9", "_", "if", "iff", "do", "end", "fn", "pu", "ret", "int", "str", "float", "bool", "void", "nil",
    "nile", "true", "truee", "false", "and", "or", "not", "loop", "break", "continue", "blob", "externblob", "enum",
    "case", "else", "elif", "is", "in", "use", "from", "as", "external", "0", "12", "1.", ".5", "1.5", "1e1", "1e-1",
    "1e+1", "1e", "1.e", "\"a\"", "\"\"", "\"a\nb\"", "\"\n\"", "\"", "\"x//y\"", "// c", "//", "/", "\n", "+", "-",
    "*", "+=", "-=", "*=", "/=", "#", ":", "::", ":=", "=", "==", "!=", "<=>", "<!>", "(", ")", "[", "]", "{", "}", ">",
    ">=", "<", "<=", "!", "?", "|", "'", ",", ".", "->", "<<<<<<<", ">>>>>>>", "<<<", "$", "\t", "\r", "\r\n",
];

fn fixed_spelling(t: &Token) -> Option<&'static str> {
    use Token::*;
    Some(match t {
        VoidType => "void",
        BoolType => "bool",
        IntType => "int",
        FloatType => "float",
        StrType => "str",
        If => "if",
        Elif => "elif",
        Else => "else",
        Case => "case",
        Is => "is",
        Break => "break",
        Continue => "continue",
        In => "in",
        Loop => "loop",
        Blob => "blob",
        ExternBlob => "externblob",
        Enum => "enum",
        Ret => "ret",
        Plus => "+",
        Minus => "-",
        Star => "*",
        Slash => "/",
        PlusEqual => "+=",
        MinusEqual => "-=",
        StarEqual => "*=",
        SlashEqual => "/=",
        Hash => "#",
        Colon => ":",
        ColonColon => "::",
        ColonEqual => ":=",
        Equal => "=",
        EqualEqual => "==",
        NotEqual => "!=",
        AssertEqual => "<=>",
        Unreachable => "<!>",
        LeftParen => "(",
        RightParen => ")",
        LeftBracket => "[",
        RightBracket => "]",
        LeftBrace => "{",
        RightBrace => "}",
        Do => "do",
        End => "end",
        Greater => ">",
        GreaterEqual => ">=",
        Less => "<",
        LessEqual => "<=",
        Fn => "fn",
        Pu => "pu",
        And => "and",
        Or => "or",
        Not => "not",
        Bang => "!",
        QuestionMark => "?",
        Pipe => "|",
        Prime => "'",
        Comma => ",",
        Dot => ".",
        Arrow => "->",
        Use => "use",
        From => "from",
        As => "as",
        External => "external",
        GitConflictBegin => "<<<<<<<",
        GitConflictEnd => ">>>>>>>",
        _ => return None,
    })
}

/// TLC cannot carry non-ASCII characters in state variables (its state queue serialises strings as
/// bytes), so the record shows TLC a character-for-character abstraction of the text: every non-ASCII
/// character becomes '@', which like them belongs to no token class, is legal inside strings and
/// comments, and is one column wide. The real tokenizer always sees the real text.
fn abs(s: &str) -> String {
    s.chars().map(|c| if c.is_ascii() { c } else { '@' }).collect()
}

fn record(text: &str) -> Value {
    let stub = std::env::var("C17_STUB").ok();
    let toks = string_to_tokens(0, text);
    let mut out = Vec::new();
    for pt in toks.iter() {
        let (k, txt): (&str, String) = match &pt.token {
            Token::Identifier(s) => ("id", s.clone()),
            Token::String(s) => ("str", format!("\"{}\"", s)),
            Token::Float(_) => ("float", String::new()),
            Token::Int(_) => ("int", String::new()),
            Token::Nil => ("nil", "nil".into()),
            Token::Bool(b) => ("bool", format!("{}", b)),
            Token::Newline => ("nl", String::new()),
            Token::Comment(_) => ("comment", String::new()),
            Token::Error => ("err", String::new()),
            Token::Whitespace => ("ws", String::new()),
            Token::EOF => ("eof", String::new()),
            t => match fixed_spelling(t) {
                Some(s) => ("fx", s.to_string()),
                None => ("unknown", format!("{:?}", t)),
            },
        };
        let mut line = pt.span.line_start;
        if stub.as_deref() == Some("line1") {
            line = 1; // negative control: a tokenizer that never counts lines
        }
        out.push(json!({"k":k,"txt":abs(&txt),"line":line,"lend":pt.span.line_end,
                        "cs":pt.span.col_start,"ce":pt.span.col_end}));
    }
    json!({"input": abs(text), "raw": text, "toks": out})
}

fn string_at(mut m: usize) -> String {
    // same layout as Trace_Lex!StringAt: blocks by length, digits least significant first
    let a = ALPHABET.len();
    let mut l = 0usize;
    loop {
        let block = a.pow(l as u32);
        if m < block {
            break;
        }
        m -= block;
        l += 1;
    }
    let mut s = String::new();
    for _ in 0..l {
        s.push_str(ALPHABET[m % a]);
        m /= a;
    }
    s
}

fn frag_at(idx: usize) -> String {
    let f = FRAGS.len();
    let seps = ["", " "];
    let m = idx - 1;
    if m < f {
        return FRAGS[m].to_string();
    }
    let m2 = m - f;
    if m2 < f * f * 2 {
        let s = m2 % 2;
        let q = m2 / 2;
        return format!("{}{}{}", FRAGS[q % f], seps[s], FRAGS[q / f]);
    }
    let m3 = m2 - f * f * 2;
    let s1 = m3 % 2;
    let s2 = (m3 / 2) % 2;
    let q = m3 / 4;
    format!("{}{}{}{}{}", FRAGS[q % f], seps[s1], FRAGS[(q / f) % f], seps[s2], FRAGS[q / (f * f)])
}

fn main() {
    let args: Vec<String> = std::env::args().collect();
    if args.len() < 3 {
        tool_error("usage: c17 strings|frags|free|one ...");
    }
    match args[1].as_str() {
        "strings" => {
            let maxlen: usize = args[2].parse().unwrap();
            let a = ALPHABET.len();
            let total: usize = (0..=maxlen).map(|l| a.pow(l as u32)).sum();
            let idx: Vec<usize> = (0..total).collect();
            let recs = vharness::pool::par_map(&idx, |_, m| record(&string_at(*m)));
            write_ndjson(Path::new(&args[3]), &recs);
            println!("{}", total);
        }
        "frags" => {
            let blocks: usize = args[2].parse().unwrap();
            let samples: usize = args[3].parse().unwrap();
            let f = FRAGS.len();
            let b1 = f;
            let b2 = f * f * 2;
            let b3 = f * f * f * 4;
            let mut idx: Vec<usize> = Vec::new();
            idx.extend(1..=b1);
            if blocks >= 2 {
                idx.extend(b1 + 1..=b1 + b2);
            }
            if blocks >= 3 {
                idx.extend(b1 + b2 + 1..=b1 + b2 + b3);
            } else {
                let mut rng = rand::rngs::StdRng::seed_from_u64(seed());
                for _ in 0..samples {
                    idx.push(b1 + b2 + 1 + rng.gen_range(0..b3));
                }
            }
            let recs = vharness::pool::par_map(&idx, |_, i| {
                let mut r = record(&frag_at(*i));
                r["idx"] = json!(*i);
                r
            });
            write_ndjson(Path::new(&args[4]), &recs);
            println!("{}", recs.len());
        }
        "free" => {
            let count: usize = args[2].parse().unwrap();
            let mut rng = rand::rngs::StdRng::seed_from_u64(seed() ^ 0xC17);
            let mut texts = Vec::new();
            for _ in 0..count {
                let n = rng.gen_range(4..9);
                let mut s = String::new();
                for _ in 0..n {
                    s.push_str(FRAGS[rng.gen_range(0..FRAGS.len())]);
                    match rng.gen_range(0..4) {
                        0 => s.push(' '),
                        1 => s.push('\n'),
                        _ => {}
                    }
                }
                let s: String = s.chars().take(34).collect();
                texts.push(s);
            }
            let recs = vharness::pool::par_map(&texts, |_, t| record(t));
            write_ndjson(Path::new(&args[3]), &recs);
            println!("{}", recs.len());
        }
        "one" => {
            let text = std::fs::read_to_string(&args[2]).unwrap();
            println!("{}", serde_json::to_string(&record(&text)).unwrap());
        }
        _ => tool_error("unknown mode"),
    }
}
