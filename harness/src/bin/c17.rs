//! C17 recorder: run the real tokenizer on a universe of texts and write one trace record per text.
//!   c17 strings <maxlen> <out.ndjson>            all strings of length 0..maxlen over ALPHABET (index order of Trace_Lex!StringAt)
//!   c17 frags <exhaustive-blocks 1|2|3> <samples> <out.ndjson>   fragment concatenations (index order of Trace_Lex!FragAt)
//!   c17 free <count> <out.ndjson>                seeded random longer texts
//!   c17 one <file-with-text>                      print the record for one text (replay)
//! round 2 (index order of the Trace_Lex operator named in brackets; every record carries its `idx`; the
//! exhaustive part comes first with idx = 1..exh, then seeded samples; stdout: "<records> <exhaustive>"):
//!   c17 ustrings <exhlen> <samples> <out>        strings over UALPHABET [StringAtOver(UAlphabet, _)], samples of length exhlen+1
//!   c17 numgram <exhlen> <samples> <out>         strings over NUMALPHABET [StringAtOver(NumAlphabet, _)], samples of the longer ones
//!   c17 numctx <exhlen> <samples> <out>          pre x number-ish string x post [NumCtxAt]; exhlen -1: samples only
//!   c17 uctx <out>                               context x foreign character x context [UCtxAt], all
//!   c17 files <out>                              head x body x tail [FileAt], all
//!   c17 long <samples> <maxchars> <out>          unit^count + window [LongAt]: sampled, texts of at most maxchars characters
//!   c17 long-one <idx>                           print the record of one long text (replay)
//! round 3 (same conventions; every Int / Float token also carries its value `val` as a string):
//!   c17 actx <out>                               context x every 7-bit character x context [ACtxAt], all
//!   c17 apair <exh-contexts> <samples> <out>     every pair of 7-bit characters in a context [APairAt]
//!   c17 bigint <exh-contexts> <samples> <out>    digit runs around 2^k / 10^k, leading zeros, in context [BigAt]
//!   c17 floatlim <exh-contexts> <samples> <out>  float forms at the limits of the double range [FloatLimAt]
//!   c17 longnum <out>                            digit runs of 19..310 digits in every number form [LongNumAt], all
//! Set C17_STUB=line1 to replace the tokenizer's lines by a deliberately wrong line counter, C17_STUB=bom to drop a
//! leading byte-order mark before the tokenizer sees the text, C17_STUB=narrow to pass the values of number tokens through
//! 32-bit types (negative controls: TLC must reject).

use rand::{Rng, SeedableRng};
use serde_json::{json, Value};
use std::path::Path;
use sylt_tokenizer::{string_to_tokens, Token};
use vharness::util::*;

const ALPHABET: &[&str] =
    &["a", "e", "1", ".", "\"", "/", "\n", " ", "\t", "-", ">", "<", "=", "!", ":", "'", "+", "é"];

const FRAGS: &[&str] = &[
    "a", "e", "A9", "_", "if", "iff", "do", "end", "fn", "pu", "ret", "int", "str", "float", "bool", "void", "nil",
    "nile", "true", "truee", "false", "and", "or", "not", "loop", "break", "continue", "blob", "externblob", "enum",
    "case", "else", "elif", "is", "in", "use", "from", "as", "external", "0", "12", "1.", ".5", "1.5", "1e1", "1e-1",
    "1e+1", "1e", "1.e", "\"a\"", "\"\"", "\"a\nb\"", "\"\n\"", "\"", "\"x//y\"", "// c", "//", "/", "\n", "+", "-",
    "*", "+=", "-=", "*=", "/=", "#", ":", "::", ":=", "=", "==", "!=", "<=>", "<!>", "(", ")", "[", "]", "{", "}", ">",
    ">=", "<", "<=", "!", "?", "|", "'", ",", ".", "->", "<<<<<<<", ">>>>>>>", "<<<", "$", "\t", "\r", "\r\n",
    // round 2: one representative per class of characters outside the token alphabet ...
    "\u{3bb}", "\u{969}", "\u{bd}", "\u{2003}", "\u{301}", "\u{203f}", "\u{feff}", "\u{1f600}", "\u{c}",
    // ... and number forms on which the float regex is easily got wrong
    "1e-+5", "1e+-5", "1E5", "1_0", "1..2", ".5.", "1e5e5", "e5", "1e+", "1.e5", "5e", "E",
];

/// Trace_Lex!UAlphabet with the real characters.
const UALPHABET: &[&str] = &[
    "e", "1", ".", "\"", "/", "\n", " ", "-", "=", // token characters
    "\u{e9}", "\u{4e2d}", // @ letters: e-acute, CJK
    "\u{663}", "\u{ff13}", "\u{1d7d9}", // % decimal digits: Arabic-Indic 3, fullwidth 3, mathematical double-struck 1 (non-BMP)
    "\u{b2}", "\u{2163}", // ^ other numerics: superscript 2, Roman numeral IV
    "\u{a0}", "\u{2028}", "\u{b}", // ~ other white space: NBSP, LINE SEPARATOR, VT
    "\u{301}", // ` combining acute
    "\u{203f}", // & undertie
    "\u{feff}", // ; byte-order mark
    "\u{1f600}", "\u{0}", // $ emoji (non-BMP), NUL
];

/// Trace_Lex!NumAlphabet
const NUMALPHABET: &[&str] = &["1", ".", "e", "E", "+", "-", "a", "_"];
const NUM_MAXLEN: usize = 6;
const NUMCTX_MAXLEN: usize = 5;
const NUMPRE: &[&str] = &["x", "x ", "=", " ", "(", "\n"];
const NUMPOST: &[&str] = &["", "x", " x", "=", " ", ")", "\n"];

/// Trace_Lex!UChars, UPre, UPost
const UCHARS: &[&str] = &[
    "\u{e9}", "\u{3bb}", "\u{4e2d}", // @
    "\u{663}", "\u{969}", "\u{ff13}", "\u{1d7d9}", // %
    "\u{b2}", "\u{bd}", "\u{2163}", // ^
    "\u{a0}", "\u{2003}", "\u{3000}", "\u{2028}", "\u{85}", "\u{b}", "\u{c}", // ~
    "\u{301}", // `
    "\u{203f}", // &
    "\u{feff}", // ;
    "\u{1f600}", "\u{0}", "\u{7f}", "$", "\u{1b}", // $
];
const UPRE: &[&str] = &[
    "", "e", "A9", "_", "if", "end", "nil", "12", "1.", ".5", "1e", "1e1", "1e-", "\"a\"", "\"a", "// c", "//", "\n", "e\n",
    " ", "e ", "\t", "\r", "+", "-", "<", "<=", ".", ":", "(", ")", "\"a\nb\"", "<<<<<<",
];
const UPOST: &[&str] = &[
    "", "e", "A9", "_", "if", "nil", "12", ".5", "1e1", "\"a\"", "b\"", "// c", "\n", "\ne", " ", " e", "\t", "\r", "\r\n",
    "+", "-", "=", ">", ".", "(", "\"", "/",
];

/// Trace_Lex!FHeads, FBodies, FTails
const FHEADS: &[&str] = &[
    "", "\u{feff}", "\u{feff}\u{feff}", " ", "\t", "\n", "\n\n", "\r\n", "\r", "// c\n", "//\u{e9}\n", "\u{feff}\n", "\u{0}",
    "\u{b}", " \n", "\"\n\"", "\u{feff}// c\n", "\u{c}\n",
];
const FBODIES: &[&str] = &[
    "e", "e = 1.5", "e\n1", "e\r\n1", "e\r1", "\"a\nb\" e", "e // \u{e9}\n1", "e\u{feff}1", "e\u{0}1", "\te\t1",
    "e \u{e9} 1", "if e do\n  ret 1\nend",
];
const FTAILS: &[&str] = &[
    "", "\n", "\n\n\n", "\r", "\r\n", " ", "\t", "\u{feff}", "\u{0}", "\n\u{feff}", "// c", "\"", "\n\r", "\u{1a}",
];

/// Trace_Lex!APre, APost (round 3); the character between them is the REAL 7-bit character of the code
const APRE: &[&str] = &["", "e", "1", "e ", "e\n", "+", "\"a", "// c", "\"a\nb\" ", "e\n\n1 "];
const APOST: &[&str] =
    &["", "\n", "\r\n", "1", "e", "\ne", "\r\ne 1", "\n1 e\n\"a\"\n", " \n", "\"\ne 1", "\n\n", "\n// c\ne"];
/// Trace_Lex!APairCtx
const APAIRCTX: &[(&str, &str)] = &[("", "\ne"), ("e ", "\ne 1"), ("\"", "\"\ne"), ("//", "\ne")];

/// Trace_Lex!BigTwoExps, BigTenExps, BigZeros, BigPre, BigPost
const BIG_TWO: &[u32] = &[7, 8, 15, 16, 31, 32, 53, 62, 63, 64, 65, 127, 128];
const BIG_TEN: &[usize] = &[9, 10, 15, 16, 17, 18, 19, 20, 21, 38, 39];
const BIG_VARS: usize = 10;
const BIG_ZEROS: &[&str] = &["", "0", "00", "00000000000000000000"];
const BIG_PRE: &[&str] = &["", "-", "x = ", "e\n", "("];
const BIG_POST: &[&str] = &["", "\n", " x", ")", ".", ".5", "e5", "e-5", "x", "e", "\n1", ".."];

/// Trace_Lex!FlInts, FlTails (the 41-character entries are built in fl_ints / fl_tails), FlPre, FlPost
const FL_PRE: &[&str] = &["", "-", "x = ", "\n"];
const FL_POST: &[&str] = &["", "\n", " x", ")"];
fn fl_ints() -> Vec<String> {
    let mut v: Vec<String> = [
        "", "0", "1", "9", "00001", "10000", "123456789012345", "1234567890123456", "17976931348623157",
        "17976931348623158", "17976931348623159", "24703282292062327", "24703282292062328", "4940656458412465",
        "22250738585072014",
    ]
    .iter()
    .map(|s| s.to_string())
    .collect();
    v.push("9".repeat(40));
    v.push(format!("1{}", "0".repeat(40)));
    v
}
fn fl_tails() -> Vec<String> {
    let mut v: Vec<String> = ["", ".", ".0", ".5", ".25", ".000001"].iter().map(|s| s.to_string()).collect();
    v.push(format!(".{}1", "0".repeat(40)));
    v.push(format!(".{}", "9".repeat(40)));
    for s in [
        ".5.", ".5e3", "..", ".e5", "e0", "e1", "e+1", "e-1", "e15", "e22", "e23", "e-22", "e291", "e292", "e293", "e-300",
        "e-301", "e300", "e301", "e307", "e308", "e309", "e+308", "e+309", "e-308", "e-323", "e-324", "e-325", "e-339",
        "e-340", "e-341", "e400", "e-400", "e-707", "e-708", "e-724", "e-725", "e", "e+", "e-", "e99999999999999999999",
        "e-99999999999999999999", "e00000000000000000308", "e-00000000000000000324", "E308", "e+-1", "e308e1", "e308.5",
        "e1x", "e 1",
    ] {
        v.push(s.to_string());
    }
    v
}

/// Trace_Lex!LUnits, LCounts, LWindows
const LUNITS: &[&str] = &["\n", "e\n", "\r\n", " ", "e ", "\t", "\"\u{e9}\" ", "//\u{e9}\n", "\"\n\" ", "e \"a\nb\"\n"];
const LCOUNTS: &[usize] = &[255, 256, 4095, 4096, 4097, 65535, 65536, 65537];
const LWINDOWS: &[&str] = &["e 1.5", "e\u{e9} \"a\nb\" e // c\n1", "\"\u{e9}", "", "\n\ne"];
/// how many of the last tokens of a long text are recorded
const LONG_TAIL: usize = 16;

fn fixed_spelling(t: &Token) -> Option<&'static str> {
    use Token::*;
    Some(match t {
        VoidType => "void",
        BoolType => "bool",
        IntType => "int",
        FloatType => "float",
        StrType => "str",
        If => "if",
        Elif => "elif",
        Else => "else",
        Case => "case",
        Is => "is",
        Break => "break",
        Continue => "continue",
        In => "in",
        Loop => "loop",
        Blob => "blob",
        ExternBlob => "externblob",
        Enum => "enum",
        Ret => "ret",
        Plus => "+",
        Minus => "-",
        Star => "*",
        Slash => "/",
        PlusEqual => "+=",
        MinusEqual => "-=",
        StarEqual => "*=",
        SlashEqual => "/=",
        Hash => "#",
        Colon => ":",
        ColonColon => "::",
        ColonEqual => ":=",
        Equal => "=",
        EqualEqual => "==",
        NotEqual => "!=",
        AssertEqual => "<=>",
        Unreachable => "<!>",
        LeftParen => "(",
        RightParen => ")",
        LeftBracket => "[",
        RightBracket => "]",
        LeftBrace => "{",
        RightBrace => "}",
        Do => "do",
        End => "end",
        Greater => ">",
        GreaterEqual => ">=",
        Less => "<",
        LessEqual => "<=",
        Fn => "fn",
        Pu => "pu",
        And => "and",
        Or => "or",
        Not => "not",
        Bang => "!",
        QuestionMark => "?",
        Pipe => "|",
        Prime => "'",
        Comma => ",",
        Dot => ".",
        Arrow => "->",
        Use => "use",
        From => "from",
        As => "as",
        External => "external",
        GitConflictBegin => "<<<<<<<",
        GitConflictEnd => ">>>>>>>",
        _ => return None,
    })
}

/// TLC cannot carry non-ASCII characters in state variables (its state queue serialises strings as
/// bytes), so the record shows TLC a character-for-character abstraction of the text: every character
/// outside the documented token alphabet becomes the ASCII stand-in of its class (SyltLex: UniLetter @,
/// UniDigit %, UniNumber ^, OtherSpace ~, UniMark `, UniConn &, UniFormat ;, OtherChar $). Like the real
/// characters the stand-ins belong to no token class, are legal inside strings and comments and are one
/// column wide. The real tokenizer always sees the real text. The classification is by Unicode general
/// category; it is a table here (no Unicode crate is available) and part of the trusted base.
fn standin(c: char) -> char {
    let u = c as u32;
    match c {
        'A'..='Z' | 'a'..='z' | '0'..='9' | '_' | ' ' | '\t' | '\r' | '\n' | '+' | '-' | '*' | '/' | '=' | '#' | ':'
        | '!' | '<' | '>' | '(' | ')' | '[' | ']' | '{' | '}' | '?' | '|' | '\'' | ',' | '.' | '"' => c,
        // White_Space other than the documented blanks and the newline
        '\u{b}' | '\u{c}' | '\u{85}' | '\u{a0}' | '\u{1680}' | '\u{2000}'..='\u{200a}' | '\u{2028}' | '\u{2029}'
        | '\u{202f}' | '\u{205f}' | '\u{3000}' => '~',
        _ if c.is_ascii() => '$', // $ % ^ & ~ ` ; \ @, NUL and the other controls, DEL
        // Mn (the blocks of combining marks)
        '\u{300}'..='\u{36f}' | '\u{1ab0}'..='\u{1aff}' | '\u{1dc0}'..='\u{1dff}' | '\u{20d0}'..='\u{20ff}'
        | '\u{fe20}'..='\u{fe2f}' => '`',
        // Pc
        '\u{203f}' | '\u{2040}' | '\u{2054}' | '\u{fe33}' | '\u{fe34}' | '\u{fe4d}'..='\u{fe4f}' | '\u{ff3f}' => '&',
        // Cf
        '\u{ad}' | '\u{200b}'..='\u{200f}' | '\u{202a}'..='\u{202e}' | '\u{2060}'..='\u{2064}' | '\u{feff}' => ';',
        _ if c.is_numeric() => {
            // Nd: every block of decimal digits is ten consecutive code points
            const ND: &[u32] = &[
                0x660, 0x6f0, 0x7c0, 0x966, 0x9e6, 0xa66, 0xae6, 0xb66, 0xbe6, 0xc66, 0xce6, 0xd66, 0xde6, 0xe50, 0xed0,
                0xf20, 0x1040, 0x1090, 0x17e0, 0x1810, 0x1946, 0x19d0, 0x1a80, 0x1a90, 0x1b50, 0x1bb0, 0x1c40, 0x1c50,
                0xa620, 0xa8d0, 0xa900, 0xa9d0, 0xa9f0, 0xaa50, 0xabf0, 0xff10, 0x104a0, 0x1d7ce, 0x1d7d8, 0x1d7e2,
                0x1d7ec, 0x1d7f6,
            ];
            if ND.iter().any(|b| u >= *b && u < *b + 10) {
                '%'
            } else {
                '^'
            }
        }
        _ if c.is_whitespace() => '~',
        _ if c.is_alphabetic() => '@',
        _ => '$',
    }
}

fn abs(s: &str) -> String {
    s.chars().map(standin).collect()
}

/// The class table against what std knows about the representatives used in the universes (a wrong table
/// would make the specification expect the wrong class): tool error, never a verdict.
fn selfcheck() {
    for (c, want) in [
        ('\u{e9}', '@'), ('\u{3bb}', '@'), ('\u{4e2d}', '@'), ('\u{663}', '%'), ('\u{969}', '%'), ('\u{ff13}', '%'),
        ('\u{1d7d9}', '%'), ('\u{b2}', '^'), ('\u{bd}', '^'), ('\u{2163}', '^'), ('\u{a0}', '~'), ('\u{2003}', '~'),
        ('\u{3000}', '~'), ('\u{2028}', '~'), ('\u{85}', '~'), ('\u{b}', '~'), ('\u{c}', '~'), ('\u{301}', '`'),
        ('\u{203f}', '&'), ('\u{feff}', ';'), ('\u{1f600}', '$'), ('\u{0}', '$'), ('\u{7f}', '$'), ('$', '$'),
        ('\u{1b}', '$'), ('\u{1a}', '$'), ('@', '$'), ('%', '$'), ('~', '$'), ('a', 'a'), ('\r', '\r'),
    ] {
        let std_ok = match want {
            '@' => c.is_alphabetic() && !c.is_numeric() && !c.is_ascii(),
            '%' => c.is_numeric() && !c.is_ascii(),
            '^' => c.is_numeric() && !c.is_ascii(),
            '~' => c.is_whitespace() && !matches!(c, ' ' | '\t' | '\r' | '\n'),
            '`' | '&' | ';' => !c.is_alphanumeric() && !c.is_whitespace() && !c.is_ascii(),
            '$' => !c.is_alphanumeric() && !c.is_whitespace(),
            _ => c.is_ascii(),
        };
        if standin(c) != want || !std_ok {
            tool_error(&format!("character class table is wrong for U+{:04X}", c as u32));
        }
    }
}

fn tok_records(text: &str) -> Vec<Value> {
    let stub = std::env::var("C17_STUB").ok();
    // negative control "bom": a tokenizer that drops a leading byte-order mark before lexing
    let text = if stub.as_deref() == Some("bom") { text.strip_prefix('\u{feff}').unwrap_or(text) } else { text };
    // a panic of the tokenizer is data: one pseudo token of kind "panic", which no specification token equals
    let toks = match std::panic::catch_unwind(|| string_to_tokens(0, text)) {
        Ok(t) => t,
        Err(_) => return vec![json!({"k":"panic","txt":"","val":"","line":0,"lend":0,"cs":0,"ce":0})],
    };
    let mut out = Vec::new();
    for pt in toks.iter() {
        // the value of a number token, as a string (the specification compares strings): an Int in decimal, a Float
        // in the shortest scientific form that reads back as the same double
        // negative control "narrow": a tokenizer whose number values went through 32-bit types
        let narrow = stub.as_deref() == Some("narrow");
        let token = match &pt.token {
            Token::Int(i) if narrow => Token::Int(*i as i32 as i64),
            Token::Float(f) if narrow => Token::Float(*f as f32 as f64),
            t => t.clone(),
        };
        let val: String = match &token {
            Token::Int(i) => i.to_string(),
            Token::Float(f) if f.is_nan() => "nan".into(),
            Token::Float(f) if f.is_infinite() => (if *f > 0.0 { "inf" } else { "-inf" }).into(),
            Token::Float(f) if *f == 0.0 => (if f.is_sign_negative() { "-0e0" } else { "0e0" }).into(),
            Token::Float(f) => format!("{:e}", f),
            _ => String::new(),
        };
        let (k, txt): (&str, String) = match &pt.token {
            Token::Identifier(s) => ("id", s.clone()),
            Token::String(s) => ("str", format!("\"{}\"", s)),
            Token::Float(_) => ("float", String::new()),
            Token::Int(_) => ("int", String::new()),
            Token::Nil => ("nil", "nil".into()),
            Token::Bool(b) => ("bool", format!("{}", b)),
            Token::Newline => ("nl", String::new()),
            Token::Comment(_) => ("comment", String::new()),
            Token::Error => ("err", String::new()),
            Token::Whitespace => ("ws", String::new()),
            Token::EOF => ("eof", String::new()),
            t => match fixed_spelling(t) {
                Some(s) => ("fx", s.to_string()),
                None => ("unknown", format!("{:?}", t)),
            },
        };
        let mut line = pt.span.line_start;
        if stub.as_deref() == Some("line1") {
            line = 1; // negative control: a tokenizer that never counts lines
        }
        out.push(json!({"k":k,"txt":abs(&txt),"val":val,"line":line,"lend":pt.span.line_end,
                        "cs":pt.span.col_start,"ce":pt.span.col_end}));
    }
    out
}

fn record(text: &str) -> Value {
    let a = abs(text);
    if a == text {
        json!({"input": a, "toks": tok_records(text)})
    } else {
        json!({"input": a, "raw": text, "toks": tok_records(text)})
    }
}

fn record_idx(text: &str, idx: usize) -> Value {
    let mut r = record(text);
    r["idx"] = json!(idx);
    r
}

/// A long text: total number of tokens, the last LONG_TAIL tokens (`first` = index of the first of them) and
/// sampled earlier tokens with their indices. Which tokens belong to the periodic prefix and what they have
/// to be is decided by Trace_Lex (TracePrefix), not here.
fn record_long(idx: usize) -> Value {
    let text = long_at(idx);
    let all = tok_records(&text);
    let n = all.len();
    let first = n.saturating_sub(LONG_TAIL) + 1;
    let mut js: Vec<usize> = vec![1, 2, 3, n / 4, n / 2, 3 * n / 4];
    let mut rng = rand::rngs::StdRng::seed_from_u64(seed() ^ (idx as u64) ^ 0x10C17);
    for _ in 0..8 {
        if n > 0 {
            js.push(1 + rng.gen_range(0..n));
        }
    }
    js.retain(|j| *j >= 1 && *j < first);
    js.sort();
    js.dedup();
    let samples: Vec<Value> = js.iter().map(|j| json!({"j": *j, "t": all[*j - 1].clone()})).collect();
    let (u, c, _) = long_parts(idx);
    json!({"input": abs(&text), "idx": idx, "ntoks": n, "first": first, "unit": abs(u), "count": c,
           "toks": all[first - 1..].to_vec(), "samples": samples})
}

fn num_strings(a: usize, maxlen: i64) -> usize {
    (0..=maxlen).map(|l| a.pow(l as u32)).sum()
}

fn string_at_over(al: &[&str], mut m: usize) -> String {
    // same layout as Trace_Lex!StringAtOver (m is 0-based): blocks by length, digits least significant first
    let a = al.len();
    let mut l = 0usize;
    loop {
        let block = a.pow(l as u32);
        if m < block {
            break;
        }
        m -= block;
        l += 1;
    }
    let mut s = String::new();
    for _ in 0..l {
        s.push_str(al[m % a]);
        m /= a;
    }
    s
}

fn string_at(m: usize) -> String {
    string_at_over(ALPHABET, m)
}

fn numctx_at(idx: usize) -> String {
    let m = idx - 1;
    let po = m % NUMPOST.len();
    let pr = (m / NUMPOST.len()) % NUMPRE.len();
    let s = m / (NUMPOST.len() * NUMPRE.len());
    format!("{}{}{}", NUMPRE[pr], string_at_over(NUMALPHABET, s), NUMPOST[po])
}

fn uctx_at(idx: usize) -> String {
    let m = idx - 1;
    let po = m % UPOST.len();
    let c = (m / UPOST.len()) % UCHARS.len();
    let pr = m / (UPOST.len() * UCHARS.len());
    format!("{}{}{}", UPRE[pr], UCHARS[c], UPOST[po])
}

fn file_at(idx: usize) -> String {
    let m = idx - 1;
    let tl = m % FTAILS.len();
    let b = (m / FTAILS.len()) % FBODIES.len();
    let h = m / (FTAILS.len() * FBODIES.len());
    format!("{}{}{}", FHEADS[h], FBODIES[b], FTAILS[tl])
}

fn ascii_char(code: usize) -> char {
    char::from(code as u8)
}

fn actx_at(idx: usize) -> String {
    let m = idx - 1;
    let po = m % APOST.len();
    let c = (m / APOST.len()) % 128;
    let pr = m / (APOST.len() * 128);
    format!("{}{}{}", APRE[pr], ascii_char(c), APOST[po])
}

fn apair_at(idx: usize) -> String {
    let m = idx - 1;
    let c2 = m % 128;
    let c1 = (m / 128) % 128;
    let cx = m / (128 * 128);
    format!("{}{}{}{}", APAIRCTX[cx].0, ascii_char(c1), ascii_char(c2), APAIRCTX[cx].1)
}

/// decimal arithmetic on digit strings (Trace_Lex!LxDouble, LxPlus, LxMinus), written independently: digit vectors
fn dec_digits(s: &str) -> Vec<u8> {
    s.bytes().map(|b| b - b'0').collect()
}
fn dec_string(d: &[u8]) -> String {
    d.iter().map(|x| (b'0' + x) as char).collect()
}
fn dec_double(s: &str) -> String {
    let mut d = dec_digits(s);
    let mut carry = 0u8;
    for x in d.iter_mut().rev() {
        let v = *x * 2 + carry;
        *x = v % 10;
        carry = v / 10;
    }
    if carry > 0 {
        d.insert(0, carry);
    }
    dec_string(&d)
}
fn dec_plus(s: &str, a: u8) -> String {
    let mut d = dec_digits(s);
    let mut carry = a;
    for x in d.iter_mut().rev() {
        let v = *x + carry;
        *x = v % 10;
        carry = v / 10;
    }
    if carry > 0 {
        d.insert(0, carry);
    }
    dec_string(&d)
}
fn dec_minus(s: &str, a: u8) -> String {
    let mut d = dec_digits(s);
    let mut borrow = a as i8;
    for x in d.iter_mut().rev() {
        let v = *x as i8 - borrow;
        if v >= 0 {
            *x = v as u8;
            borrow = 0;
        } else {
            *x = (v + 10) as u8;
            borrow = 1;
        }
    }
    let t = dec_string(&d);
    t.trim_start_matches('0').to_string()
}
fn big_base(b: usize) -> String {
    if b < BIG_TWO.len() {
        let mut s = "1".to_string();
        for _ in 0..BIG_TWO[b] {
            s = dec_double(&s);
        }
        s
    } else {
        format!("1{}", "0".repeat(BIG_TEN[b - BIG_TWO.len()]))
    }
}
fn big_var(s: &str, v: usize) -> String {
    let first = s.as_bytes()[0];
    match v {
        0 => s.to_string(),
        1 => dec_plus(s, 1),
        2 => dec_minus(s, 1),
        3 => dec_plus(s, 2),
        4 => dec_minus(s, 2),
        5 => s[..s.len() - 1].to_string(),
        6 => format!("{}0", s),
        7 => format!("{}9", s),
        8 => {
            if first == b'9' {
                s.to_string()
            } else {
                format!("{}{}", (first + 1) as char, &s[1..])
            }
        }
        _ => {
            if first == b'1' {
                s.to_string()
            } else {
                format!("{}{}", (first - 1) as char, &s[1..])
            }
        }
    }
}
fn big_block() -> usize {
    (BIG_TWO.len() + BIG_TEN.len()) * BIG_VARS * BIG_ZEROS.len()
}
fn big_at(idx: usize) -> String {
    let bases = BIG_TWO.len() + BIG_TEN.len();
    let m = idx - 1;
    let b = m % bases;
    let v = (m / bases) % BIG_VARS;
    let z = (m / (bases * BIG_VARS)) % BIG_ZEROS.len();
    let cx = m / big_block();
    let pr = cx % BIG_PRE.len();
    let po = cx / BIG_PRE.len();
    format!("{}{}{}{}", BIG_PRE[pr], BIG_ZEROS[z], big_var(&big_base(b), v), BIG_POST[po])
}

fn floatlim_at(idx: usize, ints: &[String], tails: &[String]) -> String {
    let m = idx - 1;
    let i = m % ints.len();
    let tl = (m / ints.len()) % tails.len();
    let cx = m / (ints.len() * tails.len());
    let pr = cx % FL_PRE.len();
    let po = cx / FL_PRE.len();
    format!("{}{}{}{}", FL_PRE[pr], ints[i], tails[tl], FL_POST[po])
}

/// Trace_Lex!LnLens, LnDigits, LnForm
const LN_LENS: &[usize] = &[19, 20, 40, 308, 309, 310];
fn longnum_at(idx: usize) -> String {
    let m = idx - 1;
    let f = m % 7;
    let sh = (m / 7) % 3;
    let l = LN_LENS[m / 21];
    let d = match sh {
        0 => format!("1{}", "0".repeat(l - 1)),
        1 => "9".repeat(l),
        _ => format!("{}1", "0".repeat(l - 1)),
    };
    match f {
        0 => d,
        1 => format!("{}.", d),
        2 => format!(".{}", d),
        3 => format!("{}e0", d),
        4 => format!("{}e-400", d),
        5 => format!("1e{}", d),
        _ => format!("1e-{}", d),
    }
}

fn long_parts(idx: usize) -> (&'static str, usize, &'static str) {
    let m = idx - 1;
    let w = m % LWINDOWS.len();
    let c = (m / LWINDOWS.len()) % LCOUNTS.len();
    let u = m / (LWINDOWS.len() * LCOUNTS.len());
    (LUNITS[u], LCOUNTS[c], LWINDOWS[w])
}

fn long_at(idx: usize) -> String {
    let (u, c, w) = long_parts(idx);
    let mut s = u.repeat(c);
    s.push_str(w);
    s
}

/// exhaustive part 1..=exh, then `samples` seeded indices from exh+1..=upto
fn exh_then_samples(exh: usize, upto: usize, samples: usize, salt: u64) -> Vec<usize> {
    let mut idx: Vec<usize> = (1..=exh).collect();
    if upto > exh {
        let mut rng = rand::rngs::StdRng::seed_from_u64(seed() ^ salt);
        for _ in 0..samples {
            idx.push(exh + 1 + rng.gen_range(0..upto - exh));
        }
    }
    idx
}

fn emit(out: &str, idx: &[usize], exh: usize, f: impl Fn(usize) -> String + Sync) {
    let recs = vharness::pool::par_map(idx, |_, i| record_idx(&f(*i), *i));
    write_ndjson(Path::new(out), &recs);
    println!("{} {}", recs.len(), exh);
}

fn frag_at(idx: usize) -> String {
    let f = FRAGS.len();
    let seps = ["", " "];
    let m = idx - 1;
    if m < f {
        return FRAGS[m].to_string();
    }
    let m2 = m - f;
    if m2 < f * f * 2 {
        let s = m2 % 2;
        let q = m2 / 2;
        return format!("{}{}{}", FRAGS[q % f], seps[s], FRAGS[q / f]);
    }
    let m3 = m2 - f * f * 2;
    let s1 = m3 % 2;
    let s2 = (m3 / 2) % 2;
    let q = m3 / 4;
    format!("{}{}{}{}{}", FRAGS[q % f], seps[s1], FRAGS[(q / f) % f], seps[s2], FRAGS[q / (f * f)])
}

fn main() {
    let args: Vec<String> = std::env::args().collect();
    if args.len() < 3 {
        tool_error("usage: c17 strings|frags|free|one|ustrings|numgram|numctx|uctx|files|long|long-one|actx|apair|bigint|floatlim|longnum ...");
    }
    selfcheck();
    std::panic::set_hook(Box::new(|_| {})); // panics of the tokenizer are recorded, not printed
    match args[1].as_str() {
        "ustrings" => {
            let exhlen: i64 = args[2].parse().unwrap();
            let samples: usize = args[3].parse().unwrap();
            let exh = num_strings(UALPHABET.len(), exhlen);
            let upto = num_strings(UALPHABET.len(), (exhlen + 1).min(4));
            let idx = exh_then_samples(exh, upto, samples, 0x0517);
            emit(&args[4], &idx, exh, |i| string_at_over(UALPHABET, i - 1));
        }
        "numgram" => {
            let exhlen: i64 = args[2].parse().unwrap();
            let samples: usize = args[3].parse().unwrap();
            let exh = num_strings(NUMALPHABET.len(), exhlen);
            let upto = num_strings(NUMALPHABET.len(), NUM_MAXLEN as i64);
            let idx = exh_then_samples(exh, upto, samples, 0x9517);
            emit(&args[4], &idx, exh, |i| string_at_over(NUMALPHABET, i - 1));
        }
        "numctx" => {
            let exhlen: i64 = args[2].parse().unwrap();
            let samples: usize = args[3].parse().unwrap();
            let per = NUMPRE.len() * NUMPOST.len();
            let exh = num_strings(NUMALPHABET.len(), exhlen) * per;
            let upto = num_strings(NUMALPHABET.len(), NUMCTX_MAXLEN as i64) * per;
            let idx = exh_then_samples(exh, upto, samples, 0xC717);
            emit(&args[4], &idx, exh, numctx_at);
        }
        "uctx" => {
            let n = UPRE.len() * UCHARS.len() * UPOST.len();
            let idx: Vec<usize> = (1..=n).collect();
            emit(&args[2], &idx, n, uctx_at);
        }
        "files" => {
            let n = FHEADS.len() * FBODIES.len() * FTAILS.len();
            let idx: Vec<usize> = (1..=n).collect();
            emit(&args[2], &idx, n, file_at);
        }
        "actx" => {
            let n = APRE.len() * 128 * APOST.len();
            let idx: Vec<usize> = (1..=n).collect();
            emit(&args[2], &idx, n, actx_at);
        }
        "apair" => {
            let exhc: usize = args[2].parse().unwrap();
            let samples: usize = args[3].parse().unwrap();
            let exh = exhc * 128 * 128;
            let upto = APAIRCTX.len() * 128 * 128;
            let idx = exh_then_samples(exh, upto, samples, 0xA9A1);
            emit(&args[4], &idx, exh, apair_at);
        }
        "bigint" => {
            let exhc: usize = args[2].parse().unwrap();
            let samples: usize = args[3].parse().unwrap();
            let exh = exhc * big_block();
            let upto = big_block() * BIG_PRE.len() * BIG_POST.len();
            let idx = exh_then_samples(exh, upto, samples, 0xB161);
            emit(&args[4], &idx, exh, big_at);
        }
        "floatlim" => {
            let exhc: usize = args[2].parse().unwrap();
            let samples: usize = args[3].parse().unwrap();
            let (ints, tails) = (fl_ints(), fl_tails());
            let block = ints.len() * tails.len();
            let exh = exhc * block;
            let upto = block * FL_PRE.len() * FL_POST.len();
            let idx = exh_then_samples(exh, upto, samples, 0xF107);
            emit(&args[4], &idx, exh, |i| floatlim_at(i, &ints, &tails));
        }
        "longnum" => {
            let n = LN_LENS.len() * 3 * 7;
            let idx: Vec<usize> = (1..=n).collect();
            emit(&args[2], &idx, n, longnum_at);
        }
        "long" => {
            let samples: usize = args[2].parse().unwrap();
            let maxchars: usize = args[3].parse().unwrap();
            let n = LUNITS.len() * LCOUNTS.len() * LWINDOWS.len();
            let ok: Vec<usize> = (1..=n)
                .filter(|i| {
                    let (u, c, w) = long_parts(*i);
                    u.chars().count() * c + w.chars().count() <= maxchars
                })
                .collect();
            // every count at least once (with the cheapest units), then seeded samples of the admissible rest
            let mut idx: Vec<usize> = Vec::new();
            for ci in 0..LCOUNTS.len() {
                for (ui, wi) in [(0usize, 0usize), (3, 1)] {
                    idx.push(1 + wi + LWINDOWS.len() * (ci + LCOUNTS.len() * ui));
                }
            }
            let mut rng = rand::rngs::StdRng::seed_from_u64(seed() ^ 0x10176);
            for _ in 0..samples {
                idx.push(ok[rng.gen_range(0..ok.len())]);
            }
            idx.sort();
            idx.dedup();
            let recs = vharness::pool::par_map(&idx, |_, i| record_long(*i));
            write_ndjson(Path::new(&args[4]), &recs);
            println!("{} 0", recs.len());
        }
        "long-one" => {
            let idx: usize = args[2].parse().unwrap();
            println!("{}", serde_json::to_string(&record_long(idx)).unwrap());
        }
        "strings" => {
            let maxlen: usize = args[2].parse().unwrap();
            let a = ALPHABET.len();
            let total: usize = (0..=maxlen).map(|l| a.pow(l as u32)).sum();
            let idx: Vec<usize> = (0..total).collect();
            let recs = vharness::pool::par_map(&idx, |_, m| record(&string_at(*m)));
            write_ndjson(Path::new(&args[3]), &recs);
            println!("{}", total);
        }
        "frags" => {
            let blocks: usize = args[2].parse().unwrap();
            let samples: usize = args[3].parse().unwrap();
            let f = FRAGS.len();
            let b1 = f;
            let b2 = f * f * 2;
            let b3 = f * f * f * 4;
            let mut idx: Vec<usize> = Vec::new();
            idx.extend(1..=b1);
            if blocks >= 2 {
                idx.extend(b1 + 1..=b1 + b2);
            }
            if blocks >= 3 {
                idx.extend(b1 + b2 + 1..=b1 + b2 + b3);
            } else {
                let mut rng = rand::rngs::StdRng::seed_from_u64(seed());
                for _ in 0..samples {
                    idx.push(b1 + b2 + 1 + rng.gen_range(0..b3));
                }
            }
            let recs = vharness::pool::par_map(&idx, |_, i| {
                let mut r = record(&frag_at(*i));
                r["idx"] = json!(*i);
                r
            });
            write_ndjson(Path::new(&args[4]), &recs);
            println!("{}", recs.len());
        }
        "free" => {
            let count: usize = args[2].parse().unwrap();
            let mut rng = rand::rngs::StdRng::seed_from_u64(seed() ^ 0xC17);
            let mut texts = Vec::new();
            for _ in 0..count {
                let n = rng.gen_range(4..9);
                let mut s = String::new();
                for _ in 0..n {
                    s.push_str(FRAGS[rng.gen_range(0..FRAGS.len())]);
                    match rng.gen_range(0..4) {
                        0 => s.push(' '),
                        1 => s.push('\n'),
                        _ => {}
                    }
                }
                let s: String = s.chars().take(34).collect();
                texts.push(s);
            }
            let recs = vharness::pool::par_map(&texts, |_, t| record(t));
            write_ndjson(Path::new(&args[3]), &recs);
            println!("{}", recs.len());
        }
        "one" => {
            let text = std::fs::read_to_string(&args[2]).unwrap();
            println!("{}", serde_json::to_string(&record(&text)).unwrap());
        }
        _ => tool_error("unknown mode"),
    }
}
