//! C07 recorder: "the compiler is total". Runs sylt on universes of inputs in *isolated worker
//! processes* and writes, per input, the sequence of events the harness observed
//! (start, ret ok/err, one render event per error, finish | panic | render_panic | timeout | abort).
//! TLC (Trace_Pipeline) decides whether each recorded run is a complete behaviour of SyltPipeline.
//!
//!   c07 run tok20.raw|tok20.top|tok20.body|tok31.raw|tok31.top|tok31.body <maxlen> <first> <last> <outdir> <name>
//!                         framed token strings (SyltPipeline!TokenTextAt, index order of TokenStringAt), no_std
//!   c07 run mut <count> <outdir> <name>                            seeded mutations of /repo/tests/**/*.sy and /repo/std/*.sy, with std
//!   c07 run proj <outdir> <name>                                   multi-file projects served from memory, with and without std
//!   c07 run cases <cases.ndjson> <outdir> <name>                   arbitrary case file (replay; the TLA+-defined families
//!                         SyltPipeline!FamCase emitted by TLC: kind "fam:<family>", whole text recorded for re-derivation)
//!   c07 show <file.sy | dir | case.json | cases.ndjson> [--std]    debugging aid: what the compiler says
//!   c07 worker <universe> <cases|-> <from> <to> <out>              internal: one result line per input, flushed
//!   c07 minimise <case.json>                                       ddmin a failing case (in-process; caller sets a timeout)
//! Output: <outdir>/<name>.trace.ndjson (for TLC, no source texts except token strings) and
//!         <outdir>/<name>.cases.ndjson (line-aligned full inputs) for mut/proj/cases.
//! C07_STUB=dropfinish|fakepanic replaces the observation for a fixed subset of inputs (negative control).
//! After MAX_TIMEOUTS recorded timeouts in one universe the recorder stops; inputs it did not run get the event `notrun`.

use rand::{Rng, SeedableRng};
use serde::{Deserialize, Serialize};
use serde_json::{json, Value};
use std::collections::BTreeMap;
use std::io::Write;
use std::path::{Path, PathBuf};
use std::time::{Duration, Instant};
use sylt_tokenizer::{string_to_tokens, Token};
use vharness::project::{compile_opts, CompileOpts, CompileResult, Project};
use vharness::util::*;

/// Same order as SyltPipeline!Tok20 / Tok31.
const TOK20: &[&str] = &[
    "a", "A", "1", "\"s\"", "::", ":=", ":", "=", "fn", "do", "end", "(", ")", ",", "\n", ".", "+", "->", "enum", "use",
];
const TOK31: &[&str] = &[
    "a", "A", "1", "\"s\"", ":=", "::", ":", "=", "fn", "pu", "do", "end", "(", ")", ",", "\n", "if", "else", ".", "+",
    "->", "'", "blob", "enum", "{", "}", "use", "ret", "loop", "break", "case",
];

// Budgets are CPU time of the worker process (utime + stime of /proc/<pid>/stat), not wall-clock time: on a machine with a
// load average of 200 an input that needs 0.1 s of CPU can take minutes of wall-clock time, and a wall-clock limit would turn
// the load into a `timeout` verdict (a false alarm that happened: DESIGN section 15). The wall clock is only a backstop that ends
// the run as a TOOL ERROR (exit 2, "machine too loaded to decide"), never as a verdict.
const STALL_SECS: u64 = 15; // CPU seconds: a worker that burns this much without writing a result is killed, its input is *suspected*
const ALONE_SECS: u64 = 60; // CPU seconds: budget of the solitary re-run; only a second timeout is recorded as `timeout`
const WALL_BACKSTOP_SECS: u64 = 900; // wall-clock: no result for this long although the CPU budget is not used up => tool error
const MAX_TIMEOUTS: usize = 8; // after this many recorded timeouts in one universe the recorder gives up: the rest is recorded as `notrun`
const MAX_DEPTH: usize = 40; // nesting bound of generated/mutated inputs
const MEM_LIMIT: u64 = 6 << 30; // address-space limit of a worker (a runaway allocation becomes an abort, not an OOM kill of the box)

fn alphabet(u: &str) -> &'static [&'static str] {
    match u {
        "tok20.raw" | "tok20.top" | "tok20.body" => TOK20,
        "tok31.raw" | "tok31.top" | "tok31.body" => TOK31,
        _ => tool_error("unknown token universe"),
    }
}

fn num_token_strings(a: usize, maxlen: usize) -> usize {
    (0..=maxlen).map(|l| a.pow(l as u32)).sum()
}

/// SyltPipeline!TokenStringAt: 1-based index; blocks by length; digits least significant first; single-space join.
fn token_string_at(alpha: &[&str], idx: usize) -> String {
    let a = alpha.len();
    let mut m = idx - 1;
    let mut l = 0usize;
    loop {
        let block = a.pow(l as u32);
        if m < block {
            break;
        }
        m -= block;
        l += 1;
    }
    let mut parts = Vec::new();
    for _ in 0..l {
        parts.push(alpha[m % a]);
        m /= a;
    }
    parts.join(" ")
}

/// SyltPipeline!TokenTextAt: the token string placed in a frame.
///   raw : the token string itself
///   top : the token string as top-level text, followed by a minimal entry point
///   body: the token string as the body of the entry point
fn token_text_at(u: &str, alpha: &[&str], idx: usize) -> String {
    let s = token_string_at(alpha, idx);
    if u.ends_with(".top") {
        format!("{}\nstart :: fn do end\n", s)
    } else if u.ends_with(".body") {
        format!("start :: fn do\n{}\nend\n", s)
    } else {
        s
    }
}

#[derive(Clone, Debug, Serialize, Deserialize)]
struct Case {
    id: String,
    /// how the case was made: truncate | delete | dup | swap | splice | move-in | move-out | proj:<family> | replay ...
    kind: String,
    /// corpus file the case derives from ("" if none)
    #[serde(default)]
    base: String,
    /// files of the project (relative path -> text); with `corpus` the unchanged corpus tree is served underneath
    files: BTreeMap<String, String>,
    main: String,
    no_std: bool,
    #[serde(default)]
    corpus: bool,
    /// a HISTORY (SyltPipeline!HistCase): the programs compiled one after the other in one fresh thread; `files` is empty then
    #[serde(default, skip_serializing_if = "Vec::is_empty")]
    steps: Vec<Step>,
}

/// one program of a history (main file is main.sy)
#[derive(Clone, Debug, Serialize, Deserialize)]
struct Step {
    files: BTreeMap<String, String>,
    no_std: bool,
}

/// The recorder's own look at a text (token counts, pieces for mutation and minimisation, skeletons). The tokenizer is
/// part of what is being checked: if it panics on this text the recorder sees no tokens instead of dying itself.
fn tokens_of(text: &str) -> Vec<sylt_tokenizer::PlacedToken> {
    vharness::project::quiet_panics();
    std::panic::catch_unwind(|| string_to_tokens(0, text)).unwrap_or_default()
}

fn tokenizer_panics(text: &str) -> bool {
    vharness::project::quiet_panics();
    std::panic::catch_unwind(|| string_to_tokens(0, text)).is_err()
}

/// SyltPipeline!FamText: every file under a header line, the main file first, the others by name
fn files_text(files: &BTreeMap<String, String>, main: &str) -> String {
    let mut names: Vec<&String> = files.keys().collect();
    names.sort_by_key(|n| (*n != main, (*n).clone()));
    let mut s = String::new();
    for n in names {
        s.push_str("## ");
        s.push_str(n);
        s.push('\n');
        s.push_str(&files[n]);
    }
    s
}

/// ... and SyltPipeline!HistText for a history: every program under a line that says whether it is compiled with std
fn fam_text(c: &Case) -> String {
    if c.steps.is_empty() {
        return files_text(&c.files, &c.main);
    }
    let mut s = String::new();
    for st in &c.steps {
        s.push_str(if st.no_std { "#### nostd\n" } else { "#### std\n" });
        s.push_str(&files_text(&st.files, "main.sy"));
    }
    s
}

fn ascii(s: &str) -> String {
    s.chars().map(|c| if c.is_ascii() && c != '\\' && c != '"' && !c.is_control() { c } else { '?' }).collect()
}

fn ev(e: &str, r: &str, n: usize, len: usize, st: &str) -> Value {
    json!({"e": e, "r": r, "n": n, "len": len, "st": st})
}

fn stage_of(kinds: &[String]) -> &'static str {
    if kinds.iter().all(|k| k == "syntax" || k == "file_not_found" || k == "git_conflict" || k == "io") {
        "parse"
    } else {
        "compile"
    }
}

/// The event list of one run, as observed through the public API.
/// Returns (events, panic text "msg @ file:line" or "", first error kinds).
fn observe(p: &Project, no_std: bool) -> (Vec<Value>, String, Vec<String>) {
    let mut evs = vec![ev("start", "-", 0, 0, "-")];
    let (res, _reads) = compile_opts(p, &CompileOpts { no_std, require: None });
    let mut pmsg = String::new();
    let mut kinds = Vec::new();
    match res {
        CompileResult::Ok { lua } => {
            evs.push(ev("ret", "ok", 0, lua.len(), "compile"));
            evs.push(ev("finish", "-", 0, 0, "-"));
        }
        CompileResult::Err { errors, bytes_written } => {
            kinds = errors.iter().map(|e| e.kind.clone()).collect();
            evs.push(ev("ret", "err", errors.len(), bytes_written, stage_of(&kinds)));
            let mut all = true;
            for (i, e) in errors.iter().enumerate() {
                if e.render_panicked {
                    evs.push(ev("render_panic", "-", i + 1, 0, "-"));
                    if pmsg.is_empty() {
                        pmsg = e.rendered.clone();
                    }
                    all = false;
                } else {
                    evs.push(ev("render", "-", i + 1, e.rendered.len(), "-"));
                }
            }
            if all {
                evs.push(ev("finish", "-", 0, 0, "-"));
            }
        }
        CompileResult::Panic { message, .. } => {
            evs.push(ev("panic", "-", 0, 0, "-"));
            pmsg = message;
        }
    }
    (evs, ascii(&pmsg), kinds)
}

const BIG_STACK: usize = 512 << 20;

fn step_project(s: &Step) -> Project {
    Project { files: s.files.clone(), main: "main.sy".into() }
}

/// A history: its programs compiled one after the other ON ONE FRESH THREAD (whatever a compilation leaves behind in
/// thread-local or process-wide state is there for the next one, and nothing of an earlier history of this worker is in
/// the thread). Events of the runs are separated by `next`; the history stops at the first run that does not finish.
fn observe_history(steps: &[Step]) -> (Vec<Value>, String) {
    let steps: Vec<Step> = steps.to_vec();
    let h = std::thread::Builder::new()
        .stack_size(BIG_STACK)
        .spawn(move || {
            let mut evs = Vec::new();
            let mut pmsg = String::new();
            for (k, s) in steps.iter().enumerate() {
                if k > 0 {
                    evs.push(ev("next", "-", k + 1, 0, "-"));
                }
                let (e, p, _) = observe(&step_project(s), s.no_std);
                let finished = e.last().map(|x| x["e"] == "finish").unwrap_or(false);
                evs.extend(e);
                if !finished {
                    pmsg = format!("run {} of the history: {}", k + 1, p);
                    break;
                }
            }
            (evs, pmsg)
        })
        .expect("spawn history thread");
    match h.join() {
        Ok(r) => r,
        Err(_) => std::process::exit(3), // a panic outside catch_unwind: the parent records an abort for this input
    }
}

/// The verdict {r, st, n} of one program compiled ALONE: first and only compilation of a fresh thread.
fn observe_alone(s: &Step) -> Value {
    let s = s.clone();
    let h = std::thread::Builder::new()
        .stack_size(BIG_STACK)
        .spawn(move || {
            let (e, _, _) = observe(&step_project(&s), s.no_std);
            match e.get(1) {
                Some(x) if x["e"] == "ret" && e.last().map(|l| l["e"] == "finish").unwrap_or(false) => json!({"r": x["r"], "st": x["st"], "n": x["n"]}),
                Some(x) => json!({"r": x["e"], "st": "-", "n": 0}), // panic | render_panic ...: no verdict
                None => json!({"r": "none", "st": "-", "n": 0}),
            }
        })
        .expect("spawn solo thread");
    match h.join() {
        Ok(r) => r,
        Err(_) => std::process::exit(3),
    }
}

fn step_key(s: &Step) -> u64 {
    let mut content = String::new();
    for (k, v) in &s.files {
        content.push_str(k);
        content.push('\u{1}');
        content.push_str(v);
        content.push('\u{2}');
    }
    fnv(&format!("{}|{}", s.no_std, content))
}

/// Negative control: a deliberately wrong observer for a fixed subset of inputs.
fn apply_stub(id: &str, evs: &mut Vec<Value>) {
    let stub = match std::env::var("C07_STUB") {
        Ok(s) => s,
        Err(_) => return,
    };
    if fnv(id) % 5 != 0 {
        return;
    }
    match stub.as_str() {
        "dropfinish" => {
            if evs.last().map(|e| e["e"] == "finish").unwrap_or(false) {
                evs.pop();
            }
        }
        "fakepanic" => {
            evs.truncate(1);
            evs.push(ev("panic", "-", 0, 0, "-"));
        }
        "norender" => {
            evs.retain(|e| e["e"] != "render");
        }
        _ => tool_error("unknown C07_STUB"),
    }
}

// ------------------------------------------------------------------------------------------------
// corpus

struct Corpus {
    /// relative path -> text, for /repo/tests/**/*.sy (rooted at tests/) and /repo/std/*.sy (under "std/")
    files: BTreeMap<String, String>,
}

fn walk(dir: &Path, out: &mut Vec<PathBuf>) {
    let mut ents: Vec<_> = match std::fs::read_dir(dir) {
        Ok(r) => r.filter_map(|e| e.ok()).map(|e| e.path()).collect(),
        Err(_) => return,
    };
    ents.sort();
    for p in ents {
        if p.is_dir() {
            walk(&p, out);
        } else if p.extension().map(|e| e == "sy").unwrap_or(false) {
            out.push(p);
        }
    }
}

fn load_corpus() -> Corpus {
    let repo = std::env::var("SYLT_REPO").unwrap_or_else(|_| "/repo".into());
    let mut files = BTreeMap::new();
    for (sub, prefix) in [("tests", ""), ("std", "std/")] {
        let root = PathBuf::from(&repo).join(sub);
        let mut v = Vec::new();
        walk(&root, &mut v);
        for p in v {
            if let Ok(s) = std::fs::read_to_string(&p) {
                let rel = p.strip_prefix(&root).unwrap().to_string_lossy().to_string();
                files.insert(format!("{}{}", prefix, rel), s);
            }
        }
    }
    if files.len() < 50 {
        tool_error("corpus not found under /repo/tests and /repo/std");
    }
    Corpus { files }
}

fn project_of(c: &Case, corpus: Option<&Corpus>) -> Project {
    let mut files = BTreeMap::new();
    if c.corpus {
        if let Some(cp) = corpus {
            files = cp.files.clone();
        }
    }
    // SyltPipeline's text family spells non-ASCII characters as ASCII placeholders (TLC must not see non-ASCII text)
    let subst = c.kind == "fam:text";
    for (k, v) in &c.files {
        let text = if subst { v.replace("@2@", "\u{e9}").replace("@3@", "\u{65e5}").replace("@4@", "\u{1F600}") } else { v.clone() };
        files.insert(k.clone(), text);
    }
    Project { files, main: c.main.clone() }
}

// ------------------------------------------------------------------------------------------------
// worker process: one flushed result line per input

#[repr(C)]
struct RLimit {
    cur: u64,
    max: u64,
}
extern "C" {
    fn setrlimit(resource: i32, rlim: *const RLimit) -> i32;
}

fn limit_memory() {
    // RLIMIT_AS = 9 on Linux
    let l = RLimit { cur: MEM_LIMIT, max: MEM_LIMIT };
    unsafe {
        setrlimit(9, &l);
    }
}

enum Source {
    Tok(&'static str, &'static [&'static str]),
    Cases(Vec<Case>),
}

impl Source {
    fn open(universe: &str, cases: &str) -> Source {
        match universe {
            "tok20.raw" => Source::Tok("tok20.raw", TOK20),
            "tok20.top" => Source::Tok("tok20.top", TOK20),
            "tok20.body" => Source::Tok("tok20.body", TOK20),
            "tok31.raw" => Source::Tok("tok31.raw", TOK31),
            "tok31.top" => Source::Tok("tok31.top", TOK31),
            "tok31.body" => Source::Tok("tok31.body", TOK31),
            _ => Source::Cases(read_ndjson(Path::new(cases))),
        }
    }
    /// the record without events; `i` is the 1-based global index
    fn head(&self, i: usize) -> Value {
        match self {
            Source::Tok(u, alpha) => {
                json!({"id": format!("{}:{}", u, i), "u": u, "idx": i, "input": token_text_at(u, alpha, i), "kind": "tok"})
            }
            Source::Cases(v) => {
                let c = &v[i - 1];
                // TLA+-defined families (SyltPipeline!FamCase): the whole text goes to TLC, which re-derives it from the index
                let input = if c.kind.starts_with("fam:") { fam_text(c) } else { String::new() };
                json!({"id": c.id, "u": "cases", "idx": i, "input": input, "kind": c.kind, "nostd": c.no_std})
            }
        }
    }
    fn case(&self, i: usize) -> Case {
        match self {
            Source::Tok(u, alpha) => {
                let mut files = BTreeMap::new();
                files.insert("main.sy".to_string(), token_text_at(u, alpha, i));
                Case {
                    id: format!("{}:{}", u, i),
                    kind: "tok".into(),
                    base: String::new(),
                    files,
                    main: "main.sy".into(),
                    no_std: true,
                    corpus: false,
                    steps: Vec::new(),
                }
            }
            Source::Cases(v) => v[i - 1].clone(),
        }
    }
    fn needs_corpus(&self) -> bool {
        match self {
            Source::Tok(..) => false,
            Source::Cases(v) => v.iter().any(|c| c.corpus),
        }
    }
}

fn finish_record(mut head: Value, evs: Vec<Value>, pmsg: &str, ms: u128) -> Value {
    head["ev"] = Value::Array(evs);
    head["pmsg"] = json!(pmsg);
    head["ms"] = json!(ms as u64);
    head
}

fn worker(universe: &str, cases: &str, from: usize, to: usize, out: &str) {
    limit_memory();
    let src = Source::open(universe, cases);
    let corpus = if src.needs_corpus() { Some(load_corpus()) } else { None };
    let mut f = std::fs::OpenOptions::new().create(true).append(true).open(out).unwrap();
    // optional self-test knobs (used only by the check's own isolation self-test)
    let selftest = std::env::var("C07_SELFTEST").unwrap_or_default();
    let mut alone: std::collections::HashMap<u64, Value> = Default::default();
    for i in from..=to {
        let c = src.case(i);
        if selftest == "hang" && c.id.ends_with(":7") {
            // a hang that burns CPU, as a compiler that loops does (a sleeping worker is a tool error after the wall-clock backstop)
            let mut x = 0u64;
            loop {
                x = std::hint::black_box(x.wrapping_add(1));
            }
        }
        if selftest == "abort" && c.id.ends_with(":7") {
            std::process::abort();
        }
        let t0 = Instant::now();
        let mut head = src.head(i);
        let mut content = String::new();
        let (mut evs, pmsg);
        if c.steps.is_empty() {
            let p = project_of(&c, corpus.as_ref());
            let o = observe(&p, c.no_std);
            evs = o.0;
            pmsg = o.1;
            apply_stub(&c.id, &mut evs);
            head["ntok"] = json!(c.files.get(&c.main).map(|t| tokens_of(t).len().saturating_sub(1)).unwrap_or(0));
        } else {
            // a history. First every program ALONE (once per worker process and distinct program, always in a thread of its
            // own and before the history), then the history in one fresh thread.
            let solo: Vec<Value> = c
                .steps
                .iter()
                .map(|s| alone.entry(step_key(s)).or_insert_with(|| observe_alone(s)).clone())
                .collect();
            head["solo"] = Value::Array(solo);
            let o = observe_history(&c.steps);
            evs = o.0;
            pmsg = o.1;
            head["ntok"] = json!(c.steps.iter().map(|s| s.files.get("main.sy").map(|t| tokens_of(t).len().saturating_sub(1)).unwrap_or(0)).sum::<usize>());
            for s in &c.steps {
                content.push_str(&format!("{:x}\u{3}", step_key(s)));
            }
        }
        for (k, v) in &c.files {
            content.push_str(k);
            content.push('\u{1}');
            content.push_str(v);
            content.push('\u{2}');
        }
        head["h"] = json!(hex(fnv(&format!("{}|{}|{}|{}", c.main, c.no_std, c.corpus, content))));
        let rec = finish_record(head, evs, &pmsg, t0.elapsed().as_millis());
        let mut line = serde_json::to_string(&rec).unwrap();
        line.push('\n');
        f.write_all(line.as_bytes()).unwrap();
        f.flush().unwrap();
    }
}

// ------------------------------------------------------------------------------------------------
// parent: batches in child processes, stall watchdog, solitary re-run, abort detection

struct Slot {
    child: std::process::Child,
    cur: usize, // next index whose line has not been seen
    to: usize,
    out: PathBuf,
    offset: usize,
    last_progress: Instant,
    cpu_mark: f64, // CPU seconds of the worker when it last wrote a result (0 at its start)
    alone: bool,
}

struct RunStats {
    suspected: usize,
    timeouts: usize,
    aborts: usize,
    batches: usize,
    notrun: usize,
}

fn spawn_worker(universe: &str, cases: &str, from: usize, to: usize, out: &Path) -> std::process::Child {
    // the path of this binary; while another build relinks it the file is briefly absent ("... (deleted)"): retry
    let exe = std::env::current_exe().unwrap();
    let exe = PathBuf::from(exe.to_string_lossy().trim_end_matches(" (deleted)").to_string());
    let _ = std::fs::remove_file(out);
    let mut tries = 0;
    loop {
        let r = std::process::Command::new(&exe)
            .args(["worker", universe, cases, &from.to_string(), &to.to_string(), &out.to_string_lossy()])
            .stdin(std::process::Stdio::null())
            .stdout(std::process::Stdio::null())
            .stderr(std::process::Stdio::null())
            .spawn();
        match r {
            Ok(c) => return c,
            Err(e) => {
                tries += 1;
                if tries > 150 {
                    tool_error(&format!("cannot spawn worker: {}", e));
                }
                std::thread::sleep(Duration::from_millis(200));
            }
        }
    }
}

extern "C" {
    fn sysconf(name: i32) -> i64;
}

/// CPU seconds (user + system, all threads) the process has consumed so far; None if it is gone.
fn proc_cpu_secs(pid: u32) -> Option<f64> {
    let stat = std::fs::read_to_string(format!("/proc/{}/stat", pid)).ok()?;
    // pid (comm) state ppid pgrp session tty_nr tpgid flags minflt cminflt majflt cmajflt utime stime ...; comm may hold blanks
    let rest = &stat[stat.rfind(')')? + 1..];
    let f: Vec<&str> = rest.split_whitespace().collect();
    let utime: f64 = f.get(11)?.parse().ok()?;
    let stime: f64 = f.get(12)?.parse().ok()?;
    let tck = unsafe { sysconf(2) }; // _SC_CLK_TCK
    let tck = if tck > 0 { tck as f64 } else { 100.0 };
    Some((utime + stime) / tck)
}

fn read_from(path: &Path, offset: usize) -> std::io::Result<Vec<u8>> {
    use std::io::{Read, Seek, SeekFrom};
    let mut f = std::fs::File::open(path)?;
    f.seek(SeekFrom::Start(offset as u64))?;
    let mut v = Vec::new();
    f.read_to_end(&mut v)?;
    Ok(v)
}

/// Runs indices first..=last of the universe; returns records in index order.
fn run_isolated(universe: &str, cases: &str, first: usize, last: usize, scratch: &Path, batch: usize) -> (Vec<Value>, RunStats) {
    let src = Source::open(universe, cases);
    let n = last + 1 - first;
    let mut results: Vec<Option<Value>> = (0..n).map(|_| None).collect();
    let mut queue: std::collections::VecDeque<(usize, usize, bool)> = Default::default();
    let mut a = first;
    while a <= last {
        let b = (a + batch - 1).min(last);
        queue.push_back((a, b, false));
        a = b + 1;
    }
    let nslots = vharness::pool::threads().max(1);
    let mut slots: Vec<Option<Slot>> = (0..nslots).map(|_| None).collect();
    let mut stats = RunStats { suspected: 0, timeouts: 0, aborts: 0, batches: 0, notrun: 0 };
    let _ = std::fs::create_dir_all(scratch);
    let mut serial = 0usize;
    loop {
        if stats.timeouts >= MAX_TIMEOUTS {
            // circuit breaker: the verdict is a violation already; do not spend 75 s on each of possibly hundreds of further hangs
            queue.clear();
            for s in slots.iter_mut() {
                if let Some(slot) = s.as_mut() {
                    let _ = slot.child.kill();
                    let _ = slot.child.wait();
                    let _ = std::fs::remove_file(&slot.out);
                }
                *s = None;
            }
            break;
        }
        let mut busy = false;
        for s in 0..nslots {
            if slots[s].is_none() {
                if let Some((f, t, alone)) = queue.pop_front() {
                    serial += 1;
                    stats.batches += 1;
                    let out = scratch.join(format!("w{}-{}.ndjson", s, serial));
                    let child = spawn_worker(universe, cases, f, t, &out);
                    slots[s] = Some(Slot { child, cur: f, to: t, out, offset: 0, last_progress: Instant::now(), cpu_mark: 0.0, alone });
                }
            }
            let mut release = false;
            if let Some(slot) = slots[s].as_mut() {
                busy = true;
                let exited = slot.child.try_wait().unwrap_or(None);
                // read complete new lines
                if let Ok(bytes) = read_from(&slot.out, slot.offset) {
                    let base = slot.offset;
                    let mut pos = 0usize;
                    while let Some(nl) = bytes[pos..].iter().position(|b| *b == b'\n') {
                        let line = &bytes[pos..pos + nl];
                        pos += nl + 1;
                        match serde_json::from_slice::<Value>(line) {
                            Ok(v) => {
                                results[slot.cur - first] = Some(v);
                                slot.cur += 1;
                                slot.last_progress = Instant::now();
                                if let Some(c) = proc_cpu_secs(slot.child.id()) {
                                    slot.cpu_mark = c;
                                }
                            }
                            Err(e) => tool_error(&format!("worker wrote bad json: {}", e)),
                        }
                    }
                    slot.offset = base + pos;
                }
                if let Some(status) = exited {
                    if slot.cur <= slot.to {
                        if status.code() == Some(2) {
                            tool_error("a worker reported a tool error");
                        }
                        // died on input `cur`: stack overflow, abort, allocation failure, kill
                        use std::os::unix::process::ExitStatusExt;
                        let why = format!("worker died: signal {:?} code {:?}", status.signal(), status.code());
                        let evs = vec![ev("start", "-", 0, 0, "-"), ev("abort", "-", 0, 0, "-")];
                        results[slot.cur - first] = Some(finish_record(src.head(slot.cur), evs, &why, 0));
                        stats.aborts += 1;
                        if slot.cur + 1 <= slot.to {
                            queue.push_front((slot.cur + 1, slot.to, false));
                        }
                    }
                    let _ = std::fs::remove_file(&slot.out);
                    release = true;
                } else {
                    let budget = if slot.alone { ALONE_SECS } else { STALL_SECS };
                    let used = proc_cpu_secs(slot.child.id()).map(|c| c - slot.cpu_mark).unwrap_or(0.0);
                    if used <= budget as f64 && slot.last_progress.elapsed() > Duration::from_secs(WALL_BACKSTOP_SECS) {
                        // neither a result nor a used-up CPU budget: the machine is too loaded (or the worker sleeps) - no verdict
                        let _ = slot.child.kill();
                        let _ = slot.child.wait();
                        tool_error(&format!(
                            "machine too loaded to decide: input {} ({}) produced no result within {} s of wall-clock time but its worker used only {:.1} s of its {} s CPU budget",
                            slot.cur, src.head(slot.cur)["id"], WALL_BACKSTOP_SECS, used, budget
                        ));
                    }
                    if used > budget as f64 {
                        let _ = slot.child.kill();
                        let _ = slot.child.wait();
                        if slot.alone {
                            let evs = vec![ev("start", "-", 0, 0, "-"), ev("timeout", "-", 0, 0, "-")];
                            let why = format!("no result within {} s of CPU time alone after {} s of CPU time without a result in a batch", ALONE_SECS, STALL_SECS);
                            results[slot.cur - first] = Some(finish_record(src.head(slot.cur), evs, &why, ALONE_SECS as u128 * 1000));
                            stats.timeouts += 1;
                        } else {
                            stats.suspected += 1;
                            if slot.cur + 1 <= slot.to {
                                queue.push_front((slot.cur + 1, slot.to, false));
                            }
                            queue.push_front((slot.cur, slot.cur, true));
                        }
                        let _ = std::fs::remove_file(&slot.out);
                        release = true;
                    }
                }
            }
            if release {
                slots[s] = None;
                busy = true;
            }
        }
        if !busy && queue.is_empty() {
            break;
        }
        std::thread::sleep(Duration::from_millis(15));
    }
    let tripped = stats.timeouts >= MAX_TIMEOUTS;
    let mut recs: Vec<Value> = Vec::with_capacity(n);
    for (k, r) in results.into_iter().enumerate() {
        match r {
            Some(v) => recs.push(v),
            None if tripped => {
                stats.notrun += 1;
                let why = format!("not run: the recorder gave up on this universe after {} timeouts", MAX_TIMEOUTS);
                recs.push(finish_record(src.head(first + k), vec![ev("notrun", "-", 0, 0, "-")], &why, 0));
            }
            None => tool_error(&format!("no result for index {}", first + k)),
        }
    }
    (recs, stats)
}

// ------------------------------------------------------------------------------------------------
// token pieces of a text (boundaries from sylt_tokenizer spans)

#[derive(Clone)]
struct Piece {
    gap: String, // blanks before the token
    text: String,
    tok: Token,
    col: usize,
}

struct Pieces {
    v: Vec<Piece>,
    tail: String,
}

/// None if the spans do not tile the text (then the file is only used for char-level mutations).
fn pieces(text: &str) -> Option<Pieces> {
    let chars: Vec<(usize, char)> = text.char_indices().collect();
    let n = chars.len();
    let byte_of = |ci: usize| if ci < n { chars[ci].0 } else { text.len() };
    let mut line_start = vec![0usize];
    for (i, (_, c)) in chars.iter().enumerate() {
        if *c == '\n' {
            line_start.push(i + 1);
        }
    }
    let mut v = Vec::new();
    let mut prev_end = 0usize; // char index
    for pt in tokens_of(text) {
        if matches!(pt.token, Token::EOF) {
            continue;
        }
        let s = pt.span;
        if s.line_start == 0 || s.line_start > line_start.len() || s.line_end == 0 || s.line_end > line_start.len() {
            return None;
        }
        let a = line_start[s.line_start - 1] + s.col_start.checked_sub(1)?;
        let b = line_start[s.line_end - 1] + s.col_end.checked_sub(1)?;
        if a < prev_end || b <= a || b > n {
            return None;
        }
        v.push(Piece {
            gap: text[byte_of(prev_end)..byte_of(a)].to_string(),
            text: text[byte_of(a)..byte_of(b)].to_string(),
            tok: pt.token,
            col: s.col_start,
        });
        prev_end = b;
    }
    Some(Pieces { v, tail: text[byte_of(prev_end)..].to_string() })
}

fn join(ps: &[Piece]) -> String {
    let mut s = String::new();
    for p in ps {
        s.push_str(&p.gap);
        s.push_str(&p.text);
    }
    s
}

/// maximal number of simultaneously open brackets/blocks, by a token-level count (over-approximation)
fn nesting(text: &str) -> usize {
    let mut d: i64 = 0;
    let mut m: i64 = 0;
    for pt in tokens_of(text) {
        match pt.token {
            Token::LeftParen | Token::LeftBracket | Token::LeftBrace | Token::Do | Token::Enum => d += 1,
            Token::RightParen | Token::RightBracket | Token::RightBrace | Token::End => d = (d - 1).max(0),
            Token::Newline => {}
            _ => {}
        }
        m = m.max(d);
    }
    m as usize
}

/// index ranges [a, b) of top-level statements: a token in column 1 that starts a definition, blob, enum or import
fn top_level(ps: &[Piece]) -> Vec<(usize, usize)> {
    let mut starts = Vec::new();
    for (i, p) in ps.iter().enumerate() {
        let at_line_start = p.col == 1 && (i == 0 || matches!(ps[i - 1].tok, Token::Newline | Token::Comment(_)));
        if !at_line_start {
            continue;
        }
        let is_start = match &p.tok {
            Token::Identifier(_) => matches!(
                ps.get(i + 1).map(|q| &q.tok),
                Some(Token::ColonColon) | Some(Token::ColonEqual) | Some(Token::Colon)
            ),
            Token::Use | Token::From => true,
            _ => false,
        };
        if is_start {
            starts.push(i);
        }
    }
    let mut out = Vec::new();
    for (k, a) in starts.iter().enumerate() {
        let b = if k + 1 < starts.len() { starts[k + 1] } else { ps.len() };
        out.push((*a, b));
    }
    out
}

fn is_type_decl(ps: &[Piece], r: (usize, usize)) -> bool {
    matches!(ps.get(r.0 + 2).map(|q| &q.tok), Some(Token::Blob) | Some(Token::Enum) | Some(Token::ExternBlob))
}

/// positions i such that tokens i-1, i are `do` NEWLINE inside a statement that has an `fn`/`pu` before the `do`
fn body_points(ps: &[Piece], tl: &[(usize, usize)]) -> Vec<usize> {
    let mut out = Vec::new();
    for (a, b) in tl {
        let mut seen_fn = false;
        for i in *a..*b {
            match ps[i].tok {
                Token::Fn | Token::Pu => seen_fn = true,
                Token::Newline if seen_fn && i > *a && matches!(ps[i - 1].tok, Token::Do) => out.push(i + 1),
                _ => {}
            }
        }
    }
    out
}

/// single-line statements inside bodies: token ranges [a, b) covering one indented line with balanced brackets
fn body_lines(ps: &[Piece]) -> Vec<(usize, usize)> {
    let mut out = Vec::new();
    let mut i = 0;
    while i < ps.len() {
        let mut j = i;
        while j < ps.len() && !matches!(ps[j].tok, Token::Newline) {
            j += 1;
        }
        if j > i && ps[i].col > 1 {
            let mut bal: i64 = 0;
            let mut ok = true;
            for p in &ps[i..j] {
                match p.tok {
                    Token::LeftParen | Token::LeftBracket | Token::LeftBrace | Token::Do => bal += 1,
                    Token::RightParen | Token::RightBracket | Token::RightBrace | Token::End => bal -= 1,
                    Token::Else | Token::Elif => ok = false,
                    _ => {}
                }
                if bal < 0 {
                    ok = false;
                }
            }
            if ok && bal == 0 {
                out.push((i, (j + 1).min(ps.len())));
            }
        }
        i = j + 1;
    }
    out
}

fn dedent(ps: &[Piece]) -> String {
    let mut v = ps.to_vec();
    if let Some(f) = v.first_mut() {
        f.gap = String::new();
    }
    join(&v)
}

const GARBAGE: &[&str] = &[
    "\"", "'", "\\", "\u{0}", "\t", "\r", "\r\n", "é", "日本", "\u{1F600}", "\u{202E}", "<<<<<<<", ">>>>>>>", "<<<<<<< HEAD\n",
    "//", "/", "#", "$", "@", "`", "~", "^", "%", "&", ";", "0x", "1e", "1.e", "..", "...", "9999999999999999999999",
    "1e999", "\u{FEFF}", "\u{2028}", "\u{7f}", "->->", "::::", "?", "!", "|", "<!>", "<=>",
];

// ------------------------------------------------------------------------------------------------
// universe (ii): mutations of the corpus

fn mk_case(id: String, kind: &str, base: &str, text: String) -> Case {
    let mut files = BTreeMap::new();
    files.insert(base.to_string(), text);
    Case { id, kind: kind.to_string(), base: base.to_string(), files, main: base.to_string(), no_std: false, corpus: true, steps: Vec::new() }
}

const EXPR_SNIPPETS: &[&str] = &[
    "(1, 2)", "(1,)", "()", "[1, 2]", "[]", "{1: 2}", "{1, 2}", "{:}", "(fn a -> a end)", "(fn do end)", "(pu a: int -> int do ret a end)",
    "(if true do 1 else 2 end)", "(if true do 1 end)", "(case 1 do else 2 end end)", "nil", "1.5", "\"s\"", "true", "(-1)", "(not true)",
    "(1 + \"s\")", "(1 <=> 1)", "(1 == 1)", "(1 < 2)", "(true and 1)", "(1 -> print())", "(print' 1)", "print", "start", "start()",
    "(1)(2)", "(1)[0]", "(1, 2)[0]", "(1, 2)[5]", "[1][0]", "(1).x", "nope", "Nope", "Nope { x: 1 }", "Nope.X 1", "Nope.X", "list",
    "list.map", "(fn -> start() end)", "(fn a, a -> a end)", "(fn a: Nope -> a end)", "(fn a: *T -> a end)", "(fn a: [int] -> a[0] end)",
    "(fn a: (int, str) -> a[1] end)", "(fn a: {int: str} -> a end)", "(fn a: fn int -> int -> a(1) end)", "<!>", "(1 in [1])",
];

const STMT_SNIPPETS: &[&str] = &[
    "ret", "ret 1", "ret (1, 2)", "break", "continue", "<!>", "loop do break end", "loop true do continue end", "loop 1 do end",
    "if true do end", "if 1 do end", "if true do ret 1 else do ret \"s\" end", "do end", "do do do end end end",
    "zz := 1", "zz :: 1", "zz = 1", "zz += 1", "zz: int = 1", "zz: Nope = 1", "zz: int : 1", "zz :: fn do end", "zz :: fn -> zz() end",
    "zz :: fn a: int -> int do ret zz(a) end", "zz := zz", "zz :: zz", "start := 1", "start :: fn do end", "start = 1", "start()",
    "use zz", "use list", "use list as start", "from list use map", "from zz use zz", "Zz :: blob { a: int }", "Zz :: blob { a: Zz }",
    "Zz :: blob { }", "Zz :: enum A, B end", "Zz :: enum A Zz end", "Zz :: enum end", "zz :: blob { a: int }", "Zz :: externblob { a: int }",
    "zz :: external", "zz: int : external", "zz: fn int -> int : external", "1", "\"s\"", "1 <=> 1", "1 <=> \"s\"", "print' 1", "1 -> print()",
    "case 1 do else end end", "case 1 do A -> 1 end end", "case Nope.X do X -> 1 end else 2 end end", "(1, 2)[0] = 1", "[1][0] = 2", "1 = 2",
    "start.x = 1", "list.map = 1", "nope.x = 1", "a, b := 1, 2", "(a, b) := (1, 2)", "int :: 1", "Int :: 1", "x: int, y: int = 1, 2",
];

const MUT_KINDS: &[&str] = &[
    "truncate", "delete", "dup", "swap", "splice", "move-in", "copy-in", "move-out", "copy-out", "garbage", "cut-chars",
    "ident-swap", "op-swap", "lit-swap", "line-delete", "line-dup", "stmt-delete", "stmt-dup",
    "expr-inject", "stmt-inject",
];

fn gen_mutations(count: usize, corpus: &Corpus) -> Vec<Case> {
    let names: Vec<&String> = corpus.files.keys().collect();
    let parsed: Vec<Option<Pieces>> = names.iter().map(|n| pieces(&corpus.files[*n])).collect();
    let usable: Vec<usize> = (0..names.len()).filter(|i| parsed[*i].as_ref().map(|p| p.v.len() >= 3).unwrap_or(false)).collect();
    if usable.len() < 50 {
        tool_error("token boundaries could not be recovered for most corpus files");
    }
    let mut out: Vec<Case> = Vec::new();
    // systematic part: every type declaration copied into the first function body of its file
    for &fi in &usable {
        let ps = parsed[fi].as_ref().unwrap();
        let tl = top_level(&ps.v);
        let bps = body_points(&ps.v, &tl);
        if bps.is_empty() {
            continue;
        }
        for (k, r) in tl.iter().enumerate().filter(|(_, r)| is_type_decl(&ps.v, **r)).take(2) {
            let bp = *bps.iter().find(|b| **b < r.0 || **b >= r.1).unwrap_or(&bps[0]);
            let mut v: Vec<Piece> = ps.v[..bp].to_vec();
            let mut ins = ps.v[r.0..r.1].to_vec();
            ins[0].gap = "    ".into();
            v.extend(ins);
            v.extend(ps.v[bp..].to_vec());
            let text = join(&v) + &ps.tail;
            out.push(mk_case(format!("mut:copy-in-sys:{}:{}", names[fi], k), "copy-in", names[fi], text));
        }
    }
    let mut rng = rand::rngs::StdRng::seed_from_u64(seed() ^ 0xC07);
    let mut seen_ids: std::collections::HashSet<String> = Default::default();
    let mut attempts = 0usize;
    while out.len() < count && attempts < count * 20 {
        attempts += 1;
        let kind = MUT_KINDS[attempts % MUT_KINDS.len()];
        let fi = usable[rng.gen_range(0..usable.len())];
        let name = names[fi];
        let src = &corpus.files[name];
        let ps = parsed[fi].as_ref().unwrap();
        let n = ps.v.len();
        let tl = top_level(&ps.v);
        let tag;
        let text: String = match kind {
            "truncate" => {
                let k = rng.gen_range(1..n);
                tag = format!("{}", k);
                join(&ps.v[..k])
            }
            "delete" => {
                let k = rng.gen_range(0..n);
                tag = format!("{}", k);
                let mut v = ps.v.clone();
                v.remove(k);
                join(&v) + &ps.tail
            }
            "dup" => {
                let k = rng.gen_range(0..n);
                tag = format!("{}", k);
                let mut v = ps.v.clone();
                let mut d = v[k].clone();
                d.gap = " ".into();
                v.insert(k + 1, d);
                join(&v) + &ps.tail
            }
            "swap" => {
                let k = rng.gen_range(0..n - 1);
                tag = format!("{}", k);
                let mut v = ps.v.clone();
                let (a, b) = (v[k].text.clone(), v[k + 1].text.clone());
                let (ta, tb) = (v[k].tok.clone(), v[k + 1].tok.clone());
                v[k].text = b;
                v[k].tok = tb;
                v[k + 1].text = a;
                v[k + 1].tok = ta;
                join(&v) + &ps.tail
            }
            "splice" => {
                let fj = usable[rng.gen_range(0..usable.len())];
                let qs = parsed[fj].as_ref().unwrap();
                let i = rng.gen_range(1..n);
                let j = rng.gen_range(0..qs.v.len());
                tag = format!("{}+{}@{}", i, names[fj], j);
                join(&ps.v[..i]) + &join(&qs.v[j..]) + &qs.tail
            }
            "move-in" | "copy-in" => {
                let bps = body_points(&ps.v, &tl);
                if bps.is_empty() || tl.is_empty() {
                    continue;
                }
                let r = tl[rng.gen_range(0..tl.len())];
                let cands: Vec<usize> = bps.iter().cloned().filter(|b| *b < r.0 || *b >= r.1).collect();
                if cands.is_empty() {
                    continue;
                }
                let bp = cands[rng.gen_range(0..cands.len())];
                tag = format!("{}@{}", r.0, bp);
                let mut ins = ps.v[r.0..r.1].to_vec();
                ins[0].gap = "    ".into();
                let mut v: Vec<Piece> = Vec::new();
                for (i, p) in ps.v.iter().enumerate() {
                    if i == bp {
                        v.extend(ins.clone());
                    }
                    if kind == "move-in" && i >= r.0 && i < r.1 {
                        continue;
                    }
                    v.push(p.clone());
                }
                join(&v) + &ps.tail
            }
            "move-out" | "copy-out" => {
                let bl = body_lines(&ps.v);
                if bl.is_empty() {
                    continue;
                }
                let r = bl[rng.gen_range(0..bl.len())];
                tag = format!("{}", r.0);
                let stmt = dedent(&ps.v[r.0..r.1]);
                let mut v: Vec<Piece> = Vec::new();
                for (i, p) in ps.v.iter().enumerate() {
                    if kind == "move-out" && i >= r.0 && i < r.1 {
                        continue;
                    }
                    v.push(p.clone());
                }
                // at the top level: in front of a random top-level statement, or at the end
                if !tl.is_empty() && rng.gen_bool(0.5) {
                    let at = tl[rng.gen_range(0..tl.len())].0;
                    let at = if kind == "move-out" && at > r.0 { at - (r.1 - r.0).min(at) } else { at };
                    let at = at.min(v.len());
                    join(&v[..at]) + "\n" + &stmt + "\n" + &join(&v[at..]) + &ps.tail
                } else {
                    join(&v) + &ps.tail + "\n" + &stmt + "\n"
                }
            }
            "garbage" => {
                let k = rng.gen_range(0..=n);
                let g = GARBAGE[rng.gen_range(0..GARBAGE.len())];
                tag = format!("{}:{}", k, rng.gen_range(0..1000));
                let glue = if rng.gen_bool(0.5) { " " } else { "" };
                join(&ps.v[..k]) + glue + g + glue + &join(&ps.v[k..]) + &ps.tail
            }
            "ident-swap" | "op-swap" | "lit-swap" => {
                // replace one token by another token of the same class taken from the same file (keeps the syntax
                // mostly valid, so name resolution and the type checker see the damage)
                let class = |t: &Token| -> u8 {
                    match t {
                        Token::Identifier(_) => 1,
                        Token::Int(_) | Token::Float(_) | Token::String(_) | Token::Bool(_) | Token::Nil => 2,
                        Token::Plus | Token::Minus | Token::Star | Token::Slash | Token::EqualEqual | Token::NotEqual
                        | Token::Less | Token::LessEqual | Token::Greater | Token::GreaterEqual | Token::And | Token::Or
                        | Token::AssertEqual | Token::Arrow | Token::Dot | Token::Equal | Token::ColonEqual
                        | Token::ColonColon | Token::PlusEqual | Token::MinusEqual | Token::Colon | Token::Comma => 3,
                        _ => 0,
                    }
                };
                let want = match kind {
                    "ident-swap" => 1,
                    "lit-swap" => 2,
                    _ => 3,
                };
                let idx: Vec<usize> = (0..n).filter(|i| class(&ps.v[*i].tok) == want).collect();
                if idx.len() < 2 {
                    continue;
                }
                let k = idx[rng.gen_range(0..idx.len())];
                let o = idx[rng.gen_range(0..idx.len())];
                if ps.v[k].text == ps.v[o].text {
                    continue;
                }
                tag = format!("{}<-{}", k, o);
                let mut v = ps.v.clone();
                v[k].text = ps.v[o].text.clone();
                v[k].tok = ps.v[o].tok.clone();
                join(&v) + &ps.tail
            }
            "expr-inject" => {
                // an identifier or literal operand is replaced by a parenthesised expression form
                let idx: Vec<usize> = (1..n)
                    .filter(|i| {
                        matches!(ps.v[*i].tok, Token::Identifier(_) | Token::Int(_) | Token::Float(_) | Token::String(_) | Token::Bool(_))
                            && !matches!(ps.v.get(*i + 1).map(|q| &q.tok), Some(Token::ColonColon) | Some(Token::ColonEqual) | Some(Token::Colon))
                            && !matches!(ps.v[*i - 1].tok, Token::Use | Token::From | Token::Dot | Token::Slash)
                    })
                    .collect();
                if idx.is_empty() {
                    continue;
                }
                let k = idx[rng.gen_range(0..idx.len())];
                let e = rng.gen_range(0..EXPR_SNIPPETS.len());
                tag = format!("{}<-e{}", k, e);
                let mut v = ps.v.clone();
                v[k].text = EXPR_SNIPPETS[e].to_string();
                join(&v) + &ps.tail
            }
            "stmt-inject" => {
                // a statement form is inserted as the first line of a function body, or at the top level
                let bps = body_points(&ps.v, &tl);
                let e = rng.gen_range(0..STMT_SNIPPETS.len());
                let (at, indent) = if !bps.is_empty() && rng.gen_range(0..5) != 0 {
                    (bps[rng.gen_range(0..bps.len())], "    ")
                } else if !tl.is_empty() {
                    (tl[rng.gen_range(0..tl.len())].0, "")
                } else {
                    continue;
                };
                tag = format!("{}<-s{}", at, e);
                let lead = if at < n { ps.v[at].gap.clone() } else { String::new() };
                let mut text = join(&ps.v[..at]);
                text.push_str(&lead);
                text.push_str(indent);
                text.push_str(STMT_SNIPPETS[e]);
                text.push('\n');
                text + &join(&ps.v[at..]) + &ps.tail
            }
            "line-delete" | "line-dup" | "stmt-delete" | "stmt-dup" => {
                let ranges: Vec<(usize, usize)> = if kind.starts_with("line") {
                    let mut r = Vec::new();
                    let mut a = 0;
                    for (i, p) in ps.v.iter().enumerate() {
                        if matches!(p.tok, Token::Newline) {
                            if i > a {
                                r.push((a, i + 1));
                            }
                            a = i + 1;
                        }
                    }
                    r
                } else {
                    tl.clone()
                };
                if ranges.is_empty() {
                    continue;
                }
                let r = ranges[rng.gen_range(0..ranges.len())];
                tag = format!("{}", r.0);
                let mut v: Vec<Piece> = ps.v[..r.0].to_vec();
                if kind.ends_with("dup") {
                    v.extend(ps.v[r.0..r.1].to_vec());
                    v.extend(ps.v[r.0..r.1].to_vec());
                }
                v.extend(ps.v[r.1..].to_vec());
                join(&v) + &ps.tail
            }
            _ => {
                // cut-chars: truncate at an arbitrary character boundary (mid-token: unterminated strings, half operators)
                let idx: Vec<usize> = src.char_indices().map(|(i, _)| i).collect();
                let k = idx[rng.gen_range(0..idx.len())];
                tag = format!("{}", k);
                src[..k].to_string()
            }
        };
        if nesting(&text) > MAX_DEPTH {
            continue;
        }
        let no_std = rng.gen_range(0..4) == 0;
        let id = format!("mut:{}:{}:{}{}", kind, name, tag, if no_std { ":nostd" } else { "" });
        if !seen_ids.insert(id.clone()) {
            continue;
        }
        let mut case = mk_case(id, kind, name, text);
        case.no_std = no_std;
        out.push(case);
    }
    out
}

// ------------------------------------------------------------------------------------------------
// universe (iii): multi-file projects served from memory

/// (tag, text) of the main file; it may refer to modules b, c, sub/d, sub/ (exports) and to std names
const MAINS: &[(&str, &str)] = &[
    ("empty", ""),
    ("comment-only", "// nothing\n"),
    ("use-b", "use b\nstart :: fn do\n    x := b.x\nend\n"),
    ("use-b-only", "use b\n"),
    ("use-b-twice", "use b\nuse b\nstart :: fn do end\n"),
    ("use-b-as-c", "use b as c\nstart :: fn do\n    y := c.x\nend\n"),
    ("use-b-as-c-and-use-c", "use b as c\nuse c\nstart :: fn do\n    y := c.x\nend\n"),
    ("use-root-b", "use /b\nstart :: fn do\n    y := b.x\nend\n"),
    ("use-b-and-root-b", "use b\nuse /b as bb\nstart :: fn do\n    y := b.x + bb.x\nend\n"),
    ("use-folder", "use sub/\nstart :: fn do\n    y := sub.x\nend\n"),
    ("use-folder-and-exports", "use sub/\nuse sub/exports\nstart :: fn do end\n"),
    ("use-sub-d", "use sub/d\nstart :: fn do\n    y := d.x\nend\n"),
    ("use-root-alone", "use /\nstart :: fn do end\n"),
    ("use-root-as", "use / as r\nstart :: fn do end\n"),
    ("use-self", "use main\nx :: 1\nstart :: fn do\n    y := main.x\nend\n"),
    ("from-b-use-x", "from b use x\nstart :: fn do\n    y := x\nend\n"),
    ("from-b-use-missing", "from b use nope\nstart :: fn do\n    y := nope\nend\n"),
    ("from-b-use-x-and-missing", "from b use (x, nope)\nstart :: fn do end\n"),
    ("from-b-use-x-as-y", "from b use x as y\nstart :: fn do\n    z := y\nend\n"),
    ("from-b-use-x-twice", "from b use x\nfrom b use x\nstart :: fn do end\n"),
    ("from-b-and-c-use-x", "from b use x\nfrom c use x\nstart :: fn do end\n"),
    ("from-b-use-type", "from b use A\nstart :: fn do\n    a := A { f: 1 }\nend\n"),
    ("from-b-use-type-collide-blob", "from b use A\nA :: blob { g: int }\nstart :: fn do end\n"),
    ("from-b-use-type-collide-enum", "from b use A\nA :: enum X, Y end\nstart :: fn do end\n"),
    ("from-b-use-x-collide-def", "from b use x\nx :: 2\nstart :: fn do end\n"),
    ("from-b-use-x-collide-var", "from b use x\nx := 2\nstart :: fn do end\n"),
    ("from-b-use-x-as-collide", "from b use x as y\ny :: fn do end\nstart :: fn do end\n"),
    ("use-b-collide-def", "use b\nb :: 1\nstart :: fn do end\n"),
    ("use-b-collide-var", "b := 1\nuse b\nstart :: fn do end\n"),
    ("use-b-collide-fn", "use b\nb :: fn do end\nstart :: fn do\n    b()\nend\n"),
    ("use-b-as-start", "use b as start\n"),
    ("use-b-missing-member", "use b\nstart :: fn do\n    y := b.nope\nend\n"),
    ("use-b-missing-type", "use b\nstart :: fn do\n    y: b.Nope = 1\nend\n"),
    ("use-b-type-ann", "use b\ny: b.A = b.A { f: 1 }\nstart :: fn do end\n"),
    ("use-b-ns-as-value", "use b\nstart :: fn do\n    y := b\nend\n"),
    ("use-b-ns-call", "use b\nstart :: fn do\n    b()\nend\n"),
    ("use-b-ns-assign", "use b\nstart :: fn do\n    b = 1\nend\n"),
    ("use-b-assign-const", "use b\nstart :: fn do\n    b.x = 2\nend\n"),
    ("use-b-assign-var", "use b\nstart :: fn do\n    b.v = 2\nend\n"),
    ("use-b-ns-of-ns", "use b\nstart :: fn do\n    y := b.c.x\nend\n"),
    ("unknown-ns", "start :: fn do\n    y := nope.x\nend\n"),
    ("unknown-ns-type", "y: nope.A = 1\nstart :: fn do end\n"),
    ("use-inside-fn", "start :: fn do\n    use b\n    y := b.x\nend\n"),
    ("from-inside-fn", "start :: fn do\n    from b use x\n    y := x\nend\n"),
    ("use-std-list", "use list\nstart :: fn do\n    y := list.map\nend\n"),
    ("use-std-preamble", "use preamble\nstart :: fn do end\n"),
    ("use-std-as", "use math as m\nstart :: fn do\n    y := m.abs(1)\nend\n"),
    ("from-std-missing", "from math use nope\nstart :: fn do end\n"),
    ("from-std-use", "from list use (map, fold)\nstart :: fn do\n    y := map\nend\n"),
    ("std-name-redef", "print :: fn do end\nstart :: fn do\n    print()\nend\n"),
    ("std-name-redef-var", "push := 1\nstart :: fn do end\n"),
    ("std-name-use", "start :: fn do\n    print(abs(-1))\nend\n"),
    ("std-type-redef", "Maybe :: blob { x: int }\nstart :: fn do end\n"),
    ("use-b-named-like-std", "use b as list\nuse list\nstart :: fn do end\n"),
    ("blob-in-fn-shadowing-import", "from b use A\nstart :: fn do\n    A :: blob { f: int }\nend\n"),
    ("enum-in-fn-shadowing-global", "A :: enum X end\nstart :: fn do\n    A :: enum Y end\nend\n"),
    ("dup-start", "start :: fn do end\nstart :: fn do end\n"),
    ("conflict-marker", "<<<<<<< HEAD\nx :: 1\n=======\nx :: 2\n>>>>>>> other\n"),
    ("syntax-error-and-use", "use b\nx :: :: 1\nstart :: fn do end\n"),
    ("type-error-and-use", "use b\nx: int = \"s\"\nstart :: fn do end\n"),
    // arbitrary text
    ("text-unterminated-string", "x :: 1\ny :: \"abc\n"),
    ("text-unterminated-string-multiline", "x :: 1\nyy :: \"abc\nz :: 2\n"),
    ("text-unterminated-string-short-last-line", "x :: 1\nyyyyyyyy :: \"abc\nz\n"),
    ("text-string-with-newline-short-last-line", "x :: 1\nyyyyyyyy :: 1 + \"abc\nz\" + + 2\n"),
    ("text-string-with-newline", "x :: \"abc\ndef\"\nstart :: fn do end\n"),
    ("text-lone-quote", "\""),
    ("text-only-blanks", "  \t \n\n   \n"),
    ("text-crlf", "x :: 1\r\nstart :: fn do\r\n    y := x\r\nend\r\n"),
    ("text-bom", "\u{FEFF}x :: 1\nstart :: fn do end\n"),
    ("text-nul", "x :: 1\u{0}\nstart :: fn do end\n"),
    ("text-non-ascii-ident", "h\u{e9} :: 1\nstart :: fn do end\n"),
    ("text-non-ascii-string", "x :: \"\u{65e5}\u{672c}\u{1F600}\"\nstart :: fn do\n    y := x + 1\nend\n"),
    ("text-non-ascii-before-error", "x :: \"\u{65e5}\u{672c}\" + + 1\n"),
    ("text-prose", "Lorem ipsum dolor sit amet, consectetur adipiscing elit.\nSed do eiusmod tempor; incididunt ut labore!\n"),
    ("text-lua", "local x = 1\nfunction f(a) return a + x end\nprint(f(2))\n"),
    ("text-symbols", "!@#$%^&*()_+-=[]{}|;':,./<>?`~\\\n"),
    ("text-huge-int", "x :: 99999999999999999999999999\nstart :: fn do end\n"),
    ("text-huge-float", "x :: 1e999\ny :: 1.e\nstart :: fn do end\n"),
    ("text-long-line", "x :: 1 + 1 + 1 + 1 + 1 + 1 + 1 + 1 + 1 + 1 + 1 + 1 + 1 + 1 + 1 + 1 + 1 + 1 + 1 + 1 + 1 + 1 + 1 + 1 + 1 + 1 + 1 + 1 + 1 + 1 + 1 + 1 + 1 + 1 + 1 + 1 + 1 + 1 + 1 + \"s\"\nstart :: fn do end\n"),
    ("text-nested-40", "x :: ((((((((((((((((((((((((((((((((((((((((1))))))))))))))))))))))))))))))))))))))))\nstart :: fn do end\n"),
    ("text-nested-40-open", "x :: ((((((((((((((((((((((((((((((((((((((((1\n"),
    ("text-unary-chain", "x :: - - - - - - - - - - - - - - - - - - - - - - - - - - - - - - 1\ny :: not not not not not not not not not not true\nstart :: fn do end\n"),
    ("text-top-level-loop", "loop do end end"),
    ("text-top-level-stmts", "x = 1\nret 1\nbreak\ncontinue\nif true do end\n<!>\n"),
];

/// variants of module b ("-" = file absent)
const MODS_B: &[(&str, &str)] = &[
    ("absent", "-"),
    ("plain", "x :: 1\nv := 1\nA :: blob { f: int }\n"),
    ("empty", ""),
    ("cycle-main", "use main\nx :: 1\nv := 1\nA :: blob { f: int }\n"),
    ("cycle-from-main", "from main use start\nx :: 1\nv := 1\nA :: blob { f: int }\n"),
    ("cycle-c", "use c\nx :: c.x\nv := 1\nA :: blob { f: int }\n"),
    ("self", "use b\nx :: b.v\nv := 1\nA :: blob { f: int }\n"),
    ("syntax-error", "x :: :: 1\nv := 1\n"),
    ("type-error", "x :: 1 + \"s\"\nv := 1\nA :: blob { f: int }\n"),
    ("dup-def", "x :: 1\nx :: 2\nv := 1\nA :: enum X end\n"),
    ("conflict", "<<<<<<< HEAD\nx :: 1\n"),
    ("uses-missing", "use nowhere\nx :: 1\nv := 1\nA :: blob { f: int }\n"),
    ("value-cycle", "from main use start\nx :: y\ny :: x\nv := 1\nA :: blob { f: A }\n"),
    ("c-ns", "use c\nx :: 1\nv := c\nA :: blob { f: c.A }\n"),
];

const MOD_C: &[(&str, &str)] = &[("absent", "-"), ("plain", "use b\nx :: 2\nA :: blob { g: int }\n")];

fn gen_projects() -> Vec<Case> {
    let mut out = Vec::new();
    for (mt, main) in MAINS {
        for (bt, b) in MODS_B {
            // main files that never mention b are combined with two b variants only
            let mentions_b = main.contains(" b") || main.contains("/b");
            if !mentions_b && !(*bt == "absent" || *bt == "plain") {
                continue;
            }
            for (ct, c) in MOD_C {
                let needs_c = main.contains(" c") || b.contains(" c");
                if !needs_c && *ct != "absent" {
                    continue;
                }
                for no_std in [true, false] {
                    let mut files = BTreeMap::new();
                    files.insert("main.sy".to_string(), main.to_string());
                    if *b != "-" {
                        files.insert("b.sy".to_string(), b.to_string());
                    }
                    if *c != "-" {
                        files.insert("c.sy".to_string(), c.to_string());
                    }
                    if *bt != "absent" {
                        files.insert("sub/exports.sy".to_string(), "use /b\nuse d\nx :: b.x\n".to_string());
                        files.insert("sub/d.sy".to_string(), "use /main as m\nuse b\nx :: 3\n".to_string());
                    }
                    let id = format!("proj:{}:b={}:c={}:{}", mt, bt, ct, if no_std { "nostd" } else { "std" });
                    out.push(Case { id, kind: format!("proj:{}", mt), base: String::new(), files, main: "main.sy".into(), no_std, corpus: false, steps: Vec::new() });
                }
            }
        }
    }
    // the main file itself is missing
    for no_std in [true, false] {
        out.push(Case {
            id: format!("proj:main-missing:{}", if no_std { "nostd" } else { "std" }),
            kind: "proj:main-missing".into(),
            base: String::new(),
            files: BTreeMap::new(),
            main: "main.sy".into(),
            no_std,
            corpus: false,
            steps: Vec::new(),
        });
    }
    out
}

// ------------------------------------------------------------------------------------------------
// minimisation (delta debugging over tokens) and the construct skeleton used for signatures

fn outcome_class(evs: &[Value]) -> String {
    match evs.last().and_then(|e| e["e"].as_str()) {
        Some("finish") => "ok".into(),
        Some(e) => {
            if evs.iter().any(|x| x["e"] == "render_panic") {
                "render_panic".into()
            } else {
                e.to_string()
            }
        }
        None => "none".into(),
    }
}

/// "file:line" of a recorded panic text ("msg @ /path/file.rs:123" possibly wrapped in <<render panicked: ..>>)
fn panic_site(pmsg: &str) -> String {
    match pmsg.rfind(" @ ") {
        Some(i) => pmsg[i + 3..].trim_end_matches('>').to_string(),
        None => String::new(),
    }
}

/// CPU seconds of this process plus those of the children it has waited for
fn self_cpu_secs() -> f64 {
    let stat = std::fs::read_to_string("/proc/self/stat").unwrap_or_default();
    let rest = match stat.rfind(')') {
        Some(i) => &stat[i + 1..],
        None => return 0.0,
    };
    let f: Vec<f64> = rest.split_whitespace().skip(11).take(4).filter_map(|x| x.parse().ok()).collect(); // utime stime cutime cstime
    let tck = unsafe { sysconf(2) };
    f.iter().sum::<f64>() / if tck > 0 { tck as f64 } else { 100.0 }
}

struct Minimiser {
    class: String,
    site: String,
    corpus: Option<Corpus>,
    scratch: PathBuf,
    tests: usize,
    budget: usize,
    t0: Instant,
    cpu0: f64,
}

impl Minimiser {
    fn run(&mut self, c: &Case) -> (String, String) {
        self.tests += 1;
        if self.class == "panic" || self.class == "render_panic" {
            let p = project_of(c, self.corpus.as_ref());
            let (evs, pmsg, _) = observe(&p, c.no_std);
            (outcome_class(&evs), panic_site(&pmsg))
        } else {
            let path = self.scratch.join("min-case.ndjson");
            write_ndjson(&path, &[c.clone()]);
            let (recs, _) = run_isolated("cases", &path.to_string_lossy(), 1, 1, &self.scratch.join("min-w"), 1);
            let evs = recs[0]["ev"].as_array().cloned().unwrap_or_default();
            (outcome_class(&evs), String::new())
        }
    }
    fn still_fails(&mut self, c: &Case) -> bool {
        // (CPU seconds of this process and of the workers it has waited for: the minimal input must not depend on the load)
        if self.tests >= self.budget || self_cpu_secs() - self.cpu0 > 90.0 || self.t0.elapsed() > Duration::from_secs(3000) {
            return false;
        }
        let (cl, site) = self.run(c);
        cl == self.class && (self.site.is_empty() || site == self.site)
    }
}

fn with_file(c: &Case, name: &str, text: String) -> Case {
    let mut d = c.clone();
    d.files.insert(name.to_string(), text);
    d
}

fn ddmin_file(m: &mut Minimiser, c: &Case, name: &str) -> Case {
    let text = c.files[name].clone();
    let ps = match pieces(&text) {
        Some(p) => p,
        None => return c.clone(),
    };
    let mut cur: Vec<Piece> = ps.v;
    let mut best = c.clone();
    // the tail (blanks after the last token) is dropped first
    let t = with_file(c, name, join(&cur));
    if m.still_fails(&t) {
        best = t;
    } else {
        return best;
    }
    let mut n = 2usize;
    while cur.len() >= 1 {
        let len = cur.len();
        let chunk = (len + n - 1) / n;
        let mut reduced = false;
        let mut start = 0;
        while start < len {
            let end = (start + chunk).min(len);
            let mut cand: Vec<Piece> = cur[..start].to_vec();
            cand.extend(cur[end..].to_vec());
            let t = with_file(c, name, join(&cand));
            if m.still_fails(&t) {
                cur = cand;
                best = t;
                n = (n - 1).max(2);
                reduced = true;
                break;
            }
            start = end;
        }
        if !reduced {
            if chunk <= 1 {
                break;
            }
            n = (n * 2).min(len);
        }
    }
    // normal form: one space between tokens, newline tokens kept
    let mut norm = cur.clone();
    for (i, p) in norm.iter_mut().enumerate() {
        let after_nl = i > 0 && matches!(cur[i - 1].tok, Token::Newline);
        p.gap = if i == 0 || after_nl || matches!(p.tok, Token::Newline) { String::new() } else { " ".into() };
    }
    let t = with_file(c, name, join(&norm));
    if m.still_fails(&t) {
        best = t;
    }
    best
}

/// character-level pass for short texts: error tokens (unterminated strings) cannot be split by the token pass
fn ddmin_chars(m: &mut Minimiser, c: &Case, name: &str) -> Case {
    let mut cur: Vec<char> = c.files[name].chars().collect();
    let mut best = c.clone();
    if cur.len() > 400 {
        return best;
    }
    let mut n = 2usize;
    while !cur.is_empty() {
        let len = cur.len();
        let chunk = (len + n - 1) / n;
        let mut reduced = false;
        let mut start = 0;
        while start < len {
            let end = (start + chunk).min(len);
            let cand: Vec<char> = cur[..start].iter().chain(cur[end..].iter()).cloned().collect();
            let t = with_file(c, name, cand.iter().collect());
            if m.still_fails(&t) {
                cur = cand;
                best = t;
                n = (n - 1).max(2);
                reduced = true;
                break;
            }
            start = end;
        }
        if !reduced {
            if chunk <= 1 {
                break;
            }
            n = (n * 2).min(len);
        }
    }
    best
}

fn canonical_name(k: usize, upper: bool) -> String {
    let c = (b'a' + (k % 26) as u8) as char;
    let s = if k < 26 { c.to_string() } else { format!("{}{}", c, k / 26) };
    if upper {
        s.to_uppercase()
    } else {
        s
    }
}

/// rename identifiers / normalise literals as long as the failure persists
fn canonicalise(m: &mut Minimiser, c: &Case) -> Case {
    let mut best = c.clone();
    let mut idents: Vec<String> = Vec::new();
    for (_, text) in &c.files {
        for pt in tokens_of(text) {
            if let Token::Identifier(s) = pt.token {
                if !idents.contains(&s) {
                    idents.push(s);
                }
            }
        }
    }
    let file_stems: Vec<String> = c.files.keys().map(|k| k.trim_end_matches(".sy").rsplit('/').next().unwrap_or("").to_string()).collect();
    let rewrite = |case: &Case, f: &dyn Fn(&Piece) -> Option<String>| -> Case {
        let mut d = case.clone();
        for (name, text) in &case.files {
            if let Some(ps) = pieces(text) {
                let mut v = ps.v;
                for p in v.iter_mut() {
                    if let Some(t) = f(p) {
                        p.text = t;
                    }
                }
                d.files.insert(name.clone(), join(&v) + &ps.tail);
            }
        }
        d
    };
    // literals
    let t = rewrite(&best, &|p: &Piece| match p.tok {
        Token::Int(_) => Some("1".into()),
        Token::Float(_) => Some("1.0".into()),
        Token::String(_) => Some("\"s\"".into()),
        _ => None,
    });
    if m.still_fails(&t) {
        best = t;
    }
    let (mut lo, mut up) = (0usize, 0usize);
    for id in idents {
        if file_stems.contains(&id) {
            continue; // names of files stay
        }
        let upper = id.chars().next().map(|ch| ch.is_uppercase()).unwrap_or(false);
        let mut target;
        loop {
            target = canonical_name(if upper { up } else { lo }, upper);
            if upper {
                up += 1
            } else {
                lo += 1
            }
            if !file_stems.contains(&target) {
                break;
            }
        }
        if target == id {
            continue;
        }
        let idc = id.clone();
        let tg = target.clone();
        let t = rewrite(&best, &move |p: &Piece| match &p.tok {
            Token::Identifier(s) if *s == idc => Some(tg.clone()),
            _ => None,
        });
        if m.still_fails(&t) {
            best = t;
        }
    }
    best
}

fn skeleton(c: &Case) -> String {
    let mut parts = Vec::new();
    let mut names: Vec<&String> = c.files.keys().collect();
    names.sort_by_key(|n| (**n != c.main, (*n).clone()));
    for name in names {
        let mut toks: Vec<String> = Vec::new();
        if tokenizer_panics(&c.files[name]) {
            // no tokens to name: the characters themselves, non-ASCII ones by their UTF-8 length
            let spelled: String = c.files[name]
                .chars()
                .map(|ch| if ch == '\n' { " ; ".to_string() } else if ch.is_ascii() { ch.to_string() } else { format!("<u{}>", ch.len_utf8()) })
                .collect();
            parts.push(format!("<tokenizer panics> {}", spelled.trim_end()));
            continue;
        }
        let listed: Vec<(Token, String)> = match pieces(&c.files[name]) {
            Some(ps) => ps.v.into_iter().map(|p| (p.tok, p.text)).collect(),
            None => tokens_of(&c.files[name]).into_iter().map(|pt| { let d = format!("{:?}", pt.token); (pt.token, d) }).collect(),
        };
        for (tok, spelled) in listed.iter() {
            let t = match tok {
                Token::Identifier(s) => s.clone(),
                Token::Int(_) => "1".into(),
                Token::Float(_) => "1.0".into(),
                Token::String(_) => "\"s\"".into(),
                Token::Newline => ";".into(),
                Token::Comment(_) | Token::EOF => continue,
                Token::Error => {
                    let shape = if spelled.starts_with('"') { "unterminated-string" } else { "char" };
                    if spelled.contains('\n') {
                        format!("<err:{}:multiline>", shape)
                    } else {
                        format!("<err:{}>", shape)
                    }
                }
                Token::Bool(b) => format!("{}", b),
                Token::Nil => "nil".into(),
                _ => ascii(spelled),
            };
            if t == ";" && toks.last().map(|l| l == ";").unwrap_or(true) {
                continue;
            }
            toks.push(t);
        }
        while toks.last().map(|l| l == ";").unwrap_or(false) {
            toks.pop();
        }
        let body = toks.join(" ");
        parts.push(if c.files.len() > 1 || *name != "main.sy" { format!("{}: {}", name, body) } else { body });
    }
    if !c.files.contains_key(&c.main) {
        parts.insert(0, format!("{}: <absent>", c.main));
    }
    format!("{}{}", parts.join(" || "), if c.no_std { " [no-std]" } else { " [std]" })
}

fn minimise(case_path: &str) {
    let text = std::fs::read_to_string(case_path).unwrap_or_else(|e| tool_error(&format!("read {}: {}", case_path, e)));
    let c: Case = serde_json::from_str(&text).unwrap_or_else(|e| tool_error(&format!("bad case json: {}", e)));
    let scratch = PathBuf::from(case_path).with_extension("min.d");
    let _ = std::fs::create_dir_all(&scratch);
    // establish the failure through the isolated path (the only one that sees aborts and hangs)
    let one = scratch.join("orig.ndjson");
    write_ndjson(&one, &[c.clone()]);
    let (recs, _) = run_isolated("cases", &one.to_string_lossy(), 1, 1, &scratch.join("w"), 1);
    let evs = recs[0]["ev"].as_array().cloned().unwrap_or_default();
    let class = outcome_class(&evs);
    let pmsg = recs[0]["pmsg"].as_str().unwrap_or("").to_string();
    let site = if class == "panic" || class == "render_panic" { panic_site(&pmsg) } else { String::new() };
    let mut best = c.clone();
    let mut tests = 0;
    if class != "ok" && class != "timeout" {
        let budget = if class == "abort" { 250 } else { 6000 };
        let corpus = if c.corpus { Some(load_corpus()) } else { None };
        let mut m = Minimiser { class: class.clone(), site: site.clone(), corpus, scratch: scratch.clone(), tests: 0, budget, t0: Instant::now(), cpu0: self_cpu_secs() };
        // 1. without the corpus tree underneath, 2. without std, 3. fewer files, 4. fewer tokens, 5. canonical names
        if best.corpus {
            let mut t = best.clone();
            t.corpus = false;
            if m.still_fails(&t) {
                best = t;
            }
        }
        if !best.no_std {
            let mut t = best.clone();
            t.no_std = true;
            if m.still_fails(&t) {
                best = t;
            }
        }
        let names: Vec<String> = best.files.keys().cloned().collect();
        let main_name = best.main.clone();
        for name in names.iter().filter(|n| **n != main_name) {
            let mut t = best.clone();
            t.files.remove(name);
            if m.still_fails(&t) {
                best = t;
            }
        }
        let mut names: Vec<String> = best.files.keys().cloned().collect();
        names.sort_by_key(|n| *n != best.main);
        for _round in 0..2 {
            for name in &names {
                if best.files.contains_key(name) {
                    best = ddmin_file(&mut m, &best, name);
                }
            }
        }
        for name in &names {
            let has_err = best.files.get(name).map(|t| tokenizer_panics(t) || tokens_of(t).iter().any(|p| matches!(p.token, Token::Error)));
            if has_err == Some(true) {
                best = ddmin_chars(&mut m, &best, name);
            }
        }
        if !best.corpus && best.files.len() == 1 && best.main != "main.sy" && best.files.contains_key(&best.main) {
            let mut t = best.clone();
            let text = t.files.remove(&best.main).unwrap();
            t.files.insert("main.sy".into(), text);
            t.main = "main.sy".into();
            if m.still_fails(&t) {
                best = t;
            }
        }
        if !best.corpus {
            best = canonicalise(&mut m, &best);
        }
        tests = m.tests;
    }
    let site_file = site.rsplit('/').next().unwrap_or("").split(':').next().unwrap_or("").to_string();
    let out = json!({"class": class, "pmsg": pmsg, "site": site, "site_file": site_file, "tests": tests,
                     "skeleton": skeleton(&best), "case": best});
    println!("{}", serde_json::to_string(&out).unwrap());
    let _ = std::fs::remove_dir_all(&scratch);
}

/// debugging aid: compile one .sy file, a directory of .sy files (main.sy is the entry) or a case json; print what happened
fn show(path: &str, std: bool) {
    let p = Path::new(path);
    if path.ends_with(".ndjson") {
        // one line per case: id, outcome, kinds and first message lines of the errors
        let cases: Vec<Case> = read_ndjson(p);
        let h = std::thread::Builder::new()
            .stack_size(512 << 20)
            .spawn(move || {
                for c in cases {
                    let (res, _) = compile_opts(&project_of(&c, None), &CompileOpts { no_std: c.no_std, require: None });
                    let what = match res {
                        CompileResult::Ok { .. } => "OK".to_string(),
                        CompileResult::Err { errors, .. } => errors
                            .iter()
                            .map(|e| format!("{}:{}:{}[{}]", e.kind, e.file, e.line, e.rendered.lines().filter(|l| !l.starts_with("Unable")).skip(1).take(2).map(|l| l.trim()).collect::<Vec<_>>().join(" / ")))
                            .collect::<Vec<_>>()
                            .join(" ; "),
                        CompileResult::Panic { message, .. } => format!("PANIC {}", message),
                    };
                    println!("{}\t{}", c.id, what);
                }
            })
            .unwrap();
        let _ = h.join();
        return;
    }
    let mut files = BTreeMap::new();
    let mut no_std = !std;
    let mut main = "main.sy".to_string();
    if p.is_dir() {
        let mut v = Vec::new();
        walk(p, &mut v);
        for f in v {
            files.insert(f.strip_prefix(p).unwrap().to_string_lossy().to_string(), std::fs::read_to_string(&f).unwrap());
        }
    } else if path.ends_with(".json") {
        let c: Case = serde_json::from_str(&std::fs::read_to_string(p).unwrap()).unwrap();
        files = c.files;
        no_std = c.no_std;
        main = c.main;
    } else {
        files.insert("main.sy".to_string(), std::fs::read_to_string(p).unwrap());
    }
    let a = (files, main, no_std);
    let h = std::thread::Builder::new()
        .stack_size(512 << 20)
        .spawn(move || {
            let t0 = Instant::now();
            let (res, _) = compile_opts(&Project { files: a.0, main: a.1 }, &CompileOpts { no_std: a.2, require: None });
            match res {
                CompileResult::Ok { lua } => println!("OK {} bytes, {} ms", lua.len(), t0.elapsed().as_millis()),
                CompileResult::Err { errors, .. } => {
                    println!("ERR {} errors, {} ms", errors.len(), t0.elapsed().as_millis());
                    for e in errors {
                        println!("--- {} {}:{}\n{}", e.kind, e.file, e.line, e.rendered);
                    }
                }
                CompileResult::Panic { message, .. } => println!("PANIC {} ({} ms)", message, t0.elapsed().as_millis()),
            }
        })
        .unwrap();
    let _ = h.join();
}

fn write_outputs(outdir: &str, name: &str, recs: &[Value], cases: Option<&[Case]>, stats: &RunStats, t0: Instant) {
    let dir = PathBuf::from(outdir);
    write_ndjson(&dir.join(format!("{}.trace.ndjson", name)), recs);
    if let Some(cs) = cases {
        write_ndjson(&dir.join(format!("{}.cases.ndjson", name)), cs);
    }
    let mut classes: BTreeMap<String, usize> = BTreeMap::new();
    for r in recs {
        *classes.entry(outcome_class(r["ev"].as_array().map(|v| v.as_slice()).unwrap_or(&[]))).or_insert(0) += 1;
    }
    println!(
        "{}",
        json!({"records": recs.len(), "suspected": stats.suspected, "timeouts": stats.timeouts, "aborts": stats.aborts,
               "notrun": stats.notrun, "batches": stats.batches, "classes": classes, "wall_ms": t0.elapsed().as_millis() as u64})
    );
}

fn main() {
    let args: Vec<String> = std::env::args().collect();
    if args.len() < 3 {
        tool_error("usage: c07 run|worker|minimise ...");
    }
    let t0 = Instant::now();
    match (args[1].as_str(), args[2].as_str()) {
        ("worker", _) => {
            let a = args.clone();
            let h = std::thread::Builder::new()
                .stack_size(BIG_STACK)
                .spawn(move || worker(&a[2], &a[3], a[4].parse().unwrap(), a[5].parse().unwrap(), &a[6]))
                .unwrap();
            if h.join().is_err() {
                std::process::exit(3);
            }
        }
        ("minimise", p) => minimise(p),
        ("show", p) => show(p, args.iter().any(|a| a == "--std")),
        ("run", u @ ("tok20.raw" | "tok20.top" | "tok20.body" | "tok31.raw" | "tok31.top" | "tok31.body")) => {
            let maxlen: usize = args[3].parse().unwrap();
            let total = num_token_strings(alphabet(u).len(), maxlen);
            let first: usize = args[4].parse().unwrap();
            let last: usize = args[5].parse::<usize>().unwrap().min(total);
            let scratch = PathBuf::from(&args[6]).join(format!("{}.scratch", args[7]));
            let (recs, stats) = run_isolated(u, "-", first, last, &scratch, 3000);
            write_outputs(&args[6], &args[7], &recs, None, &stats, t0);
            let _ = std::fs::remove_dir_all(&scratch);
        }
        ("run", u @ ("mut" | "proj" | "cases")) => {
            let (cases, outdir, name): (Vec<Case>, &str, &str) = match u {
                "mut" => (gen_mutations(args[3].parse().unwrap(), &load_corpus()), &args[4], &args[5]),
                "proj" => (gen_projects(), &args[3], &args[4]),
                _ => (read_ndjson(Path::new(&args[3])), &args[4], &args[5]),
            };
            if cases.is_empty() {
                tool_error("no cases");
            }
            let cpath = PathBuf::from(outdir).join(format!("{}.cases.ndjson", name));
            write_ndjson(&cpath, &cases);
            let scratch = PathBuf::from(outdir).join(format!("{}.scratch", name));
            let batch = (cases.len() / (vharness::pool::threads() * 6)).clamp(1, 60);
            let (recs, stats) = run_isolated("cases", &cpath.to_string_lossy(), 1, cases.len(), &scratch, batch);
            write_outputs(outdir, name, &recs, Some(&cases), &stats, t0);
            let _ = std::fs::remove_dir_all(&scratch);
        }
        _ => tool_error("unknown mode"),
    }
}
