//! C07 recorder: "the compiler is total". Runs sylt on universes of inputs in *isolated worker
//! processes* and writes, per input, the sequence of events the harness observed
//! (start, ret ok/err, one render event per error, finish | panic | render_panic | timeout | abort).
//! TLC (Trace_Pipeline) decides whether each recorded run is a complete behaviour of SyltPipeline.
//!
//!   c07 run tok20|tok31 <maxlen> <first> <last> <outdir> <name>   token strings (index order of SyltPipeline!TokenStringAt), no_std
//!   c07 run mut <count> <outdir> <name>                            seeded mutations of /repo/tests/**/*.sy and /repo/std/*.sy, with std
//!   c07 run proj <outdir> <name>                                   multi-file projects served from memory, with and without std
//!   c07 run cases <cases.ndjson> <outdir> <name>                   arbitrary case file (replay)
//!   c07 worker <universe> <cases|-> <from> <to> <out>              internal: one result line per input, flushed
//!   c07 minimise <case.json>                                       ddmin a failing case (in-process; caller sets a timeout)
//! Output: <outdir>/<name>.trace.ndjson (for TLC, no source texts except token strings) and
//!         <outdir>/<name>.cases.ndjson (line-aligned full inputs) for mut/proj/cases.
//! C07_STUB=dropfinish|fakepanic replaces the observation for a fixed subset of inputs (negative control).

use rand::{Rng, SeedableRng};
use serde::{Deserialize, Serialize};
use serde_json::{json, Value};
use std::collections::BTreeMap;
use std::io::Write;
use std::path::{Path, PathBuf};
use std::time::{Duration, Instant};
use sylt_tokenizer::{string_to_tokens, Token};
use vharness::project::{compile_opts, CompileOpts, CompileResult, Project};
use vharness::util::*;

/// Same order as SyltPipeline!Tok20 / Tok31.
const TOK20: &[&str] = &[
    "a", "A", "1", "\"s\"", "::", ":=", ":", "=", "fn", "do", "end", "(", ")", ",", "\n", ".", "+", "->", "enum", "use",
];
const TOK31: &[&str] = &[
    "a", "A", "1", "\"s\"", ":=", "::", ":", "=", "fn", "pu", "do", "end", "(", ")", ",", "\n", "if", "else", ".", "+",
    "->", "'", "blob", "enum", "{", "}", "use", "ret", "loop", "break", "case",
];

const STALL_SECS: u64 = 15; // a worker that writes nothing for this long is killed, its input is *suspected*
const ALONE_SECS: u64 = 60; // budget of the solitary re-run; only a second timeout is recorded as `timeout`
const MAX_DEPTH: usize = 40; // nesting bound of generated/mutated inputs
const MEM_LIMIT: u64 = 6 << 30; // address-space limit of a worker (a runaway allocation becomes an abort, not an OOM kill of the box)

fn alphabet(u: &str) -> &'static [&'static str] {
    match u {
        "tok20" => TOK20,
        "tok31" => TOK31,
        _ => tool_error("unknown token universe"),
    }
}

fn num_token_strings(a: usize, maxlen: usize) -> usize {
    (0..=maxlen).map(|l| a.pow(l as u32)).sum()
}

/// SyltPipeline!TokenStringAt: 1-based index; blocks by length; digits least significant first; single-space join.
fn token_string_at(alpha: &[&str], idx: usize) -> String {
    let a = alpha.len();
    let mut m = idx - 1;
    let mut l = 0usize;
    loop {
        let block = a.pow(l as u32);
        if m < block {
            break;
        }
        m -= block;
        l += 1;
    }
    let mut parts = Vec::new();
    for _ in 0..l {
        parts.push(alpha[m % a]);
        m /= a;
    }
    parts.join(" ")
}

#[derive(Clone, Debug, Serialize, Deserialize)]
struct Case {
    id: String,
    /// how the case was made: truncate | delete | dup | swap | splice | move-in | move-out | proj:<family> | replay ...
    kind: String,
    /// corpus file the case derives from ("" if none)
    #[serde(default)]
    base: String,
    /// files of the project (relative path -> text); with `corpus` the unchanged corpus tree is served underneath
    files: BTreeMap<String, String>,
    main: String,
    no_std: bool,
    #[serde(default)]
    corpus: bool,
}

fn ascii(s: &str) -> String {
    s.chars().map(|c| if c.is_ascii() && c != '\\' && c != '"' && !c.is_control() { c } else { '?' }).collect()
}

fn ev(e: &str, r: &str, n: usize, len: usize, st: &str) -> Value {
    json!({"e": e, "r": r, "n": n, "len": len, "st": st})
}

fn stage_of(kinds: &[String]) -> &'static str {
    if kinds.iter().all(|k| k == "syntax" || k == "file_not_found" || k == "git_conflict" || k == "io") {
        "parse"
    } else {
        "compile"
    }
}

/// The event list of one run, as observed through the public API.
/// Returns (events, panic text "msg @ file:line" or "", first error kinds).
fn observe(p: &Project, no_std: bool) -> (Vec<Value>, String, Vec<String>) {
    let mut evs = vec![ev("start", "-", 0, 0, "-")];
    let (res, _reads) = compile_opts(p, &CompileOpts { no_std, require: None });
    let mut pmsg = String::new();
    let mut kinds = Vec::new();
    match res {
        CompileResult::Ok { lua } => {
            evs.push(ev("ret", "ok", 0, lua.len(), "compile"));
            evs.push(ev("finish", "-", 0, 0, "-"));
        }
        CompileResult::Err { errors, bytes_written } => {
            kinds = errors.iter().map(|e| e.kind.clone()).collect();
            evs.push(ev("ret", "err", errors.len(), bytes_written, stage_of(&kinds)));
            let mut all = true;
            for (i, e) in errors.iter().enumerate() {
                if e.render_panicked {
                    evs.push(ev("render_panic", "-", i + 1, 0, "-"));
                    if pmsg.is_empty() {
                        pmsg = e.rendered.clone();
                    }
                    all = false;
                } else {
                    evs.push(ev("render", "-", i + 1, e.rendered.len(), "-"));
                }
            }
            if all {
                evs.push(ev("finish", "-", 0, 0, "-"));
            }
        }
        CompileResult::Panic { message, .. } => {
            evs.push(ev("panic", "-", 0, 0, "-"));
            pmsg = message;
        }
    }
    (evs, ascii(&pmsg), kinds)
}

/// Negative control: a deliberately wrong observer for a fixed subset of inputs.
fn apply_stub(id: &str, evs: &mut Vec<Value>) {
    let stub = match std::env::var("C07_STUB") {
        Ok(s) => s,
        Err(_) => return,
    };
    if fnv(id) % 5 != 0 {
        return;
    }
    match stub.as_str() {
        "dropfinish" => {
            if evs.last().map(|e| e["e"] == "finish").unwrap_or(false) {
                evs.pop();
            }
        }
        "fakepanic" => {
            evs.truncate(1);
            evs.push(ev("panic", "-", 0, 0, "-"));
        }
        "norender" => {
            evs.retain(|e| e["e"] != "render");
        }
        _ => tool_error("unknown C07_STUB"),
    }
}

// ------------------------------------------------------------------------------------------------
// corpus

struct Corpus {
    /// relative path -> text, for /repo/tests/**/*.sy (rooted at tests/) and /repo/std/*.sy (under "std/")
    files: BTreeMap<String, String>,
}

fn walk(dir: &Path, out: &mut Vec<PathBuf>) {
    let mut ents: Vec<_> = match std::fs::read_dir(dir) {
        Ok(r) => r.filter_map(|e| e.ok()).map(|e| e.path()).collect(),
        Err(_) => return,
    };
    ents.sort();
    for p in ents {
        if p.is_dir() {
            walk(&p, out);
        } else if p.extension().map(|e| e == "sy").unwrap_or(false) {
            out.push(p);
        }
    }
}

fn load_corpus() -> Corpus {
    let repo = std::env::var("SYLT_REPO").unwrap_or_else(|_| "/repo".into());
    let mut files = BTreeMap::new();
    for (sub, prefix) in [("tests", ""), ("std", "std/")] {
        let root = PathBuf::from(&repo).join(sub);
        let mut v = Vec::new();
        walk(&root, &mut v);
        for p in v {
            if let Ok(s) = std::fs::read_to_string(&p) {
                let rel = p.strip_prefix(&root).unwrap().to_string_lossy().to_string();
                files.insert(format!("{}{}", prefix, rel), s);
            }
        }
    }
    if files.len() < 50 {
        tool_error("corpus not found under /repo/tests and /repo/std");
    }
    Corpus { files }
}

fn project_of(c: &Case, corpus: Option<&Corpus>) -> Project {
    let mut files = BTreeMap::new();
    if c.corpus {
        if let Some(cp) = corpus {
            files = cp.files.clone();
        }
    }
    for (k, v) in &c.files {
        files.insert(k.clone(), v.clone());
    }
    Project { files, main: c.main.clone() }
}

// @@APPEND@@
