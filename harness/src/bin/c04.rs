//! C04 recorder: constants are immutable, pure functions stay pure.
//!   c04 record <cases.ndjson> <trace.ndjson>
//!   c04 probe <file.sy>...          (scratch helper: compile files from disk; `//// file: m.sy` splits a project)
//! Case (emitted by MC_Purity, mode emit):
//!   {id: {part, kind, form, path, host}, clause, bases: [prog], planted: prog},  prog = {names: [{b, n}], main: tops, mods: [{name, tops}]}
//! Record: {id, bases: [{class, kind}], planted: {class, kind}} (+ sources / first error detail for every outcome
//! that is not bases=ok, planted=err).  The verdict is TLC's (MC_Purity, mode validate).
//! C04_STUB=accept: negative control, reports every planted program of an even record index as accepted.

use serde_json::{json, Value};
use std::collections::{BTreeMap, HashMap};
use std::path::Path;
use vharness::printer::{print_program, PrintOpts};
use vharness::util::*;
use vharness::{CompileResult, Project};

fn render(prog: &Value) -> Project {
    // the specification names the binders whose text matters (`names`: [{b, n}])
    let mut opts = PrintOpts::default();
    if let Some(ns) = prog["names"].as_array() {
        for n in ns {
            opts.naming.insert(n["b"].as_i64().unwrap(), n["n"].as_str().unwrap().to_string());
        }
    }
    let mut files = BTreeMap::new();
    files.insert("main.sy".to_string(), print_program(prog["main"].as_array().unwrap(), &opts));
    if let Some(mods) = prog["mods"].as_array() {
        for m in mods {
            let name = format!("{}.sy", m["name"].as_str().unwrap());
            files.insert(name, print_program(m["tops"].as_array().unwrap(), &opts));
        }
    }
    Project { files, main: "main.sy".into() }
}

fn outcome(p: &Project) -> (Value, String) {
    match vharness::compile(p) {
        CompileResult::Ok { .. } => (json!({"class": "ok", "kind": "-"}), String::new()),
        CompileResult::Err { errors, .. } => {
            let first = errors.first();
            let kind = first.map(|e| e.kind.clone()).unwrap_or_else(|| "none".into());
            let detail = first.map(|e| format!("{}:{} {}", e.file, e.line, e.message)).unwrap_or_default();
            (json!({"class": "err", "kind": kind}), detail)
        }
        CompileResult::Panic { message, .. } => (json!({"class": "panic", "kind": "panic"}), message),
    }
}

fn split_project(text: &str) -> Project {
    let mut files: BTreeMap<String, String> = BTreeMap::new();
    let mut cur = "main.sy".to_string();
    for l in text.lines() {
        if let Some(n) = l.strip_prefix("//// file:") {
            cur = n.trim().to_string();
            continue;
        }
        let e = files.entry(cur.clone()).or_default();
        e.push_str(l);
        e.push('\n');
    }
    Project { files, main: "main.sy".into() }
}

fn main() {
    let args: Vec<String> = std::env::args().collect();
    if args.len() >= 3 && args[1] == "probe" {
        for f in &args[2..] {
            let text = std::fs::read_to_string(f).unwrap();
            let (o, d) = outcome(&split_project(&text));
            println!("{}\t{}\t{}", f, o["class"].as_str().unwrap(), d.replace('\n', " "));
        }
        return;
    }
    if args.len() < 4 || args[1] != "record" {
        tool_error("usage: c04 record <cases> <trace> | c04 probe <file>...");
    }
    // the case file is large (three program ASTs per case): lines are parsed, rendered and dropped one by one (in parallel)
    let text = std::fs::read_to_string(&args[2]).unwrap_or_else(|e| tool_error(&format!("open {}: {}", args[2], e)));
    let lines: Vec<&str> = text.lines().filter(|l| !l.trim().is_empty()).collect();
    let stub = std::env::var("C04_STUB").ok().as_deref() == Some("accept");
    // render everything, compile every DISTINCT program once (many cases share a base program), assemble the records
    let parsed: Vec<(Value, Vec<Project>, Project)> = vharness::pool::par_map(&lines, |i, l| {
        let c: Value = serde_json::from_str(l).unwrap_or_else(|e| tool_error(&format!("{}:{}: bad json: {}", args[2], i + 1, e)));
        (c["id"].clone(), c["bases"].as_array().unwrap().iter().map(render).collect(), render(&c["planted"]))
    });
    drop(lines);
    drop(text);
    let ids: Vec<&Value> = parsed.iter().map(|r| &r.0).collect();
    let rendered: Vec<(&Vec<Project>, &Project)> = parsed.iter().map(|r| (&r.1, &r.2)).collect();
    let mut index: HashMap<&Project, usize> = HashMap::new();
    let mut uniq: Vec<&Project> = Vec::new();
    for (bps, pp) in &rendered {
        for p in bps.iter().chain(std::iter::once(*pp)) {
            if !index.contains_key(p) {
                index.insert(p, uniq.len());
                uniq.push(p);
            }
        }
    }
    let outs: Vec<(Value, String)> = vharness::pool::par_map(&uniq, |_, p| outcome(p));
    eprintln!("c04: {} cases, {} programs, {} distinct programs compiled", ids.len(), rendered.iter().map(|r| r.0.len() + 1).sum::<usize>(), uniq.len());
    let recs: Vec<Value> = ids
        .iter()
        .enumerate()
        .map(|(i, id)| {
            let (bps, pp) = rendered[i];
            let bos: Vec<(Value, String)> = bps.iter().map(|p| outs[index[p]].clone()).collect();
            let (mut po, pd) = outs[index[pp]].clone();
            if stub && i % 2 == 0 {
                po = json!({"class": "ok", "kind": "-"});
            }
            let bases: Vec<Value> = bos.iter().map(|(o, _)| o.clone()).collect();
            let all_ok = bases.iter().all(|b| b["class"] == "ok");
            let mut r = json!({"id": id, "bases": bases, "planted": po});
            if !all_ok || r["planted"]["class"] != "err" || i < 3 {
                r["bases_detail"] = json!(bos.iter().map(|(_, d)| d.clone()).collect::<Vec<_>>());
                r["planted_detail"] = json!(pd);
                r["bases_src"] = json!(bps.iter().map(|p| p.files.clone()).collect::<Vec<_>>());
                r["planted_src"] = json!(pp.files);
            }
            r
        })
        .collect();
    write_ndjson(Path::new(&args[3]), &recs);
}
