//! C04 recorder: constants are immutable, pure functions stay pure.
//!   c04 record <cases.ndjson> <trace.ndjson>
//!   c04 probe <file.sy>...          (scratch helper: compile files from disk; `//// file: m.sy` splits a project)
//! Case (emitted by MC_Purity, mode emit):
//!   {id: {part, kind, form, path, host}, clause, bases: [prog], planted: prog},  prog = {names: [{b, n}], main: tops, mods: [{name, tops}]}
//! Record: {id, bases: [{class, kind}], planted: {class, kind}} (+ sources / first error detail for every outcome
//! that is not bases=ok, planted=err).  The verdict is TLC's (MC_Purity, mode validate).
//! C04_STUB=accept: negative control, reports every planted program of an even record index as accepted.

use serde_json::{json, Value};
use std::collections::BTreeMap;
use std::path::Path;
use vharness::printer::{print_program, PrintOpts};
use vharness::util::*;
use vharness::{CompileResult, Project};

fn render(prog: &Value) -> Project {
    // the specification names the binders whose text matters (`names`: [{b, n}])
    let mut opts = PrintOpts::default();
    if let Some(ns) = prog["names"].as_array() {
        for n in ns {
            opts.naming.insert(n["b"].as_i64().unwrap(), n["n"].as_str().unwrap().to_string());
        }
    }
    let mut files = BTreeMap::new();
    files.insert("main.sy".to_string(), print_program(prog["main"].as_array().unwrap(), &opts));
    if let Some(mods) = prog["mods"].as_array() {
        for m in mods {
            let name = format!("{}.sy", m["name"].as_str().unwrap());
            files.insert(name, print_program(m["tops"].as_array().unwrap(), &opts));
        }
    }
    Project { files, main: "main.sy".into() }
}

fn outcome(p: &Project) -> (Value, String) {
    match vharness::compile(p) {
        CompileResult::Ok { .. } => (json!({"class": "ok", "kind": "-"}), String::new()),
        CompileResult::Err { errors, .. } => {
            let first = errors.first();
            let kind = first.map(|e| e.kind.clone()).unwrap_or_else(|| "none".into());
            let detail = first.map(|e| format!("{}:{} {}", e.file, e.line, e.message)).unwrap_or_default();
            (json!({"class": "err", "kind": kind}), detail)
        }
        CompileResult::Panic { message, .. } => (json!({"class": "panic", "kind": "panic"}), message),
    }
}

fn split_project(text: &str) -> Project {
    let mut files: BTreeMap<String, String> = BTreeMap::new();
    let mut cur = "main.sy".to_string();
    for l in text.lines() {
        if let Some(n) = l.strip_prefix("//// file:") {
            cur = n.trim().to_string();
            continue;
        }
        let e = files.entry(cur.clone()).or_default();
        e.push_str(l);
        e.push('\n');
    }
    Project { files, main: "main.sy".into() }
}

fn main() {
    let args: Vec<String> = std::env::args().collect();
    if args.len() >= 3 && args[1] == "probe" {
        for f in &args[2..] {
            let text = std::fs::read_to_string(f).unwrap();
            let (o, d) = outcome(&split_project(&text));
            println!("{}\t{}\t{}", f, o["class"].as_str().unwrap(), d.replace('\n', " "));
        }
        return;
    }
    if args.len() < 4 || args[1] != "record" {
        tool_error("usage: c04 record <cases> <trace> | c04 probe <file>...");
    }
    let cases: Vec<Value> = read_ndjson(Path::new(&args[2]));
    let stub = std::env::var("C04_STUB").ok().as_deref() == Some("accept");
    let recs = vharness::pool::par_map(&cases, |i, c| {
        let bps: Vec<Project> = c["bases"].as_array().unwrap().iter().map(render).collect();
        let pp = render(&c["planted"]);
        let bos: Vec<(Value, String)> = bps.iter().map(outcome).collect();
        let (mut po, pd) = outcome(&pp);
        if stub && i % 2 == 0 {
            po = json!({"class": "ok", "kind": "-"});
        }
        let bases: Vec<Value> = bos.iter().map(|(o, _)| o.clone()).collect();
        let all_ok = bases.iter().all(|b| b["class"] == "ok");
        let mut r = json!({"id": c["id"], "bases": bases, "planted": po});
        if !all_ok || r["planted"]["class"] != "err" || i < 3 {
            r["bases_detail"] = json!(bos.iter().map(|(_, d)| d.clone()).collect::<Vec<_>>());
            r["planted_detail"] = json!(pd);
            r["bases_src"] = json!(bps.iter().map(|p| p.files.clone()).collect::<Vec<_>>());
            r["planted_src"] = json!(pp.files);
        }
        r
    });
    write_ndjson(Path::new(&args[3]), &recs);
}
