//! C13 replayer: TLC-generated expression cases -> real parser (and, for the typed universes, real compiler + minilua).
//!   c13 replay <cases.ndjson> <results.ndjson>
//!   c13 probe <file.sy>          (development aid: dump the tree, compile, run)
//! Each case: {u, t (expected tree), min (tokens), full (tokens), val} and, for the universes that place the expression
//! somewhere else than on the right of a top-level definition, the text AROUND it - all of it written by the specification:
//!   wl, wr   tokens before / after the expression (default `q ::` / nothing); "\n" tokens are line breaks
//!   path     where the expression must be found in the dumped first statement (default ["e"]); digits index arrays
//!   whole    also require that the whole dumped module is the same for the min and the full text
//!   ev       compile and run (default: u == "typed"); epre / epost are the tokens of the program around the expression
//!            (default `start :: fn do print(` / `) end`); val = {k:int|bool|assert_failed, v} or {k:"show", s: printed text}
//! Result: {i, checks:[{what, ok, got}]}.  Rust only builds the text from the tokens, runs sylt and records.
//! C13_STUB=flip: negative control, swaps the operands of every '-' node in the dumped tree.
//! C13_STUB=comment: negative control for the run checks, a generator that writes a negation without a separating
//!                   space in front of a negative literal (the emitted Lua gets `--`, a comment).

use serde_json::{json, Value};
use std::path::Path;
use vharness::astdump;
use vharness::util::*;

fn toks_of(v: &Value) -> Vec<String> {
    v.as_array().map(|a| a.iter().map(|t| t.as_str().unwrap().to_string()).collect()).unwrap_or_default()
}

fn text_of(toks: &Value) -> String {
    toks_of(toks).join(" ")
}

fn flip(v: &mut Value) {
    match v {
        Value::Object(m) => {
            if m.get("k").and_then(|k| k.as_str()) == Some("bin") && m.get("op").and_then(|k| k.as_str()) == Some("-") {
                let l = m.remove("l").unwrap();
                let r = m.remove("r").unwrap();
                m.insert("l".into(), r);
                m.insert("r".into(), l);
            }
            for (_, x) in m.iter_mut() {
                flip(x);
            }
        }
        Value::Array(a) => a.iter_mut().for_each(flip),
        _ => {}
    }
}

/// Recording conventions for what TLA+ cannot write: absent things (JSON null) are left out, a float literal's value is
/// its Lua text, the blob literal's `name` (a number astdump derives from spans) is dropped.
fn norm(v: &mut Value) {
    match v {
        Value::Object(m) => {
            let kind = m.get("k").and_then(|k| k.as_str()).map(|s| s.to_string());
            let nulls: Vec<String> = m.iter().filter(|(_, x)| x.is_null()).map(|(k, _)| k.clone()).collect();
            for k in nulls {
                m.remove(&k);
            }
            match kind.as_deref() {
                Some("blob") => {
                    m.remove("name");
                }
                Some("float") => {
                    if let Some(f) = m.get("v").and_then(|x| x.as_f64()) {
                        m.insert("v".into(), Value::String(lua_float_text(f)));
                    }
                }
                _ => {}
            }
            for (_, x) in m.iter_mut() {
                norm(x);
            }
        }
        Value::Array(a) => a.iter_mut().for_each(norm),
        _ => {}
    }
}

fn parse_module(src: &str) -> Result<Vec<Value>, String> {
    match astdump::parse_module(src) {
        Ok(mut stmts) => {
            for s in stmts.iter_mut() {
                norm(s);
                if std::env::var("C13_STUB").ok().as_deref() == Some("flip") {
                    flip(s);
                }
            }
            Ok(stmts)
        }
        Err(errs) => Err(format!("parse error: {}", errs.first().map(|e| e.message.clone()).unwrap_or_default())),
    }
}

fn walk<'a>(mut v: &'a Value, path: &[String]) -> Option<&'a Value> {
    for p in path {
        v = match p.parse::<usize>() {
            Ok(i) => v.as_array()?.get(i)?,
            Err(_) => v.as_object()?.get(p)?,
        };
    }
    Some(v)
}

fn source(c: &Value, text: &str) -> (String, Vec<String>) {
    let wl = if c["wl"].is_array() { toks_of(&c["wl"]).join(" ") } else { "q ::".to_string() };
    let wr = toks_of(&c["wr"]).join(" ");
    let path = if c["path"].is_array() { toks_of(&c["path"]) } else { vec!["e".to_string()] };
    (format!("{} {} {}\n", wl, text, wr), path)
}

#[cfg(feature = "lua")]
fn eval(c: &Value, text: &str) -> Value {
    use vharness::luarun::{self, Status};
    let src = if c["epre"].is_array() {
        format!("{} {} {}\n", toks_of(&c["epre"]).join(" "), text, toks_of(&c["epost"]).join(" "))
    } else {
        format!("start :: fn do\n    print({})\nend\n", text)
    };
    match vharness::project::compile_src(&src) {
        vharness::CompileResult::Ok { lua } => {
            let lua = if std::env::var("C13_STUB").ok().as_deref() == Some("comment") {
                let body_at = vharness::project::prelude_len(&lua);
                format!("{}{}", &lua[..body_at], lua[body_at..].replace("(-(-", "(--").replace("(- -", "(--"))
            } else {
                lua
            };
            let obs = luarun::run(&lua);
            match obs.status {
                Status::Done => json!({"status":"done","prints":obs.prints}),
                Status::AssertFailed => json!({"status":"assert_failed","prints":obs.prints}),
                s => json!({"status":s.short(),"detail":format!("{:?}", s).chars().take(300).collect::<String>()}),
            }
        }
        other => json!({"status":"rejected","detail":format!("{:?}", other).chars().take(300).collect::<String>()}),
    }
}

fn expected_eval(val: &Value) -> Value {
    match val["k"].as_str().unwrap() {
        "assert_failed" => json!({"status":"assert_failed","prints":[]}),
        "int" => json!({"status":"done","prints":[format!("{}", val["v"].as_i64().unwrap())]}),
        "bool" => json!({"status":"done","prints":[format!("{}", val["v"].as_bool().unwrap())]}),
        "show" => json!({"status":"done","prints":[val["s"].as_str().unwrap()]}),
        _ => Value::Null,
    }
}

fn probe(file: &str) {
    let src = std::fs::read_to_string(file).unwrap_or_else(|e| tool_error(&format!("{}: {}", file, e)));
    match parse_module(&src) {
        Ok(stmts) => stmts.iter().for_each(|s| println!("{}", s)),
        Err(e) => println!("{}", e),
    }
    #[cfg(feature = "lua")]
    match vharness::project::compile_src(&src) {
        vharness::CompileResult::Ok { lua } => {
            let obs = vharness::luarun::run(&lua);
            println!("status={:?} prints={:?}", obs.status, obs.prints);
            if std::env::var("C13_LUA").is_ok() {
                println!("{}", vharness::project::body_of(&lua));
            }
        }
        other => println!("{}", format!("{:?}", other).chars().take(600).collect::<String>()),
    }
}

fn main() {
    let args: Vec<String> = std::env::args().collect();
    if args.len() >= 3 && args[1] == "probe" {
        vharness::project::quiet_panics();
        probe(&args[2]);
        return;
    }
    if args.len() < 4 || args[1] != "replay" {
        tool_error("usage: c13 replay <cases> <results> | c13 probe <file.sy>");
    }
    let cases: Vec<Value> = read_ndjson(Path::new(&args[2]));
    vharness::project::quiet_panics();
    let results = vharness::pool::par_map(&cases, |i, c| {
        let mut checks = Vec::new();
        let mut dumps: Vec<Option<Vec<Value>>> = Vec::new();
        let run = c["ev"].as_bool().unwrap_or(c["u"] == "typed");
        for form in ["min", "full"] {
            let text = text_of(&c[form]);
            let (src, path) = source(c, &text);
            match parse_module(&src) {
                Ok(stmts) => {
                    let got = stmts.first().and_then(|s| walk(s, &path)).cloned().unwrap_or(Value::Null);
                    let ok = got == c["t"];
                    checks.push(json!({"what":format!("parse-{}", form),"ok":ok,"text":text,
                                       "got": if ok { Value::Null } else { got }}));
                    dumps.push(Some(stmts));
                }
                Err(e) => {
                    checks.push(json!({"what":format!("parse-{}", form),"ok":false,"text":text,"got":e}));
                    dumps.push(None);
                }
            }
            #[cfg(feature = "lua")]
            if run {
                let want = expected_eval(&c["val"]);
                let got = eval(c, &text);
                let ok = got["status"] == want["status"]
                    && (want["status"] != "done" || got["prints"] == want["prints"]);
                checks.push(json!({"what":format!("eval-{}", form),"ok":ok,"text":text,
                                   "got": if ok { Value::Null } else { got }, "want": want}));
            }
        }
        if c["whole"].as_bool().unwrap_or(false) {
            // the text AROUND the expression must be read the same way whichever spelling of the expression stands in it
            let ok = dumps.len() == 2 && dumps[0].is_some() && dumps[0] == dumps[1];
            checks.push(json!({"what":"parse-same","ok":ok,"text":text_of(&c["min"]),
                               "got": if ok { Value::Null } else { json!(dumps.get(0)) }}));
        }
        let _ = (expected_eval, run);
        json!({"i": i, "checks": checks})
    });
    write_ndjson(Path::new(&args[3]), &results);
}
