//! C13 replayer: TLC-generated expression cases -> real parser (and, for the typed universe, real compiler + minilua).
//!   c13 replay <cases.ndjson> <results.ndjson>
//! Each case: {u, t (expected tree), min (tokens), full (tokens), val}. Result: {i, checks:[{what, ok, got}]}.
//! C13_STUB=flip: negative control, swaps the operands of every '-' node in the dumped tree.

use serde_json::{json, Value};
use std::path::Path;
use vharness::astdump;
use vharness::util::*;

fn text_of(toks: &Value) -> String {
    toks.as_array().unwrap().iter().map(|t| t.as_str().unwrap()).collect::<Vec<_>>().join(" ")
}

fn flip(v: &mut Value) {
    match v {
        Value::Object(m) => {
            if m.get("k").and_then(|k| k.as_str()) == Some("bin") && m.get("op").and_then(|k| k.as_str()) == Some("-") {
                let l = m.remove("l").unwrap();
                let r = m.remove("r").unwrap();
                m.insert("l".into(), r);
                m.insert("r".into(), l);
            }
            for (_, x) in m.iter_mut() {
                flip(x);
            }
        }
        Value::Array(a) => a.iter_mut().for_each(flip),
        _ => {}
    }
}

fn parse_expr(text: &str) -> Result<Value, String> {
    let src = format!("q :: {}\n", text);
    match astdump::parse_module(&src) {
        Ok(stmts) => {
            if stmts.len() != 1 {
                return Err(format!("expected one statement, got {}", stmts.len()));
            }
            let mut e = stmts[0]["e"].clone();
            if std::env::var("C13_STUB").ok().as_deref() == Some("flip") {
                flip(&mut e);
            }
            Ok(e)
        }
        Err(errs) => Err(format!("parse error: {}", errs.first().map(|e| e.message.clone()).unwrap_or_default())),
    }
}

#[cfg(feature = "lua")]
fn eval(text: &str) -> Value {
    use vharness::luarun::{self, Status};
    let src = format!("start :: fn do\n    print({})\nend\n", text);
    match vharness::project::compile_src(&src) {
        vharness::CompileResult::Ok { lua } => {
            let obs = luarun::run(&lua);
            match obs.status {
                Status::Done => json!({"status":"done","prints":obs.prints}),
                Status::AssertFailed => json!({"status":"assert_failed","prints":obs.prints}),
                s => json!({"status":s.short(),"detail":format!("{:?}", s)}),
            }
        }
        other => json!({"status":"rejected","detail":format!("{:?}", other).chars().take(300).collect::<String>()}),
    }
}

fn expected_eval(val: &Value) -> Value {
    match val["k"].as_str().unwrap() {
        "assert_failed" => json!({"status":"assert_failed","prints":[]}),
        "int" => json!({"status":"done","prints":[format!("{}", val["v"].as_i64().unwrap())]}),
        "bool" => json!({"status":"done","prints":[format!("{}", val["v"].as_bool().unwrap())]}),
        _ => Value::Null,
    }
}

fn main() {
    let args: Vec<String> = std::env::args().collect();
    if args.len() < 4 || args[1] != "replay" {
        tool_error("usage: c13 replay <cases> <results>");
    }
    let cases: Vec<Value> = read_ndjson(Path::new(&args[2]));
    let results = vharness::pool::par_map(&cases, |i, c| {
        let mut checks = Vec::new();
        for form in ["min", "full"] {
            let text = text_of(&c[form]);
            match parse_expr(&text) {
                Ok(tree) => {
                    let ok = tree == c["t"];
                    checks.push(json!({"what":format!("parse-{}", form),"ok":ok,"text":text,
                                       "got": if ok { Value::Null } else { tree }}));
                }
                Err(e) => checks.push(json!({"what":format!("parse-{}", form),"ok":false,"text":text,"got":e})),
            }
            #[cfg(feature = "lua")]
            if c["u"] == "typed" {
                let want = expected_eval(&c["val"]);
                let got = eval(&text);
                let ok = got["status"] == want["status"]
                    && (want["status"] != "done" || got["prints"] == want["prints"]);
                checks.push(json!({"what":format!("eval-{}", form),"ok":ok,"text":text,
                                   "got": if ok { Value::Null } else { got }, "want": want}));
            }
        }
        let _ = expected_eval;
        json!({"i": i, "checks": checks})
    });
    write_ndjson(Path::new(&args[3]), &results);
}
