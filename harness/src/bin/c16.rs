//! C16 recorder: compile every input several times (6x inside this process, 3x in separate worker
//! processes started with different environments) and write one trace record per (input, run):
//!   {idx, fam, n, k, ord, pos, sub, errpos, perm, expect, run, process, class, digest, nerr, d_first, d_locs, d_set}
//! TLC (Trace_Determinism) re-derives the case fields from idx and decides determinism; this program only
//! drives the compiler and records.
//!   c16 record universe <count|all> <trace.ndjson> <inputs.ndjson>   index-addressed universe (SyltDeterminism!Case)
//!   c16 record corpus <dir> <trace.ndjson> <inputs.ndjson>           every .sy file under <dir> as a main file ("free" records)
//!   c16 record list <file-with-one-spec-per-line> <trace> <inputs>   explicit specs ("u:<idx>" | "c:<dir>|<rel main>")
//!   c16 worker <jobs.ndjson> <out.ndjson>                            one compilation per job (used for the cross-process runs)
//!   c16 show <spec>                                                  print the sources and one result
//! C16_STUB=salt: negative control, the recorder salts the digest of one run of some inputs (TLC must reject).

use rand::seq::SliceRandom;
use rand::SeedableRng;
use serde::{Deserialize, Serialize};
use serde_json::{json, Value};
use std::collections::BTreeMap;
use std::path::Path;
use vharness::project::{compile, CompileResult, Project};
use vharness::util::*;

// ------------------------------------------------------------------------------------------------
// The universe: same mixed-radix layout as SyltDeterminism!Case (TLC re-derives and asserts every field).

const FAMS: &[&str] = &[
    "ok-blob",
    "ok-enum",
    "ok-globals",
    "ok-imports",
    "rej-stmts",
    "rej-blob-decl-types",
    "rej-blob-lit-types",
    "rej-blob-lit-fields",
    "rej-enum-variant-types",
    "rej-files",
    "rej-dup-defs",
    "rej-unresolved-fns",
    "rej-blob-generics",
    "rej-imports",
];
const R_N: usize = 7; // n = 2..8
const R_K: usize = 3; // k = 2..4
const R_ORD: usize = 4;
const R_POS: usize = 3;
const R_SUB: usize = 2;

fn universe_size() -> usize {
    FAMS.len() * R_N * R_K * R_ORD * R_POS * R_SUB
}

#[derive(Clone, Debug, Serialize, Deserialize)]
struct Case {
    idx: usize,
    fam: String,
    n: usize,
    k: usize,
    ord: usize,
    pos: usize,
    sub: usize,
    /// 0-based logical positions that carry a planted error (empty for the ok families), ascending
    errpos: Vec<usize>,
    /// declaration order: perm[j] = logical number of the j-th declared field/variant/function/file
    perm: Vec<usize>,
    /// "ok" | "err": what the universe intends (not a verdict, only used for vacuity accounting)
    expect: String,
}

fn perm(n: usize, ord: usize) -> Vec<usize> {
    let half = (n + 1) / 2;
    (0..n)
        .map(|j| match ord {
            0 => j,
            1 => n - 1 - j,
            2 => (j + n / 2) % n,
            _ => {
                if j < half {
                    2 * j
                } else {
                    2 * (j - half) + 1
                }
            }
        })
        .collect()
}

fn case_at(idx: usize) -> Case {
    let mut m = idx - 1;
    let f = m % FAMS.len();
    m /= FAMS.len();
    let n = 2 + m % R_N;
    m /= R_N;
    let k0 = 2 + m % R_K;
    m /= R_K;
    let ord = m % R_ORD;
    m /= R_ORD;
    let pos = m % R_POS;
    m /= R_POS;
    let sub = m % R_SUB;
    let fam = FAMS[f];
    let rej = fam.starts_with("rej-");
    let k = k0.min(n);
    let mut errpos: Vec<usize> = if rej { (0..k).map(|j| (pos + j * (n / k)) % n).collect() } else { vec![] };
    errpos.sort();
    Case {
        idx,
        fam: fam.to_string(),
        n,
        k,
        ord,
        pos,
        sub,
        errpos,
        perm: perm(n, ord),
        expect: if rej { "err" } else { "ok" }.to_string(),
    }
}

// names chosen to differ in length and first letter (they end up as HashMap keys inside the compiler)
const NAMES: &[&str] = &["alpha", "b", "count", "dx", "e1", "flag", "gamma", "h"];
const VNAMES: &[&str] = &["Apple", "B", "Cherry", "Dx", "E1", "Fig", "Grape", "H"];
const TYPES: &[&str] = &["int", "float", "str", "bool"];
const VALUES: &[&str] = &["1", "2.5", "\"s\"", "true"];
const WRONG: &[&str] = &["\"w\"", "false", "3", "4.5"]; // a value of a different type than TYPES[j % 4]

fn ty(j: usize) -> &'static str {
    TYPES[j % 4]
}
fn val(j: usize) -> &'static str {
    VALUES[j % 4]
}
fn wrong(j: usize) -> &'static str {
    WRONG[j % 4]
}

struct Src {
    s: String,
}
impl Src {
    fn new() -> Self {
        Src { s: String::new() }
    }
    fn l(&mut self, line: &str) -> &mut Self {
        self.s.push_str(line);
        self.s.push('\n');
        self
    }
}

fn single(main: String) -> Project {
    Project::single(&main)
}

fn multi(files: Vec<(String, String)>) -> Project {
    let mut m = BTreeMap::new();
    for (p, s) in files {
        m.insert(p, s);
    }
    Project { files: m, main: "main.sy".into() }
}

/// blob declaration with the fields in declaration order `order`; `tyof(j)` gives the type text of logical field j
fn blob_decl(name: &str, generics: &str, order: &[usize], tyof: &dyn Fn(usize) -> String) -> String {
    let mut s = format!("{} :: blob{} {{\n", name, generics);
    for &j in order {
        s.push_str(&format!("    {}: {},\n", NAMES[j], tyof(j)));
    }
    s.push_str("}\n");
    s
}

/// blob literal listing logical fields `order` with values `valof(j)`
fn blob_lit(name: &str, order: &[usize], valof: &dyn Fn(usize) -> String) -> String {
    let mut s = format!("{} {{ ", name);
    for &j in order {
        s.push_str(&format!("{}: {}, ", NAMES[j], valof(j)));
    }
    s.push('}');
    s
}

// ------------------------------------------------------------------------------------------------
// Rendering: accepted families

fn render_ok_blob(c: &Case) -> Project {
    let order = &c.perm;
    let lit_order = perm(c.n, (c.ord + c.k) % 4);
    let mut s = Src::new();
    s.l(&blob_decl("Rec", "", order, &|j| ty(j).to_string()));
    if c.sub == 0 {
        s.l("mk :: fn -> Rec do");
        s.l(&format!("    ret {}", blob_lit("Rec", &lit_order, &|j| val(j).to_string())));
        s.l("end");
        s.l("start :: fn do");
        s.l("    r := mk()");
        for &j in lit_order.iter().rev() {
            s.l(&format!("    print(r.{})", NAMES[j]));
        }
        s.l("end");
    } else {
        s.l("show :: fn r: Rec do");
        for &j in order.iter() {
            s.l(&format!("    print(r.{})", NAMES[j]));
        }
        s.l("end");
        s.l("start :: fn do");
        s.l(&format!("    r := {}", blob_lit("Rec", &lit_order, &|j| val(j).to_string())));
        for &j in order.iter().take(c.k) {
            s.l(&format!("    r.{} = {}", NAMES[j], val(j + 4)));
        }
        s.l("    show(r)");
        s.l("end");
    }
    single(s.s.clone())
}

fn render_ok_enum(c: &Case) -> Project {
    // variant j carries a payload of type ty(j) when j is even, nothing when odd
    let mut s = Src::new();
    s.l("Choice :: enum");
    for &j in c.perm.iter() {
        if j % 2 == 0 {
            s.l(&format!("    {} {}", VNAMES[j], ty(j / 2)));
        } else {
            s.l(&format!("    {}", VNAMES[j]));
        }
    }
    s.l("end");
    let arm_order = perm(c.n, (c.ord + c.k) % 4);
    let total = c.sub == 0;
    s.l("describe :: fn c: Choice -> int do");
    s.l("    ret case c do");
    for (q, &j) in arm_order.iter().enumerate() {
        if !total && q + 1 == arm_order.len() {
            break;
        }
        if j % 2 == 0 {
            s.l(&format!("        {} x -> {} end", VNAMES[j], j + 10));
        } else {
            s.l(&format!("        {} -> {} end", VNAMES[j], j + 10));
        }
    }
    if total {
        s.l("    end");
    } else {
        s.l("        else 99 end");
        s.l("    end");
    }
    s.l("end");
    s.l("start :: fn do");
    for &j in c.perm.iter().take(c.k + 1) {
        if j % 2 == 0 {
            s.l(&format!("    print(describe(Choice.{} {}))", VNAMES[j], val(j / 2)));
        } else {
            s.l(&format!("    print(describe(Choice.{}))", VNAMES[j]));
        }
    }
    s.l("end");
    single(s.s.clone())
}

fn render_ok_globals(c: &Case) -> Project {
    // 4n globals: constants c<j>, functions f<j> that read constants and call the previous function
    let g = 4 * c.n;
    let order = perm(g, c.ord);
    let mut decls: Vec<String> = Vec::new();
    for j in 0..g {
        if j % c.k == 0 {
            decls.push(format!("c{} :: {}\n", j, j + 1));
        } else if j % c.k == 1 || c.sub == 0 {
            let prev_const = (j / c.k) * c.k;
            decls.push(format!("f{} :: fn x: int -> int do\n    ret x + c{}\nend\n", j, prev_const));
        } else {
            decls.push(format!("f{} :: fn x: int -> int do\n    ret f{}(x) + 1\nend\n", j, j - 1));
        }
    }
    let mut s = Src::new();
    for &j in order.iter() {
        s.l(&decls[j]);
    }
    s.l("start :: fn do");
    for j in 0..g {
        if j % c.k != 0 && (j + c.pos) % 3 == 0 {
            s.l(&format!("    print(f{}({}))", j, j));
        }
    }
    s.l("    print(c0)");
    s.l("end");
    single(s.s.clone())
}

fn render_ok_imports(c: &Case) -> Project {
    // m = 2..4 modules; each exports k constants and one function; main imports them in perm order
    let m = 2 + c.n % 3;
    let order = perm(m, c.ord);
    let mut files = Vec::new();
    for q in 0..m {
        let mut s = Src::new();
        for j in 0..c.k {
            s.l(&format!("{}{} :: {}", NAMES[j], q, val(j)));
        }
        if q + 1 < m && c.pos == 1 {
            // chained import: module q uses module q+1
            s.l(&format!("use mod{}", q + 1));
            s.l(&format!("get{} :: fn -> int do\n    ret mod{}.get{}() + 1\nend", q, q + 1, q + 1));
        } else {
            s.l(&format!("get{} :: fn -> int do\n    ret {}\nend", q, q));
        }
        files.push((format!("mod{}.sy", q), s.s.clone()));
    }
    let mut s = Src::new();
    for &q in order.iter() {
        if c.sub == 0 {
            s.l(&format!("use mod{}", q));
        } else {
            let names: Vec<String> = (0..c.k).map(|j| format!("{}{}", NAMES[j], q)).collect();
            s.l(&format!("from mod{} use {}, get{}", q, names.join(", "), q));
        }
    }
    s.l("start :: fn do");
    for q in 0..m {
        if c.sub == 0 {
            s.l(&format!("    print(mod{}.get{}())", q, q));
            s.l(&format!("    print(mod{}.{}{})", q, NAMES[c.pos % c.k], q));
        } else {
            s.l(&format!("    print(get{}())", q));
            s.l(&format!("    print({}{})", NAMES[c.pos % c.k], q));
        }
    }
    s.l("end");
    files.push(("main.sy".to_string(), s.s.clone()));
    multi(files)
}

// ------------------------------------------------------------------------------------------------
// Rendering: rejected families (k independent planted errors at the logical positions c.errpos)

fn is_err(c: &Case, j: usize) -> bool {
    c.errpos.contains(&j)
}

fn render_rej_stmts(c: &Case) -> Project {
    // n top-level functions; the ones in errpos carry an error of their own
    // sub 0: a type mismatch each; sub 1: a syntax error each
    let mut s = Src::new();
    for &j in c.perm.iter() {
        s.l(&format!("fun{} :: fn x: int -> int do", j));
        if is_err(c, j) {
            if c.sub == 0 {
                s.l(&format!("    y{}: int = \"text{}\"", j, j));
            } else {
                s.l(&format!("    y{} := := {}", j, j));
            }
        } else {
            s.l(&format!("    y{} := {}", j, j));
        }
        s.l(&format!("    ret x + y{}", j));
        s.l("end");
    }
    s.l("start :: fn do");
    s.l("    print(fun0(1))");
    s.l("end");
    single(s.s.clone())
}

fn render_rej_blob_decl_types(c: &Case) -> Project {
    // one blob declaration; the fields in errpos name types that do not exist
    let mut s = Src::new();
    s.l(&blob_decl("Rec", "", &c.perm, &|j| if is_err(c, j) { format!("Nope{}", j) } else { ty(j).to_string() }));
    s.l("start :: fn do");
    if c.sub == 1 {
        s.l(&format!("    r := {}", blob_lit("Rec", &c.perm, &|j| val(j).to_string())));
        s.l(&format!("    print(r.{})", NAMES[c.perm[0]]));
    } else {
        s.l("    print(1)");
    }
    s.l("end");
    single(s.s.clone())
}

fn render_rej_blob_lit_types(c: &Case) -> Project {
    // a correct declaration; one literal whose fields in errpos get a value of the wrong type
    let lit_order = perm(c.n, (c.ord + 1) % 4);
    let lit = blob_lit("Rec", &lit_order, &|j| if is_err(c, j) { wrong(j).to_string() } else { val(j).to_string() });
    let mut s = Src::new();
    s.l(&blob_decl("Rec", "", &c.perm, &|j| ty(j).to_string()));
    if c.sub == 0 {
        s.l("start :: fn do");
        s.l(&format!("    r := {}", lit));
        s.l(&format!("    print(r.{})", NAMES[0]));
        s.l("end");
    } else {
        s.l("mk :: fn -> Rec do");
        s.l(&format!("    ret {}", lit));
        s.l("end");
        s.l("start :: fn do");
        s.l(&format!("    print(mk().{})", NAMES[0]));
        s.l("end");
    }
    single(s.s.clone())
}

fn render_rej_blob_lit_fields(c: &Case) -> Project {
    // a correct declaration; one literal that omits the fields in errpos (sub 0) or omits every second of
    // them and instead names fields that do not exist (sub 1)
    let lit_order = perm(c.n, (c.ord + 1) % 4);
    let mut s = Src::new();
    s.l(&blob_decl("Rec", "", &c.perm, &|j| ty(j).to_string()));
    let mut lit = String::from("Rec { ");
    for &j in lit_order.iter() {
        if is_err(c, j) {
            let q = c.errpos.iter().position(|&e| e == j).unwrap();
            if c.sub == 1 && q % 2 == 1 {
                lit.push_str(&format!("{}: {}, extra{}: {}, ", NAMES[j], val(j), j, j));
            }
        } else {
            lit.push_str(&format!("{}: {}, ", NAMES[j], val(j)));
        }
    }
    lit.push('}');
    s.l("start :: fn do");
    s.l(&format!("    r := {}", lit));
    s.l("    print(1)");
    s.l("end");
    single(s.s.clone())
}

fn render_rej_enum_variant_types(c: &Case) -> Project {
    let mut s = Src::new();
    s.l("Choice :: enum");
    for &j in c.perm.iter() {
        if is_err(c, j) {
            s.l(&format!("    {} Nope{}", VNAMES[j], j));
        } else if j % 2 == 0 {
            s.l(&format!("    {} {}", VNAMES[j], ty(j / 2)));
        } else {
            s.l(&format!("    {}", VNAMES[j]));
        }
    }
    s.l("end");
    s.l("start :: fn do");
    if c.sub == 1 {
        let j = (0..c.n).find(|j| !is_err(c, *j) && j % 2 == 1);
        match j {
            Some(j) => s.l(&format!("    x := Choice.{}", VNAMES[j])),
            None => s.l("    x := 1"),
        };
        s.l("    x");
    } else {
        s.l("    print(1)");
    }
    s.l("end");
    single(s.s.clone())
}

fn render_rej_files(c: &Case) -> Project {
    // n modules, each imported by main in perm order; the modules in errpos contain one error each
    // sub 0: syntax error; sub 1: type mismatch
    let mut files = Vec::new();
    for q in 0..c.n {
        let mut s = Src::new();
        s.l(&format!("get{} :: fn -> int do", q));
        if is_err(c, q) {
            if c.sub == 0 {
                s.l(&format!("    z{} := := {}", q, q));
            } else {
                s.l(&format!("    z{}: int = \"file{}\"", q, q));
            }
        }
        s.l(&format!("    ret {}", q));
        s.l("end");
        files.push((format!("mod{}.sy", q), s.s.clone()));
    }
    let mut s = Src::new();
    for &q in c.perm.iter() {
        s.l(&format!("use mod{}", q));
    }
    s.l("start :: fn do");
    for q in 0..c.n {
        s.l(&format!("    print(mod{}.get{}())", q, q));
    }
    s.l("end");
    files.push(("main.sy".to_string(), s.s.clone()));
    multi(files)
}

fn render_rej_dup_defs(c: &Case) -> Project {
    // n global definitions in perm order; the names in errpos are defined a second time further down
    // sub 0: the second definition is a constant again; sub 1: it is a blob/function of the same name
    let mut s = Src::new();
    for &j in c.perm.iter() {
        s.l(&format!("Item{} :: {}", j, j));
    }
    s.l("start :: fn do");
    s.l("    print(Item0)");
    s.l("end");
    let second = perm(c.n, (c.ord + 1) % 4);
    for &j in second.iter() {
        if is_err(c, j) {
            if c.sub == 0 {
                s.l(&format!("Item{} :: {}", j, j + 100));
            } else if j % 2 == 0 {
                s.l(&format!("Item{} :: blob {{ x: int }}", j));
            } else {
                s.l(&format!("Item{} :: fn -> int do\n    ret {}\nend", j, j));
            }
        }
    }
    single(s.s.clone())
}

fn render_rej_unresolved_fns(c: &Case) -> Project {
    // n functions; the ones in errpos read a name that does not exist
    // sub 0: the missing name is one edit away from existing globals (exercises the suggestion search)
    // sub 1: the missing name resembles nothing
    let mut s = Src::new();
    for j in 0..c.n {
        s.l(&format!("value{} :: {}", j, j));
    }
    s.l("valve := 0");
    s.l("valse := 1");
    for &j in c.perm.iter() {
        s.l(&format!("fun{} :: fn -> int do", j));
        if is_err(c, j) {
            if c.sub == 0 {
                s.l("    ret valxe + 1");
            } else {
                s.l(&format!("    ret qqqqqqqqqqqqqqqqqqqqqq{} + 1", j));
            }
        } else {
            s.l(&format!("    ret value{}", j));
        }
        s.l("end");
    }
    s.l("start :: fn do");
    s.l("    print(fun0())");
    s.l("end");
    single(s.s.clone())
}

fn render_rej_blob_generics(c: &Case) -> Project {
    // one blob declaration; the fields in errpos use a generic that was never declared
    // sub 0: no declared generics at all; sub 1: one declared generic used by the first good field
    let generics = if c.sub == 1 { "(*t)" } else { "" };
    let first_good = (0..c.n).find(|j| !is_err(c, *j));
    let mut s = Src::new();
    s.l(&blob_decl("Rec", generics, &c.perm, &|j| {
        if is_err(c, j) {
            format!("*u{}", j)
        } else if c.sub == 1 && Some(j) == first_good {
            "*t".to_string()
        } else {
            ty(j).to_string()
        }
    }));
    s.l("start :: fn do");
    s.l("    print(1)");
    s.l("end");
    single(s.s.clone())
}

fn render_rej_imports(c: &Case) -> Project {
    // main imports n things in perm order; the ones in errpos do not exist
    // sub 0: `use missing<j>` (no such file); sub 1: `from mod<j> use nope<j>` (no such name in an existing module)
    let mut files = Vec::new();
    let mut s = Src::new();
    for &q in c.perm.iter() {
        let bad = is_err(c, q);
        if c.sub == 0 {
            if bad {
                s.l(&format!("use missing{}", q));
            } else {
                s.l(&format!("use mod{}", q));
            }
        } else if bad {
            s.l(&format!("from mod{} use nope{}", q, q));
        } else {
            s.l(&format!("from mod{} use get{}", q, q));
        }
        if c.sub == 1 || !bad {
            files.push((format!("mod{}.sy", q), format!("get{} :: fn -> int do\n    ret {}\nend\n", q, q)));
        }
    }
    s.l("start :: fn do");
    s.l("    print(1)");
    s.l("end");
    files.push(("main.sy".to_string(), s.s.clone()));
    multi(files)
}

fn render(c: &Case) -> Project {
    match c.fam.as_str() {
        "ok-blob" => render_ok_blob(c),
        "ok-enum" => render_ok_enum(c),
        "ok-globals" => render_ok_globals(c),
        "ok-imports" => render_ok_imports(c),
        "rej-stmts" => render_rej_stmts(c),
        "rej-blob-decl-types" => render_rej_blob_decl_types(c),
        "rej-blob-lit-types" => render_rej_blob_lit_types(c),
        "rej-blob-lit-fields" => render_rej_blob_lit_fields(c),
        "rej-enum-variant-types" => render_rej_enum_variant_types(c),
        "rej-files" => render_rej_files(c),
        "rej-dup-defs" => render_rej_dup_defs(c),
        "rej-unresolved-fns" => render_rej_unresolved_fns(c),
        "rej-blob-generics" => render_rej_blob_generics(c),
        "rej-imports" => render_rej_imports(c),
        _ => tool_error("unknown family"),
    }
}
