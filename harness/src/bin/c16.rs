//! C16 recorder: compile every input several times (6x inside this process, 3x in separate worker
//! processes started with different environments) and write one trace record per (input, run):
//!   {idx, fam, n, k, ord, pos, sub, errpos, perm, expect, run, process, class, digest, nerr, d_first, d_locs, d_set}
//! TLC (Trace_Determinism) re-derives the case fields from idx and decides determinism; this program only
//! drives the compiler and records.
//!   c16 record universe <count|all> <trace.ndjson> <inputs.ndjson>   index-addressed universe (SyltDeterminism!Case)
//!   c16 record corpus <dir> <trace.ndjson> <inputs.ndjson>           every .sy file under <dir> as a main file ("free" records)
//!   c16 record list <file-with-one-spec-per-line> <trace> <inputs>   explicit specs ("u:<idx>" | "c:<dir>|<rel main>")
//!   c16 worker <jobs.ndjson> <out.ndjson>                            one compilation per job (used for the cross-process runs)
//!   c16 show <spec>                                                  print the sources and one result
//! C16_STUB=salt: negative control, the recorder salts the digest of one run of some inputs (TLC must reject).

use rand::seq::SliceRandom;
use rand::SeedableRng;
use serde::{Deserialize, Serialize};
use serde_json::{json, Value};
use std::collections::BTreeMap;
use std::path::Path;
use vharness::project::{compile, CompileResult, Project};
use vharness::util::*;

// ------------------------------------------------------------------------------------------------
// The universe: same mixed-radix layout as SyltDeterminism!Case (TLC re-derives and asserts every field).

const FAMS: &[&str] = &[
    "ok-blob",
    "ok-enum",
    "ok-globals",
    "ok-imports",
    "rej-stmts",
    "rej-blob-decl-types",
    "rej-blob-lit-types",
    "rej-blob-lit-fields",
    "rej-enum-variant-types",
    "rej-files",
    "rej-dup-defs",
    "rej-unresolved-fns",
    "rej-blob-generics",
    "rej-imports",
    "rej-enum-generics",
];
/// the valid (n, k) pairs: n = 2..8 fields/variants/functions/files, k = 2..min(4, n) planted errors
const NK: &[(usize, usize)] = &[
    (2, 2), (3, 2), (3, 3), (4, 2), (4, 3), (4, 4), (5, 2), (5, 3), (5, 4), (6, 2), (6, 3), (6, 4), (7, 2), (7, 3),
    (7, 4), (8, 2), (8, 3), (8, 4),
];
const R_ORD: usize = 4;
const R_POS: usize = 3;
const R_SUB: usize = 2;

fn universe_size() -> usize {
    FAMS.len() * NK.len() * R_ORD * R_POS * R_SUB
}

#[derive(Clone, Debug, Serialize, Deserialize)]
struct Case {
    idx: usize,
    fam: String,
    n: usize,
    k: usize,
    ord: usize,
    pos: usize,
    sub: usize,
    /// 0-based logical positions that carry a planted error (empty for the ok families), ascending
    errpos: Vec<usize>,
    /// declaration order: perm[j] = logical number of the j-th declared field/variant/function/file
    perm: Vec<usize>,
    /// "ok" | "err": what the universe intends (not a verdict, only used for vacuity accounting)
    expect: String,
}

fn perm(n: usize, ord: usize) -> Vec<usize> {
    let half = (n + 1) / 2;
    (0..n)
        .map(|j| match ord {
            0 => j,
            1 => n - 1 - j,
            2 => (j + n / 2) % n,
            _ => {
                if j < half {
                    2 * j
                } else {
                    2 * (j - half) + 1
                }
            }
        })
        .collect()
}

fn case_at(idx: usize) -> Case {
    let mut m = idx - 1;
    let f = m % FAMS.len();
    m /= FAMS.len();
    let (n, k) = NK[m % NK.len()];
    m /= NK.len();
    let ord = m % R_ORD;
    m /= R_ORD;
    let pos = m % R_POS;
    m /= R_POS;
    let sub = m % R_SUB;
    let fam = FAMS[f];
    let rej = fam.starts_with("rej-");
    let mut errpos: Vec<usize> = if rej { (0..k).map(|j| (pos + j * (n / k)) % n).collect() } else { vec![] };
    errpos.sort();
    Case {
        idx,
        fam: fam.to_string(),
        n,
        k,
        ord,
        pos,
        sub,
        errpos,
        perm: perm(n, ord),
        expect: if rej { "err" } else { "ok" }.to_string(),
    }
}

// names chosen to differ in length and first letter (they end up as HashMap keys inside the compiler)
const NAMES: &[&str] = &["alpha", "b", "count", "dx", "e1", "flag", "gamma", "h"];
const VNAMES: &[&str] = &["Apple", "B", "Cherry", "Dx", "E1", "Fig", "Grape", "H"];
const TYPES: &[&str] = &["int", "float", "str", "bool"];
const VALUES: &[&str] = &["1", "2.5", "\"s\"", "true"];
const WRONG: &[&str] = &["\"w\"", "false", "3", "4.5"]; // a value of a different type than TYPES[j % 4]

fn ty(j: usize) -> &'static str {
    TYPES[j % 4]
}
fn val(j: usize) -> &'static str {
    VALUES[j % 4]
}
fn wrong(j: usize) -> &'static str {
    WRONG[j % 4]
}

struct Src {
    s: String,
}
impl Src {
    fn new() -> Self {
        Src { s: String::new() }
    }
    fn l(&mut self, line: &str) -> &mut Self {
        self.s.push_str(line);
        self.s.push('\n');
        self
    }
}

fn single(main: String) -> Project {
    Project::single(&main)
}

fn multi(files: Vec<(String, String)>) -> Project {
    let mut m = BTreeMap::new();
    for (p, s) in files {
        m.insert(p, s);
    }
    Project { files: m, main: "main.sy".into() }
}

/// blob declaration with the fields in declaration order `order`; `tyof(j)` gives the type text of logical field j
fn blob_decl(name: &str, generics: &str, order: &[usize], tyof: &dyn Fn(usize) -> String) -> String {
    let mut s = format!("{} :: blob{} {{\n", name, generics);
    for &j in order {
        s.push_str(&format!("    {}: {},\n", NAMES[j], tyof(j)));
    }
    s.push_str("}\n");
    s
}

/// blob literal listing logical fields `order` with values `valof(j)`
fn blob_lit(name: &str, order: &[usize], valof: &dyn Fn(usize) -> String) -> String {
    let mut s = format!("{} {{ ", name);
    for &j in order {
        s.push_str(&format!("{}: {}, ", NAMES[j], valof(j)));
    }
    s.push('}');
    s
}

// ------------------------------------------------------------------------------------------------
// Rendering: accepted families

fn render_ok_blob(c: &Case) -> Project {
    // pos 0: plain fields; pos 1: the blob is generic and logical field 0 has the generic type;
    // pos 2: logical field 0 is another blob
    let order = &c.perm;
    let lit_order = perm(c.n, (c.ord + c.k) % 4);
    let pos = c.pos;
    let tyof = move |j: usize| match (pos, j) {
        (1, 0) => "*t".to_string(),
        (2, 0) => "Inner".to_string(),
        _ => ty(j).to_string(),
    };
    let valof = move |j: usize| match (pos, j) {
        (2, 0) => "Inner { v: 7 }".to_string(),
        _ => val(j).to_string(),
    };
    let read = move |j: usize| match (pos, j) {
        (2, 0) => format!("r.{}.v", NAMES[0]),
        _ => format!("r.{}", NAMES[j]),
    };
    let generics = if pos == 1 { "(*t)" } else { "" };
    let mut s = Src::new();
    if pos == 2 {
        s.l("Inner :: blob {\n    v: int,\n}");
    }
    s.l(&blob_decl("Rec", generics, order, &tyof));
    if c.sub == 0 {
        s.l("mk :: fn -> Rec do");
        s.l(&format!("    ret {}", blob_lit("Rec", &lit_order, &valof)));
        s.l("end");
        s.l("start :: fn do");
        s.l("    r := mk()");
        for &j in lit_order.iter().rev() {
            s.l(&format!("    print({})", read(j)));
        }
        s.l("end");
    } else {
        s.l("show :: fn r: Rec do");
        for &j in order.iter() {
            s.l(&format!("    print({})", read(j)));
        }
        s.l("end");
        s.l("start :: fn do");
        s.l(&format!("    r := {}", blob_lit("Rec", &lit_order, &valof)));
        for &j in order.iter().take(c.k) {
            if j != 0 {
                s.l(&format!("    r.{} = {}", NAMES[j], val(j + 4)));
            }
        }
        s.l("    show(r)");
        s.l("end");
    }
    single(s.s.clone())
}

fn render_ok_enum(c: &Case) -> Project {
    // variant j carries a payload of type ty(j) when j is even, nothing when odd
    // pos 0: plain payloads; pos 1: the enum is generic and variant 0 carries the generic; pos 2: variant 0 carries a tuple
    let mut s = Src::new();
    s.l(if c.pos == 1 { "Choice :: enum(*t)" } else { "Choice :: enum" });
    for &j in c.perm.iter() {
        if j == 0 && c.pos == 1 {
            s.l(&format!("    {} *t", VNAMES[j]));
        } else if j == 0 && c.pos == 2 {
            s.l(&format!("    {} (int, str)", VNAMES[j]));
        } else if j % 2 == 0 {
            s.l(&format!("    {} {}", VNAMES[j], ty(j / 2)));
        } else {
            s.l(&format!("    {}", VNAMES[j]));
        }
    }
    s.l("end");
    let arm_order = perm(c.n, (c.ord + c.k) % 4);
    let total = c.sub == 0;
    s.l("describe :: fn c: Choice -> int do");
    s.l("    ret case c do");
    for (q, &j) in arm_order.iter().enumerate() {
        if !total && q + 1 == arm_order.len() {
            break;
        }
        if j % 2 == 0 {
            s.l(&format!("        {} x -> {} end", VNAMES[j], j + 10));
        } else {
            s.l(&format!("        {} -> {} end", VNAMES[j], j + 10));
        }
    }
    if total {
        s.l("    end");
    } else {
        s.l("        else 99 end");
        s.l("    end");
    }
    s.l("end");
    s.l("start :: fn do");
    for &j in c.perm.iter().take(c.k + 1) {
        if j == 0 && c.pos == 2 {
            s.l(&format!("    print(describe(Choice.{} (3, \"t\")))", VNAMES[j]));
        } else if j % 2 == 0 {
            s.l(&format!("    print(describe(Choice.{} {}))", VNAMES[j], val(j / 2)));
        } else {
            s.l(&format!("    print(describe(Choice.{}))", VNAMES[j]));
        }
    }
    s.l("end");
    single(s.s.clone())
}

fn render_ok_globals(c: &Case) -> Project {
    // 4n globals: constants c<j>, functions f<j> that read constants and call the previous function
    let g = 4 * c.n;
    let order = perm(g, c.ord);
    let mut decls: Vec<String> = Vec::new();
    for j in 0..g {
        if j % c.k == 0 {
            decls.push(format!("c{} :: {}\n", j, j + 1));
        } else if j % c.k == 1 || c.sub == 0 {
            let prev_const = (j / c.k) * c.k;
            decls.push(format!("f{} :: fn x: int -> int do\n    ret x + c{}\nend\n", j, prev_const));
        } else {
            decls.push(format!("f{} :: fn x: int -> int do\n    ret f{}(x) + 1\nend\n", j, j - 1));
        }
    }
    let mut s = Src::new();
    for &j in order.iter() {
        s.l(&decls[j]);
    }
    s.l("start :: fn do");
    for j in 0..g {
        if j % c.k != 0 && (j + c.pos) % 3 == 0 {
            s.l(&format!("    print(f{}({}))", j, j));
        }
    }
    s.l("    print(c0)");
    s.l("end");
    single(s.s.clone())
}

fn render_ok_imports(c: &Case) -> Project {
    // m = 2..4 modules; each exports k constants and one function; main imports them in perm order
    let m = 2 + c.n % 3;
    let order = perm(m, c.ord);
    let mut files = Vec::new();
    for q in 0..m {
        let mut s = Src::new();
        for j in 0..c.k {
            s.l(&format!("{}{} :: {}", NAMES[j], q, val(j)));
        }
        if q + 1 < m && c.pos == 1 {
            // chained import: module q uses module q+1
            s.l(&format!("use mod{}", q + 1));
            s.l(&format!("get{} :: fn -> int do\n    ret mod{}.get{}() + 1\nend", q, q + 1, q + 1));
        } else {
            s.l(&format!("get{} :: fn -> int do\n    ret {}\nend", q, q));
        }
        files.push((format!("mod{}.sy", q), s.s.clone()));
    }
    let mut s = Src::new();
    for &q in order.iter() {
        if c.sub == 0 {
            s.l(&format!("use mod{}", q));
        } else {
            let names: Vec<String> = (0..c.k).map(|j| format!("{}{}", NAMES[j], q)).collect();
            s.l(&format!("from mod{} use {}, get{}", q, names.join(", "), q));
        }
    }
    s.l("start :: fn do");
    for q in 0..m {
        if c.sub == 0 {
            s.l(&format!("    print(mod{}.get{}())", q, q));
            s.l(&format!("    print(mod{}.{}{})", q, NAMES[c.pos % c.k], q));
        } else {
            s.l(&format!("    print(get{}())", q));
            s.l(&format!("    print({}{})", NAMES[c.pos % c.k], q));
        }
    }
    s.l("end");
    files.push(("main.sy".to_string(), s.s.clone()));
    multi(files)
}

// ------------------------------------------------------------------------------------------------
// Rendering: rejected families (k independent planted errors at the logical positions c.errpos)

fn is_err(c: &Case, j: usize) -> bool {
    c.errpos.contains(&j)
}

fn render_rej_stmts(c: &Case) -> Project {
    // n top-level functions; the ones in errpos carry an error of their own
    // sub 0: a type mismatch each; sub 1: a syntax error each
    let mut s = Src::new();
    for &j in c.perm.iter() {
        s.l(&format!("fun{} :: fn x: int -> int do", j));
        if is_err(c, j) {
            if c.sub == 0 {
                s.l(&format!("    y{}: int = \"text{}\"", j, j));
            } else {
                s.l(&format!("    y{} := := {}", j, j));
            }
        } else {
            s.l(&format!("    y{} := {}", j, j));
        }
        s.l(&format!("    ret x + y{}", j));
        s.l("end");
    }
    s.l("start :: fn do");
    s.l("    print(fun0(1))");
    s.l("end");
    single(s.s.clone())
}

fn render_rej_blob_decl_types(c: &Case) -> Project {
    // one blob declaration; the fields in errpos name types that do not exist
    let mut s = Src::new();
    s.l(&blob_decl("Rec", "", &c.perm, &|j| if is_err(c, j) { format!("Nope{}", j) } else { ty(j).to_string() }));
    s.l("start :: fn do");
    if c.sub == 1 {
        s.l(&format!("    r := {}", blob_lit("Rec", &c.perm, &|j| val(j).to_string())));
        s.l(&format!("    print(r.{})", NAMES[c.perm[0]]));
    } else {
        s.l("    print(1)");
    }
    s.l("end");
    single(s.s.clone())
}

fn render_rej_blob_lit_types(c: &Case) -> Project {
    // a correct declaration; one literal whose fields in errpos get a value of the wrong type
    let lit_order = perm(c.n, (c.ord + 1) % 4);
    let lit = blob_lit("Rec", &lit_order, &|j| if is_err(c, j) { wrong(j).to_string() } else { val(j).to_string() });
    let mut s = Src::new();
    s.l(&blob_decl("Rec", "", &c.perm, &|j| ty(j).to_string()));
    if c.sub == 0 {
        s.l("start :: fn do");
        s.l(&format!("    r := {}", lit));
        s.l(&format!("    print(r.{})", NAMES[0]));
        s.l("end");
    } else {
        s.l("mk :: fn -> Rec do");
        s.l(&format!("    ret {}", lit));
        s.l("end");
        s.l("start :: fn do");
        s.l(&format!("    print(mk().{})", NAMES[0]));
        s.l("end");
    }
    single(s.s.clone())
}

fn render_rej_blob_lit_fields(c: &Case) -> Project {
    // a correct declaration; one literal that omits the fields in errpos (sub 0) or omits every second of
    // them and instead names fields that do not exist (sub 1)
    let lit_order = perm(c.n, (c.ord + 1) % 4);
    let mut s = Src::new();
    s.l(&blob_decl("Rec", "", &c.perm, &|j| ty(j).to_string()));
    let mut lit = String::from("Rec { ");
    for &j in lit_order.iter() {
        if is_err(c, j) {
            let q = c.errpos.iter().position(|&e| e == j).unwrap();
            if c.sub == 1 && q % 2 == 1 {
                lit.push_str(&format!("{}: {}, extra{}: {}, ", NAMES[j], val(j), j, j));
            }
        } else {
            lit.push_str(&format!("{}: {}, ", NAMES[j], val(j)));
        }
    }
    lit.push('}');
    s.l("start :: fn do");
    s.l(&format!("    r := {}", lit));
    s.l("    print(1)");
    s.l("end");
    single(s.s.clone())
}

fn render_rej_enum_variant_types(c: &Case) -> Project {
    let mut s = Src::new();
    s.l("Choice :: enum");
    for &j in c.perm.iter() {
        if is_err(c, j) {
            s.l(&format!("    {} Nope{}", VNAMES[j], j));
        } else if j % 2 == 0 {
            s.l(&format!("    {} {}", VNAMES[j], ty(j / 2)));
        } else {
            s.l(&format!("    {}", VNAMES[j]));
        }
    }
    s.l("end");
    s.l("start :: fn do");
    if c.sub == 1 {
        let j = (0..c.n).find(|j| !is_err(c, *j) && j % 2 == 1);
        match j {
            Some(j) => s.l(&format!("    x := Choice.{}", VNAMES[j])),
            None => s.l("    x := 1"),
        };
        s.l("    x");
    } else {
        s.l("    print(1)");
    }
    s.l("end");
    single(s.s.clone())
}

fn render_rej_files(c: &Case) -> Project {
    // n modules, each imported by main in perm order; the modules in errpos contain one error each
    // sub 0: syntax error; sub 1: type mismatch
    let mut files = Vec::new();
    for q in 0..c.n {
        let mut s = Src::new();
        s.l(&format!("get{} :: fn -> int do", q));
        if is_err(c, q) {
            if c.sub == 0 {
                s.l(&format!("    z{} := := {}", q, q));
            } else {
                s.l(&format!("    z{}: int = \"file{}\"", q, q));
            }
        }
        s.l(&format!("    ret {}", q));
        s.l("end");
        files.push((format!("mod{}.sy", q), s.s.clone()));
    }
    let mut s = Src::new();
    for &q in c.perm.iter() {
        s.l(&format!("use mod{}", q));
    }
    s.l("start :: fn do");
    for q in 0..c.n {
        s.l(&format!("    print(mod{}.get{}())", q, q));
    }
    s.l("end");
    files.push(("main.sy".to_string(), s.s.clone()));
    multi(files)
}

fn render_rej_dup_defs(c: &Case) -> Project {
    // n global definitions in perm order; the names in errpos are defined a second time further down
    // sub 0: the second definition is a constant again; sub 1: it is a blob/function of the same name
    let mut s = Src::new();
    for &j in c.perm.iter() {
        s.l(&format!("Item{} :: {}", j, j));
    }
    s.l("start :: fn do");
    s.l("    print(Item0)");
    s.l("end");
    let second = perm(c.n, (c.ord + 1) % 4);
    for &j in second.iter() {
        if is_err(c, j) {
            if c.sub == 0 {
                s.l(&format!("Item{} :: {}", j, j + 100));
            } else if j % 2 == 0 {
                s.l(&format!("Item{} :: blob {{ x: int }}", j));
            } else {
                s.l(&format!("Item{} :: fn -> int do\n    ret {}\nend", j, j));
            }
        }
    }
    single(s.s.clone())
}

fn render_rej_unresolved_fns(c: &Case) -> Project {
    // n functions; the ones in errpos read a name that does not exist
    // sub 0: the missing name is one edit away from existing globals (exercises the suggestion search)
    // sub 1: the missing name resembles nothing
    let mut s = Src::new();
    for j in 0..c.n {
        s.l(&format!("value{} :: {}", j, j));
    }
    s.l("valve := 0");
    s.l("valse := 1");
    for &j in c.perm.iter() {
        s.l(&format!("fun{} :: fn -> int do", j));
        if is_err(c, j) {
            if c.sub == 0 {
                s.l("    ret valxe + 1");
            } else {
                s.l(&format!("    ret qqqqqqqqqqqqqqqqqqqqqq{} + 1", j));
            }
        } else {
            s.l(&format!("    ret value{}", j));
        }
        s.l("end");
    }
    s.l("start :: fn do");
    s.l("    print(fun0())");
    s.l("end");
    single(s.s.clone())
}

fn render_rej_blob_generics(c: &Case) -> Project {
    // one blob declaration; the fields in errpos use a generic that was never declared
    // sub 0: no declared generics at all; sub 1: one declared generic used by the first good field
    let generics = if c.sub == 1 { "(*t)" } else { "" };
    let first_good = (0..c.n).find(|j| !is_err(c, *j));
    let mut s = Src::new();
    s.l(&blob_decl("Rec", generics, &c.perm, &|j| {
        if is_err(c, j) {
            format!("*u{}", j)
        } else if c.sub == 1 && Some(j) == first_good {
            "*t".to_string()
        } else {
            ty(j).to_string()
        }
    }));
    s.l("start :: fn do");
    s.l("    print(1)");
    s.l("end");
    single(s.s.clone())
}

fn render_rej_enum_generics(c: &Case) -> Project {
    // one enum declaration; the variants in errpos carry a generic that was never declared
    let generics = if c.sub == 1 { "(*t)" } else { "" };
    let first_good = (0..c.n).find(|j| !is_err(c, *j));
    let mut s = Src::new();
    s.l(&format!("Choice :: enum{}", generics));
    for &j in c.perm.iter() {
        if is_err(c, j) {
            s.l(&format!("    {} *u{}", VNAMES[j], j));
        } else if c.sub == 1 && Some(j) == first_good {
            s.l(&format!("    {} *t", VNAMES[j]));
        } else if j % 2 == 0 {
            s.l(&format!("    {} {}", VNAMES[j], ty(j / 2)));
        } else {
            s.l(&format!("    {}", VNAMES[j]));
        }
    }
    s.l("end");
    s.l("start :: fn do");
    s.l("    print(1)");
    s.l("end");
    single(s.s.clone())
}

fn render_rej_imports(c: &Case) -> Project {
    // main imports n things in perm order; the ones in errpos do not exist
    // sub 0: `use missing<j>` (no such file); sub 1: `from mod<j> use nope<j>` (no such name in an existing module)
    let mut files = Vec::new();
    let mut s = Src::new();
    for &q in c.perm.iter() {
        let bad = is_err(c, q);
        if c.sub == 0 {
            if bad {
                s.l(&format!("use missing{}", q));
            } else {
                s.l(&format!("use mod{}", q));
            }
        } else if bad {
            s.l(&format!("from mod{} use nope{}", q, q));
        } else {
            s.l(&format!("from mod{} use get{}", q, q));
        }
        if c.sub == 1 || !bad {
            files.push((format!("mod{}.sy", q), format!("get{} :: fn -> int do\n    ret {}\nend\n", q, q)));
        }
    }
    s.l("start :: fn do");
    s.l("    print(1)");
    s.l("end");
    files.push(("main.sy".to_string(), s.s.clone()));
    multi(files)
}

fn render(c: &Case) -> Project {
    match c.fam.as_str() {
        "ok-blob" => render_ok_blob(c),
        "ok-enum" => render_ok_enum(c),
        "ok-globals" => render_ok_globals(c),
        "ok-imports" => render_ok_imports(c),
        "rej-stmts" => render_rej_stmts(c),
        "rej-blob-decl-types" => render_rej_blob_decl_types(c),
        "rej-blob-lit-types" => render_rej_blob_lit_types(c),
        "rej-blob-lit-fields" => render_rej_blob_lit_fields(c),
        "rej-enum-variant-types" => render_rej_enum_variant_types(c),
        "rej-files" => render_rej_files(c),
        "rej-dup-defs" => render_rej_dup_defs(c),
        "rej-unresolved-fns" => render_rej_unresolved_fns(c),
        "rej-blob-generics" => render_rej_blob_generics(c),
        "rej-imports" => render_rej_imports(c),
        "rej-enum-generics" => render_rej_enum_generics(c),
        _ => tool_error("unknown family"),
    }
}

// ------------------------------------------------------------------------------------------------
// Inputs: "u:<idx>" (universe) or "c:<dir>|<main relative to dir>" (corpus file, project = every .sy under dir)

#[derive(Clone)]
struct Input {
    spec: String,
    case: Option<Case>,
    project: Project,
}

fn walk(dir: &Path, base: &Path, out: &mut BTreeMap<String, String>) {
    let mut ents: Vec<_> = match std::fs::read_dir(dir) {
        Ok(r) => r.filter_map(|e| e.ok()).collect(),
        Err(_) => return,
    };
    ents.sort_by_key(|e| e.path());
    for e in ents {
        let p = e.path();
        if p.is_dir() {
            walk(&p, base, out);
        } else if p.extension().map(|x| x == "sy").unwrap_or(false) {
            if let Ok(s) = std::fs::read_to_string(&p) {
                out.insert(p.strip_prefix(base).unwrap().to_string_lossy().to_string(), s);
            }
        }
    }
}

thread_local! {
    static CORPUS: std::cell::RefCell<BTreeMap<String, BTreeMap<String, String>>> = std::cell::RefCell::new(BTreeMap::new());
}

fn corpus_files(dir: &str) -> BTreeMap<String, String> {
    CORPUS.with(|c| {
        c.borrow_mut()
            .entry(dir.to_string())
            .or_insert_with(|| {
                let mut m = BTreeMap::new();
                walk(Path::new(dir), Path::new(dir), &mut m);
                m
            })
            .clone()
    })
}

fn input_of(spec: &str) -> Input {
    if let Some(i) = spec.strip_prefix("u:") {
        let idx: usize = i.parse().unwrap_or_else(|_| tool_error("bad universe index"));
        if idx < 1 || idx > universe_size() {
            tool_error("universe index out of range");
        }
        let c = case_at(idx);
        let p = render(&c);
        Input { spec: spec.to_string(), case: Some(c), project: p }
    } else if let Some(rest) = spec.strip_prefix("c:") {
        let (dir, main) = rest.split_once('|').unwrap_or_else(|| tool_error("bad corpus spec"));
        // only the files in the main file's directory tree and below the corpus root can be imported;
        // the whole tree is served so that `use` works exactly as on disk
        let files = corpus_files(dir);
        Input { spec: spec.to_string(), case: None, project: Project { files, main: main.to_string() } }
    } else {
        tool_error(&format!("bad input spec {:?}", spec))
    }
}

// ------------------------------------------------------------------------------------------------
// Observation of one compilation

#[derive(Clone, Debug, Serialize, Deserialize)]
struct Obs {
    class: String,
    /// fnv over the Lua bytes, or over the whole rendered error list (kind,file,line,cols,message,rendered in order)
    digest: String,
    nerr: usize,
    /// first error's kind and location
    d_first: String,
    /// the list of (kind, file, line, cols) in order
    d_locs: String,
    /// the sorted multiset of complete errors (equal for two runs that differ only in order)
    d_set: String,
}

fn observe(r: &CompileResult) -> Obs {
    match r {
        CompileResult::Ok { lua } => {
            let d = hex(fnv(lua));
            Obs { class: "ok".into(), digest: d.clone(), nerr: 0, d_first: d.clone(), d_locs: d.clone(), d_set: d }
        }
        CompileResult::Panic { message, bytes_written } => {
            let d = hex(fnv(&format!("panic|{}|{}", message, bytes_written)));
            Obs { class: "panic".into(), digest: d.clone(), nerr: 0, d_first: d.clone(), d_locs: d.clone(), d_set: d }
        }
        CompileResult::Err { errors, bytes_written } => {
            let loc = |e: &vharness::ErrInfo| {
                format!("{}|{}|{}|{}|{}|{}", e.kind, e.file, e.line, e.line_end, e.col_start, e.col_end)
            };
            let full = |e: &vharness::ErrInfo| format!("{}|{}|{}\u{1}", loc(e), e.message, e.rendered);
            let all: Vec<String> = errors.iter().map(full).collect();
            let mut sorted = all.clone();
            sorted.sort();
            Obs {
                class: "err".into(),
                digest: hex(fnv(&format!("{}#{}", all.join("\u{2}"), bytes_written))),
                nerr: errors.len(),
                d_first: hex(fnv(&errors.first().map(loc).unwrap_or_default())),
                d_locs: hex(fnv(&errors.iter().map(loc).collect::<Vec<_>>().join("\u{2}"))),
                d_set: hex(fnv(&format!("{}#{}", sorted.join("\u{2}"), bytes_written))),
            }
        }
    }
}

/// What is kept of a full result for the replay object (Lua is kept whole: the property is about bytes).
fn full_result(r: &CompileResult) -> Value {
    match r {
        CompileResult::Ok { lua } => json!({"class": "ok", "lua": lua}),
        CompileResult::Panic { message, bytes_written } => {
            json!({"class": "panic", "message": message, "bytes_written": bytes_written})
        }
        CompileResult::Err { errors, bytes_written } => json!({"class": "err", "bytes_written": bytes_written,
            "errors": errors.iter().map(|e| json!({"kind": e.kind, "file": e.file, "line": e.line, "line_end": e.line_end,
                "col_start": e.col_start, "col_end": e.col_end, "message": e.message, "rendered": e.rendered})).collect::<Vec<_>>()}),
    }
}

#[derive(Serialize, Deserialize)]
struct Job {
    spec: String,
    /// digest of this input's first in-process run; the worker ships its full result only when it differs
    reference: String,
}

#[derive(Serialize, Deserialize)]
struct JobOut {
    obs: Obs,
    /// how many compilations this worker thread had done before this one
    before: usize,
    full: Option<Value>,
}

thread_local! {
    static DONE: std::cell::Cell<usize> = std::cell::Cell::new(0);
}

fn compile_counted(p: &Project) -> (CompileResult, usize) {
    let before = DONE.with(|d| {
        let v = d.get();
        d.set(v + 1);
        v
    });
    (compile(p), before)
}

fn worker(jobs_path: &str, out_path: &str) {
    let jobs: Vec<Job> = read_ndjson(Path::new(jobs_path));
    // every worker walks the inputs in its own order, so the number of earlier compilations differs per process
    let mut order: Vec<usize> = (0..jobs.len()).collect();
    let salt = std::env::var("C16_ORDER").ok().and_then(|s| s.parse::<u64>().ok()).unwrap_or(0);
    let mut rng = rand::rngs::StdRng::seed_from_u64(seed() ^ salt.wrapping_mul(0x9e3779b97f4a7c15));
    order.shuffle(&mut rng);
    let res = vharness::pool::par_map(&order, |_, &q| {
        let inp = input_of(&jobs[q].spec);
        let (r, before) = compile_counted(&inp.project);
        let obs = observe(&r);
        let full = if obs.digest != jobs[q].reference { Some(full_result(&r)) } else { None };
        (q, JobOut { obs, before, full })
    });
    let mut outs: Vec<Option<JobOut>> = (0..jobs.len()).map(|_| None).collect();
    for (q, o) in res {
        outs[q] = Some(o);
    }
    let outs: Vec<JobOut> = outs.into_iter().map(|o| o.unwrap()).collect();
    write_ndjson(Path::new(out_path), &outs);
}

// ------------------------------------------------------------------------------------------------
// The recorder

const IN_RUNS: usize = 6;
const X_RUNS: usize = 3;

fn spawn_worker(x: usize, jobs: &Path, out: &Path, scratch: &Path) -> std::process::Child {
    let exe = std::env::current_exe().unwrap_or_else(|e| tool_error(&format!("current_exe: {}", e)));
    let mut cmd = std::process::Command::new(exe);
    cmd.arg("worker").arg(jobs).arg(out);
    let home = scratch.join(format!("home-x{}", x));
    let _ = std::fs::create_dir_all(&home);
    let nthreads = vharness::pool::threads();
    // three deliberately different process environments (nothing here may influence a compiler's output)
    match x {
        1 => {
            cmd.env("HOME", &home).env("LANG", "C").env("LC_ALL", "C").env("RUST_BACKTRACE", "0");
            cmd.env("TZ", "UTC").env("VERIF_THREADS", format!("{}", (nthreads / 3).max(1)));
            cmd.current_dir("/");
        }
        2 => {
            cmd.env("HOME", "/nonexistent-c16").env("LANG", "sv_SE.UTF-8").env("LC_ALL", "sv_SE.UTF-8");
            cmd.env("RUST_BACKTRACE", "1").env("TZ", "Asia/Kolkata").env("TERM", "dumb").env("NO_COLOR", "1");
            cmd.env("VERIF_THREADS", format!("{}", (nthreads / 3).max(1) + 1));
            cmd.current_dir(&home);
        }
        _ => {
            cmd.env_clear();
            cmd.env("PATH", "/usr/bin:/bin").env("RUST_BACKTRACE", "full").env("LANG", "ja_JP.eucJP");
            cmd.env("SYLT_HOME", "/tmp/sylt").env("USER", "nobody").env("COLUMNS", "20");
            cmd.env("VERIF_THREADS", format!("{}", (nthreads / 3).max(1) + 2));
            cmd.current_dir(std::env::temp_dir());
        }
    }
    cmd.env("VERIF_SEED", format!("{}", seed())).env("C16_ORDER", format!("{}", x));
    cmd.stdout(std::process::Stdio::null());
    cmd.spawn().unwrap_or_else(|e| tool_error(&format!("cannot start worker x{}: {}", x, e)))
}

fn record(specs: Vec<String>, trace_path: &str, inputs_path: &str) {
    let stub = std::env::var("C16_STUB").ok();
    let n = specs.len();
    let trace_p = Path::new(trace_path);
    let parent = match trace_p.parent() {
        Some(d) if !d.as_os_str().is_empty() => d.to_path_buf(),
        _ => std::path::PathBuf::from("."),
    };
    let _ = std::fs::create_dir_all(&parent);
    let parent = std::fs::canonicalize(&parent).unwrap_or_else(|e| tool_error(&format!("{}: {}", parent.display(), e)));
    let scratch = parent.join(format!(
        "c16-scratch-{}",
        trace_p.file_stem().map(|s| s.to_string_lossy().to_string()).unwrap_or_default()
    ));
    let _ = std::fs::create_dir_all(&scratch);

    // in-process: IN_RUNS passes, each in its own seeded order, all passes interleaved over the pool's threads
    let mut rng = rand::rngs::StdRng::seed_from_u64(seed() ^ 0xC16);
    let mut schedule: Vec<(usize, usize)> = Vec::new(); // (input ordinal, run 1..6)
    for run in 1..=IN_RUNS {
        let mut order: Vec<usize> = (0..n).collect();
        order.shuffle(&mut rng);
        schedule.extend(order.into_iter().map(|q| (q, run)));
    }
    // mix neighbouring passes so that repetitions of one input are not a fixed distance apart
    for w in schedule.chunks_mut(97) {
        w.shuffle(&mut rng);
    }
    let results = vharness::pool::par_map(&schedule, |_, &(q, run)| {
        let inp = input_of(&specs[q]);
        let (r, before) = compile_counted(&inp.project);
        (q, run, observe(&r), before, r)
    });
    // per input: observations by run, full result of run 1 and of the first in-process run that differs from it
    let mut obs: Vec<Vec<Option<(Obs, usize)>>> = (0..n).map(|_| (0..IN_RUNS + X_RUNS).map(|_| None).collect()).collect();
    let mut fulls: Vec<BTreeMap<usize, Value>> = (0..n).map(|_| BTreeMap::new()).collect();
    let mut first: Vec<Option<CompileResult>> = (0..n).map(|_| None).collect();
    let mut pending: Vec<Vec<(usize, Obs, CompileResult)>> = (0..n).map(|_| Vec::new()).collect();
    for (q, run, o, before, r) in results {
        obs[q][run - 1] = Some((o.clone(), before));
        if run == 1 {
            first[q] = Some(r);
        } else {
            pending[q].push((run, o, r));
        }
    }
    for q in 0..n {
        let ref_digest = obs[q][0].as_ref().unwrap().0.digest.clone();
        pending[q].sort_by_key(|x| x.0);
        if let Some((run, _, r)) = pending[q].iter().find(|(_, o, _)| o.digest != ref_digest) {
            fulls[q].insert(1, full_result(first[q].as_ref().unwrap()));
            fulls[q].insert(*run, full_result(r));
        }
    }
    drop(pending);

    // cross-process: one worker per run over the whole batch
    let jobs: Vec<Job> =
        (0..n).map(|q| Job { spec: specs[q].clone(), reference: obs[q][0].as_ref().unwrap().0.digest.clone() }).collect();
    let jobs_path = scratch.join("jobs.ndjson");
    write_ndjson(&jobs_path, &jobs);
    let mut children = Vec::new();
    for x in 1..=X_RUNS {
        let out = scratch.join(format!("x{}.ndjson", x));
        children.push((x, out.clone(), spawn_worker(x, &jobs_path, &out, &scratch)));
    }
    for (x, out, mut ch) in children {
        let st = ch.wait().unwrap_or_else(|e| tool_error(&format!("worker x{}: {}", x, e)));
        if !st.success() {
            tool_error(&format!("worker x{} exited with {:?}", x, st.code()));
        }
        let outs: Vec<JobOut> = read_ndjson(&out);
        if outs.len() != n {
            tool_error(&format!("worker x{} returned {} of {} results", x, outs.len(), n));
        }
        for (q, o) in outs.into_iter().enumerate() {
            if let Some(f) = o.full {
                if fulls[q].is_empty() {
                    fulls[q].insert(1, full_result(first[q].as_ref().unwrap()));
                    fulls[q].insert(IN_RUNS + x, f);
                }
            }
            obs[q][IN_RUNS + x - 1] = Some((o.obs, o.before));
        }
    }

    // trace: one record per (input, run), the runs of one input adjacent and in run order
    let mut trace: Vec<Value> = Vec::with_capacity(n * (IN_RUNS + X_RUNS));
    let mut inputs: Vec<Value> = Vec::with_capacity(n);
    for q in 0..n {
        let inp = input_of(&specs[q]);
        let case_v = match &inp.case {
            Some(c) => serde_json::to_value(c).unwrap(),
            None => json!({"idx": 0, "fam": "corpus", "n": 0, "k": 0, "ord": 0, "pos": 0, "sub": 0,
                           "errpos": [], "perm": [], "expect": "any"}),
        };
        for run in 1..=IN_RUNS + X_RUNS {
            let (o, before) = obs[q][run - 1].clone().unwrap();
            let mut rec = case_v.clone();
            let mut digest = o.digest.clone();
            let salted = stub.as_deref() == Some("salt") && q % 5 == 2;
            if salted && run == 6 {
                digest = hex(fnv(&format!("salt{}", digest))); // negative control: a recorder that lies about one run
            }
            rec["salted"] = json!(salted);
            rec["input"] = json!(q + 1);
            rec["run"] = json!(run);
            rec["process"] = json!(if run <= IN_RUNS { "in".to_string() } else { format!("x{}", run - IN_RUNS) });
            rec["class"] = json!(o.class);
            rec["digest"] = json!(digest);
            rec["nerr"] = json!(o.nerr);
            rec["d_first"] = json!(o.d_first);
            rec["d_locs"] = json!(o.d_locs);
            rec["d_set"] = json!(o.d_set);
            rec["before"] = json!(before);
            trace.push(rec);
        }
        // universe cases: all files of the project; corpus: the main file (the tree around it is the same for all)
        let src_digest = if inp.case.is_some() {
            hex(fnv(&serde_json::to_string(&inp.project).unwrap()))
        } else {
            hex(fnv(&format!("{}\u{1}{}", inp.project.main, inp.project.files.get(&inp.project.main).cloned().unwrap_or_default())))
        };
        let mut iv = json!({"input": q + 1, "spec": specs[q], "case": case_v, "main": inp.project.main,
                            "src_digest": src_digest, "full": fulls[q]});
        if inp.case.is_some() {
            iv["files"] = json!(inp.project.files);
        } else {
            iv["files"] = json!({ inp.project.main.clone(): inp.project.files.get(&inp.project.main) });
        }
        inputs.push(iv);
    }
    write_ndjson(trace_p, &trace);
    write_ndjson(Path::new(inputs_path), &inputs);
    let _ = std::fs::remove_dir_all(&scratch);
    println!("{}", n);
}

fn show(spec: &str) {
    let inp = input_of(spec);
    println!("// input {}", inp.spec);
    if let Some(c) = &inp.case {
        println!("// case {}", serde_json::to_string(c).unwrap());
    }
    let only_main = inp.case.is_none();
    for (p, s) in inp.project.files.iter() {
        if !only_main || *p == inp.project.main {
            println!("// ---- {}\n{}", p, s);
        }
    }
    let r = compile(&inp.project);
    let o = observe(&r);
    println!("// class={} digest={} nerr={}", o.class, o.digest, o.nerr);
    if let CompileResult::Err { errors, .. } = &r {
        for e in errors {
            println!("//   {} {}:{}:{}-{} {}", e.kind, e.file, e.line, e.col_start, e.col_end, e.message.replace('\n', " / "));
        }
    }
    if let CompileResult::Panic { message, .. } = &r {
        println!("//   panic {}", message);
    }
}

fn main() {
    let args: Vec<String> = std::env::args().collect();
    let usage = "usage: c16 record universe <count|all> <trace> <inputs> | record corpus <dir> <trace> <inputs> | \
                 record list <file> <trace> <inputs> | worker <jobs> <out> | show <spec> | size";
    if args.len() < 2 {
        tool_error(usage);
    }
    match args[1].as_str() {
        "size" => println!("{}", universe_size()),
        "show" if args.len() == 3 => show(&args[2]),
        "worker" if args.len() == 4 => worker(&args[2], &args[3]),
        "record" if args.len() == 6 => {
            let specs: Vec<String> = match args[2].as_str() {
                "universe" => {
                    let total = universe_size();
                    let mut idx: Vec<usize> = (1..=total).collect();
                    if args[3] != "all" {
                        // stratified: the same number of cases from every family (fam = (idx-1) % |FAMS|)
                        let count: usize = args[3].parse().unwrap_or_else(|_| tool_error(usage));
                        let per = (count + FAMS.len() - 1) / FAMS.len();
                        let mut rng = rand::rngs::StdRng::seed_from_u64(seed() ^ 0x16C);
                        idx.clear();
                        for f in 0..FAMS.len() {
                            let mut rest: Vec<usize> = (0..total / FAMS.len()).collect();
                            rest.shuffle(&mut rng);
                            idx.extend(rest.into_iter().take(per).map(|r| r * FAMS.len() + f + 1));
                        }
                        idx.sort();
                    }
                    idx.into_iter().map(|i| format!("u:{}", i)).collect()
                }
                "corpus" => {
                    let dir = args[3].trim_end_matches('/').to_string();
                    corpus_files(&dir).keys().map(|rel| format!("c:{}|{}", dir, rel)).collect()
                }
                "list" => std::fs::read_to_string(&args[3])
                    .unwrap_or_else(|e| tool_error(&format!("{}: {}", args[3], e)))
                    .lines()
                    .filter(|l| !l.trim().is_empty())
                    .map(|l| l.trim().to_string())
                    .collect(),
                _ => tool_error(usage),
            };
            if specs.is_empty() {
                tool_error("no inputs");
            }
            record(specs, &args[4], &args[5]);
        }
        _ => tool_error(usage),
    }
}
