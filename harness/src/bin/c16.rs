//! C16 recorder: compile every input several times (6x inside this process, 3x in separate worker
//! processes started with different environments) and write one trace record per (input, run):
//!   {idx, fam, n, k, ord, pos, sub, errpos, perm, expect, run, process, class, digest, nerr, d_first, d_locs, d_set}
//! TLC (Trace_Determinism) re-derives the case fields from idx and decides determinism; this program only
//! drives the compiler and records.
//!   c16 record universe <count|all> <trace.ndjson> <inputs.ndjson>   index-addressed universe (SyltDeterminism!Case)
//!   c16 record corpus <dir> <trace.ndjson> <inputs.ndjson>           every .sy file under <dir> as a main file ("free" records)
//!   c16 record list <file-with-one-spec-per-line> <trace> <inputs>   explicit specs ("u:<idx>" | "c:<dir>|<rel main>")
//!   c16 worker <jobs.ndjson> <out.ndjson>                            one compilation per job (used for the cross-process runs)
//!   c16 show <spec>                                                  print the sources and one result
//!   c16 ctx hist <outdir> <all|required> <targets: all|ids>          histories: one process per HistScenario(t, s) (SyltDetContext)
//!   c16 ctx long <outdir> <len std> <len no-std> <all|ids>           long histories: one thread compiles LongInput(s, 1..len)
//!   c16 ctx path <outdir> <all|ids>                                  disk projects x Spellings, one process (cwd, argument) each
//!   c16 ctx seed <outdir> <nseeds> <count|all|ids:..>                SeedCase(i) compiled nseeds times without std
//!   c16 ctx line <outdir> <nseeds> <count|all|ids:..>                LineCase(i) (SyltDetLayout) compiled nseeds times without std
//!   c16 ctx pair <outdir> <count|all|ids:..>                         PairScenario(t, s) for all shapes, one process each (+ xprogs.ndjson)
//!        each writes <kind>.ndjson (trace), <kind>-groups.ndjson, <kind>-full.ndjson, progs.ndjson into <outdir>
//!   c16 seqworker <job.json> <out.ndjson> | diskworker <arg> <project dir> <ref digest>     children of `ctx`
//!   c16 showctx prog|seed|disk <id> | sizes                           print a case of the context universes / all sizes
//! C16_STUB=salt: negative control, the recorder salts the digest of one run of some inputs (TLC must reject).

use rand::seq::SliceRandom;
use rand::SeedableRng;
use serde::{Deserialize, Serialize};
use serde_json::{json, Value};
use std::collections::BTreeMap;
use std::path::Path;
use vharness::project::{compile, CompileResult, Project};
use vharness::util::*;

// ------------------------------------------------------------------------------------------------
// The universe: same mixed-radix layout as SyltDeterminism!Case (TLC re-derives and asserts every field).

const FAMS: &[&str] = &[
    "ok-blob",
    "ok-enum",
    "ok-globals",
    "ok-imports",
    "rej-stmts",
    "rej-blob-decl-types",
    "rej-blob-lit-types",
    "rej-blob-lit-fields",
    "rej-enum-variant-types",
    "rej-files",
    "rej-dup-defs",
    "rej-unresolved-fns",
    "rej-blob-generics",
    "rej-imports",
    "rej-enum-generics",
];
/// the valid (n, k) pairs: n = 2..8 fields/variants/functions/files, k = 2..min(4, n) planted errors
const NK: &[(usize, usize)] = &[
    (2, 2), (3, 2), (3, 3), (4, 2), (4, 3), (4, 4), (5, 2), (5, 3), (5, 4), (6, 2), (6, 3), (6, 4), (7, 2), (7, 3),
    (7, 4), (8, 2), (8, 3), (8, 4),
];
const R_ORD: usize = 4;
const R_POS: usize = 3;
const R_SUB: usize = 2;

fn universe_size() -> usize {
    FAMS.len() * NK.len() * R_ORD * R_POS * R_SUB
}

#[derive(Clone, Debug, Serialize, Deserialize)]
struct Case {
    idx: usize,
    fam: String,
    n: usize,
    k: usize,
    ord: usize,
    pos: usize,
    sub: usize,
    /// 0-based logical positions that carry a planted error (empty for the ok families), ascending
    errpos: Vec<usize>,
    /// declaration order: perm[j] = logical number of the j-th declared field/variant/function/file
    perm: Vec<usize>,
    /// "ok" | "err": what the universe intends (not a verdict, only used for vacuity accounting)
    expect: String,
}

fn perm(n: usize, ord: usize) -> Vec<usize> {
    let half = (n + 1) / 2;
    (0..n)
        .map(|j| match ord {
            0 => j,
            1 => n - 1 - j,
            2 => (j + n / 2) % n,
            _ => {
                if j < half {
                    2 * j
                } else {
                    2 * (j - half) + 1
                }
            }
        })
        .collect()
}

fn case_at(idx: usize) -> Case {
    let mut m = idx - 1;
    let f = m % FAMS.len();
    m /= FAMS.len();
    let (n, k) = NK[m % NK.len()];
    m /= NK.len();
    let ord = m % R_ORD;
    m /= R_ORD;
    let pos = m % R_POS;
    m /= R_POS;
    let sub = m % R_SUB;
    let fam = FAMS[f];
    let rej = fam.starts_with("rej-");
    let mut errpos: Vec<usize> = if rej { (0..k).map(|j| (pos + j * (n / k)) % n).collect() } else { vec![] };
    errpos.sort();
    Case {
        idx,
        fam: fam.to_string(),
        n,
        k,
        ord,
        pos,
        sub,
        errpos,
        perm: perm(n, ord),
        expect: if rej { "err" } else { "ok" }.to_string(),
    }
}

// names chosen to differ in length and first letter (they end up as HashMap keys inside the compiler)
const NAMES: &[&str] = &["alpha", "b", "count", "dx", "e1", "flag", "gamma", "h"];
const VNAMES: &[&str] = &["Apple", "B", "Cherry", "Dx", "E1", "Fig", "Grape", "H"];
const TYPES: &[&str] = &["int", "float", "str", "bool"];
const VALUES: &[&str] = &["1", "2.5", "\"s\"", "true"];
const WRONG: &[&str] = &["\"w\"", "false", "3", "4.5"]; // a value of a different type than TYPES[j % 4]

fn ty(j: usize) -> &'static str {
    TYPES[j % 4]
}
fn val(j: usize) -> &'static str {
    VALUES[j % 4]
}
fn wrong(j: usize) -> &'static str {
    WRONG[j % 4]
}

struct Src {
    s: String,
}
impl Src {
    fn new() -> Self {
        Src { s: String::new() }
    }
    fn l(&mut self, line: &str) -> &mut Self {
        self.s.push_str(line);
        self.s.push('\n');
        self
    }
}

fn single(main: String) -> Project {
    Project::single(&main)
}

fn multi(files: Vec<(String, String)>) -> Project {
    let mut m = BTreeMap::new();
    for (p, s) in files {
        m.insert(p, s);
    }
    Project { files: m, main: "main.sy".into() }
}

/// blob declaration with the fields in declaration order `order`; `tyof(j)` gives the type text of logical field j
fn blob_decl(name: &str, generics: &str, order: &[usize], tyof: &dyn Fn(usize) -> String) -> String {
    let mut s = format!("{} :: blob{} {{\n", name, generics);
    for &j in order {
        s.push_str(&format!("    {}: {},\n", NAMES[j], tyof(j)));
    }
    s.push_str("}\n");
    s
}

/// blob literal listing logical fields `order` with values `valof(j)`
fn blob_lit(name: &str, order: &[usize], valof: &dyn Fn(usize) -> String) -> String {
    let mut s = format!("{} {{ ", name);
    for &j in order {
        s.push_str(&format!("{}: {}, ", NAMES[j], valof(j)));
    }
    s.push('}');
    s
}

// ------------------------------------------------------------------------------------------------
// Rendering: accepted families

fn render_ok_blob(c: &Case) -> Project {
    // pos 0: plain fields; pos 1: the blob is generic and logical field 0 has the generic type;
    // pos 2: logical field 0 is another blob
    let order = &c.perm;
    let lit_order = perm(c.n, (c.ord + c.k) % 4);
    let pos = c.pos;
    let tyof = move |j: usize| match (pos, j) {
        (1, 0) => "*t".to_string(),
        (2, 0) => "Inner".to_string(),
        _ => ty(j).to_string(),
    };
    let valof = move |j: usize| match (pos, j) {
        (2, 0) => "Inner { v: 7 }".to_string(),
        _ => val(j).to_string(),
    };
    let read = move |j: usize| match (pos, j) {
        (2, 0) => format!("r.{}.v", NAMES[0]),
        _ => format!("r.{}", NAMES[j]),
    };
    let generics = if pos == 1 { "(*t)" } else { "" };
    let mut s = Src::new();
    if pos == 2 {
        s.l("Inner :: blob {\n    v: int,\n}");
    }
    s.l(&blob_decl("Rec", generics, order, &tyof));
    if c.sub == 0 {
        s.l("mk :: fn -> Rec do");
        s.l(&format!("    ret {}", blob_lit("Rec", &lit_order, &valof)));
        s.l("end");
        s.l("start :: fn do");
        s.l("    r := mk()");
        for &j in lit_order.iter().rev() {
            s.l(&format!("    print({})", read(j)));
        }
        s.l("end");
    } else {
        s.l("show :: fn r: Rec do");
        for &j in order.iter() {
            s.l(&format!("    print({})", read(j)));
        }
        s.l("end");
        s.l("start :: fn do");
        s.l(&format!("    r := {}", blob_lit("Rec", &lit_order, &valof)));
        for &j in order.iter().take(c.k) {
            if j != 0 {
                s.l(&format!("    r.{} = {}", NAMES[j], val(j + 4)));
            }
        }
        s.l("    show(r)");
        s.l("end");
    }
    single(s.s.clone())
}

fn render_ok_enum(c: &Case) -> Project {
    // variant j carries a payload of type ty(j) when j is even, nothing when odd
    // pos 0: plain payloads; pos 1: the enum is generic and variant 0 carries the generic; pos 2: variant 0 carries a tuple
    let mut s = Src::new();
    s.l(if c.pos == 1 { "Choice :: enum(*t)" } else { "Choice :: enum" });
    for &j in c.perm.iter() {
        if j == 0 && c.pos == 1 {
            s.l(&format!("    {} *t", VNAMES[j]));
        } else if j == 0 && c.pos == 2 {
            s.l(&format!("    {} (int, str)", VNAMES[j]));
        } else if j % 2 == 0 {
            s.l(&format!("    {} {}", VNAMES[j], ty(j / 2)));
        } else {
            s.l(&format!("    {}", VNAMES[j]));
        }
    }
    s.l("end");
    let arm_order = perm(c.n, (c.ord + c.k) % 4);
    let total = c.sub == 0;
    s.l("describe :: fn c: Choice -> int do");
    s.l("    ret case c do");
    for (q, &j) in arm_order.iter().enumerate() {
        if !total && q + 1 == arm_order.len() {
            break;
        }
        if j % 2 == 0 {
            s.l(&format!("        {} x -> {} end", VNAMES[j], j + 10));
        } else {
            s.l(&format!("        {} -> {} end", VNAMES[j], j + 10));
        }
    }
    if total {
        s.l("    end");
    } else {
        s.l("        else 99 end");
        s.l("    end");
    }
    s.l("end");
    s.l("start :: fn do");
    for &j in c.perm.iter().take(c.k + 1) {
        if j == 0 && c.pos == 2 {
            s.l(&format!("    print(describe(Choice.{} (3, \"t\")))", VNAMES[j]));
        } else if j % 2 == 0 {
            s.l(&format!("    print(describe(Choice.{} {}))", VNAMES[j], val(j / 2)));
        } else {
            s.l(&format!("    print(describe(Choice.{}))", VNAMES[j]));
        }
    }
    s.l("end");
    single(s.s.clone())
}

fn render_ok_globals(c: &Case) -> Project {
    // 4n globals: constants c<j>, functions f<j> that read constants and call the previous function
    let g = 4 * c.n;
    let order = perm(g, c.ord);
    let mut decls: Vec<String> = Vec::new();
    for j in 0..g {
        if j % c.k == 0 {
            decls.push(format!("c{} :: {}\n", j, j + 1));
        } else if j % c.k == 1 || c.sub == 0 {
            let prev_const = (j / c.k) * c.k;
            decls.push(format!("f{} :: fn x: int -> int do\n    ret x + c{}\nend\n", j, prev_const));
        } else {
            decls.push(format!("f{} :: fn x: int -> int do\n    ret f{}(x) + 1\nend\n", j, j - 1));
        }
    }
    let mut s = Src::new();
    for &j in order.iter() {
        s.l(&decls[j]);
    }
    s.l("start :: fn do");
    for j in 0..g {
        if j % c.k != 0 && (j + c.pos) % 3 == 0 {
            s.l(&format!("    print(f{}({}))", j, j));
        }
    }
    s.l("    print(c0)");
    s.l("end");
    single(s.s.clone())
}

fn render_ok_imports(c: &Case) -> Project {
    // m = 2..4 modules; each exports k constants and one function; main imports them in perm order
    let m = 2 + c.n % 3;
    let order = perm(m, c.ord);
    let mut files = Vec::new();
    for q in 0..m {
        let mut s = Src::new();
        for j in 0..c.k {
            s.l(&format!("{}{} :: {}", NAMES[j], q, val(j)));
        }
        if q + 1 < m && c.pos == 1 {
            // chained import: module q uses module q+1
            s.l(&format!("use mod{}", q + 1));
            s.l(&format!("get{} :: fn -> int do\n    ret mod{}.get{}() + 1\nend", q, q + 1, q + 1));
        } else {
            s.l(&format!("get{} :: fn -> int do\n    ret {}\nend", q, q));
        }
        files.push((format!("mod{}.sy", q), s.s.clone()));
    }
    let mut s = Src::new();
    for &q in order.iter() {
        if c.sub == 0 {
            s.l(&format!("use mod{}", q));
        } else {
            let names: Vec<String> = (0..c.k).map(|j| format!("{}{}", NAMES[j], q)).collect();
            s.l(&format!("from mod{} use {}, get{}", q, names.join(", "), q));
        }
    }
    s.l("start :: fn do");
    for q in 0..m {
        if c.sub == 0 {
            s.l(&format!("    print(mod{}.get{}())", q, q));
            s.l(&format!("    print(mod{}.{}{})", q, NAMES[c.pos % c.k], q));
        } else {
            s.l(&format!("    print(get{}())", q));
            s.l(&format!("    print({}{})", NAMES[c.pos % c.k], q));
        }
    }
    s.l("end");
    files.push(("main.sy".to_string(), s.s.clone()));
    multi(files)
}

// ------------------------------------------------------------------------------------------------
// Rendering: rejected families (k independent planted errors at the logical positions c.errpos)

fn is_err(c: &Case, j: usize) -> bool {
    c.errpos.contains(&j)
}

fn render_rej_stmts(c: &Case) -> Project {
    // n top-level functions; the ones in errpos carry an error of their own
    // sub 0: a type mismatch each; sub 1: a syntax error each
    let mut s = Src::new();
    for &j in c.perm.iter() {
        s.l(&format!("fun{} :: fn x: int -> int do", j));
        if is_err(c, j) {
            if c.sub == 0 {
                s.l(&format!("    y{}: int = \"text{}\"", j, j));
            } else {
                s.l(&format!("    y{} := := {}", j, j));
            }
        } else {
            s.l(&format!("    y{} := {}", j, j));
        }
        s.l(&format!("    ret x + y{}", j));
        s.l("end");
    }
    s.l("start :: fn do");
    s.l("    print(fun0(1))");
    s.l("end");
    single(s.s.clone())
}

fn render_rej_blob_decl_types(c: &Case) -> Project {
    // one blob declaration; the fields in errpos name types that do not exist
    let mut s = Src::new();
    s.l(&blob_decl("Rec", "", &c.perm, &|j| if is_err(c, j) { format!("Nope{}", j) } else { ty(j).to_string() }));
    s.l("start :: fn do");
    if c.sub == 1 {
        s.l(&format!("    r := {}", blob_lit("Rec", &c.perm, &|j| val(j).to_string())));
        s.l(&format!("    print(r.{})", NAMES[c.perm[0]]));
    } else {
        s.l("    print(1)");
    }
    s.l("end");
    single(s.s.clone())
}

fn render_rej_blob_lit_types(c: &Case) -> Project {
    // a correct declaration; one literal whose fields in errpos get a value of the wrong type
    let lit_order = perm(c.n, (c.ord + 1) % 4);
    let lit = blob_lit("Rec", &lit_order, &|j| if is_err(c, j) { wrong(j).to_string() } else { val(j).to_string() });
    let mut s = Src::new();
    s.l(&blob_decl("Rec", "", &c.perm, &|j| ty(j).to_string()));
    if c.sub == 0 {
        s.l("start :: fn do");
        s.l(&format!("    r := {}", lit));
        s.l(&format!("    print(r.{})", NAMES[0]));
        s.l("end");
    } else {
        s.l("mk :: fn -> Rec do");
        s.l(&format!("    ret {}", lit));
        s.l("end");
        s.l("start :: fn do");
        s.l(&format!("    print(mk().{})", NAMES[0]));
        s.l("end");
    }
    single(s.s.clone())
}

fn render_rej_blob_lit_fields(c: &Case) -> Project {
    // a correct declaration; one literal that omits the fields in errpos (sub 0) or omits every second of
    // them and instead names fields that do not exist (sub 1)
    let lit_order = perm(c.n, (c.ord + 1) % 4);
    let mut s = Src::new();
    s.l(&blob_decl("Rec", "", &c.perm, &|j| ty(j).to_string()));
    let mut lit = String::from("Rec { ");
    for &j in lit_order.iter() {
        if is_err(c, j) {
            let q = c.errpos.iter().position(|&e| e == j).unwrap();
            if c.sub == 1 && q % 2 == 1 {
                lit.push_str(&format!("{}: {}, extra{}: {}, ", NAMES[j], val(j), j, j));
            }
        } else {
            lit.push_str(&format!("{}: {}, ", NAMES[j], val(j)));
        }
    }
    lit.push('}');
    s.l("start :: fn do");
    s.l(&format!("    r := {}", lit));
    s.l("    print(1)");
    s.l("end");
    single(s.s.clone())
}

fn render_rej_enum_variant_types(c: &Case) -> Project {
    let mut s = Src::new();
    s.l("Choice :: enum");
    for &j in c.perm.iter() {
        if is_err(c, j) {
            s.l(&format!("    {} Nope{}", VNAMES[j], j));
        } else if j % 2 == 0 {
            s.l(&format!("    {} {}", VNAMES[j], ty(j / 2)));
        } else {
            s.l(&format!("    {}", VNAMES[j]));
        }
    }
    s.l("end");
    s.l("start :: fn do");
    if c.sub == 1 {
        let j = (0..c.n).find(|j| !is_err(c, *j) && j % 2 == 1);
        match j {
            Some(j) => s.l(&format!("    x := Choice.{}", VNAMES[j])),
            None => s.l("    x := 1"),
        };
        s.l("    x");
    } else {
        s.l("    print(1)");
    }
    s.l("end");
    single(s.s.clone())
}

fn render_rej_files(c: &Case) -> Project {
    // n modules, each imported by main in perm order; the modules in errpos contain one error each
    // sub 0: syntax error; sub 1: type mismatch
    let mut files = Vec::new();
    for q in 0..c.n {
        let mut s = Src::new();
        s.l(&format!("get{} :: fn -> int do", q));
        if is_err(c, q) {
            if c.sub == 0 {
                s.l(&format!("    z{} := := {}", q, q));
            } else {
                s.l(&format!("    z{}: int = \"file{}\"", q, q));
            }
        }
        s.l(&format!("    ret {}", q));
        s.l("end");
        files.push((format!("mod{}.sy", q), s.s.clone()));
    }
    let mut s = Src::new();
    for &q in c.perm.iter() {
        s.l(&format!("use mod{}", q));
    }
    s.l("start :: fn do");
    for q in 0..c.n {
        s.l(&format!("    print(mod{}.get{}())", q, q));
    }
    s.l("end");
    files.push(("main.sy".to_string(), s.s.clone()));
    multi(files)
}

fn render_rej_dup_defs(c: &Case) -> Project {
    // n global definitions in perm order; the names in errpos are defined a second time further down
    // sub 0: the second definition is a constant again; sub 1: it is a blob/function of the same name
    let mut s = Src::new();
    for &j in c.perm.iter() {
        s.l(&format!("Item{} :: {}", j, j));
    }
    s.l("start :: fn do");
    s.l("    print(Item0)");
    s.l("end");
    let second = perm(c.n, (c.ord + 1) % 4);
    for &j in second.iter() {
        if is_err(c, j) {
            if c.sub == 0 {
                s.l(&format!("Item{} :: {}", j, j + 100));
            } else if j % 2 == 0 {
                s.l(&format!("Item{} :: blob {{ x: int }}", j));
            } else {
                s.l(&format!("Item{} :: fn -> int do\n    ret {}\nend", j, j));
            }
        }
    }
    single(s.s.clone())
}

fn render_rej_unresolved_fns(c: &Case) -> Project {
    // n functions; the ones in errpos read a name that does not exist
    // sub 0: the missing name is one edit away from existing globals (exercises the suggestion search)
    // sub 1: the missing name resembles nothing
    let mut s = Src::new();
    for j in 0..c.n {
        s.l(&format!("value{} :: {}", j, j));
    }
    s.l("valve := 0");
    s.l("valse := 1");
    for &j in c.perm.iter() {
        s.l(&format!("fun{} :: fn -> int do", j));
        if is_err(c, j) {
            if c.sub == 0 {
                s.l("    ret valxe + 1");
            } else {
                s.l(&format!("    ret qqqqqqqqqqqqqqqqqqqqqq{} + 1", j));
            }
        } else {
            s.l(&format!("    ret value{}", j));
        }
        s.l("end");
    }
    s.l("start :: fn do");
    s.l("    print(fun0())");
    s.l("end");
    single(s.s.clone())
}

fn render_rej_blob_generics(c: &Case) -> Project {
    // one blob declaration; the fields in errpos use a generic that was never declared
    // sub 0: no declared generics at all; sub 1: one declared generic used by the first good field
    let generics = if c.sub == 1 { "(*t)" } else { "" };
    let first_good = (0..c.n).find(|j| !is_err(c, *j));
    let mut s = Src::new();
    s.l(&blob_decl("Rec", generics, &c.perm, &|j| {
        if is_err(c, j) {
            format!("*u{}", j)
        } else if c.sub == 1 && Some(j) == first_good {
            "*t".to_string()
        } else {
            ty(j).to_string()
        }
    }));
    s.l("start :: fn do");
    s.l("    print(1)");
    s.l("end");
    single(s.s.clone())
}

fn render_rej_enum_generics(c: &Case) -> Project {
    // one enum declaration; the variants in errpos carry a generic that was never declared
    let generics = if c.sub == 1 { "(*t)" } else { "" };
    let first_good = (0..c.n).find(|j| !is_err(c, *j));
    let mut s = Src::new();
    s.l(&format!("Choice :: enum{}", generics));
    for &j in c.perm.iter() {
        if is_err(c, j) {
            s.l(&format!("    {} *u{}", VNAMES[j], j));
        } else if c.sub == 1 && Some(j) == first_good {
            s.l(&format!("    {} *t", VNAMES[j]));
        } else if j % 2 == 0 {
            s.l(&format!("    {} {}", VNAMES[j], ty(j / 2)));
        } else {
            s.l(&format!("    {}", VNAMES[j]));
        }
    }
    s.l("end");
    s.l("start :: fn do");
    s.l("    print(1)");
    s.l("end");
    single(s.s.clone())
}

fn render_rej_imports(c: &Case) -> Project {
    // main imports n things in perm order; the ones in errpos do not exist
    // sub 0: `use missing<j>` (no such file); sub 1: `from mod<j> use nope<j>` (no such name in an existing module)
    let mut files = Vec::new();
    let mut s = Src::new();
    for &q in c.perm.iter() {
        let bad = is_err(c, q);
        if c.sub == 0 {
            if bad {
                s.l(&format!("use missing{}", q));
            } else {
                s.l(&format!("use mod{}", q));
            }
        } else if bad {
            s.l(&format!("from mod{} use nope{}", q, q));
        } else {
            s.l(&format!("from mod{} use get{}", q, q));
        }
        if c.sub == 1 || !bad {
            files.push((format!("mod{}.sy", q), format!("get{} :: fn -> int do\n    ret {}\nend\n", q, q)));
        }
    }
    s.l("start :: fn do");
    s.l("    print(1)");
    s.l("end");
    files.push(("main.sy".to_string(), s.s.clone()));
    multi(files)
}

fn render(c: &Case) -> Project {
    match c.fam.as_str() {
        "ok-blob" => render_ok_blob(c),
        "ok-enum" => render_ok_enum(c),
        "ok-globals" => render_ok_globals(c),
        "ok-imports" => render_ok_imports(c),
        "rej-stmts" => render_rej_stmts(c),
        "rej-blob-decl-types" => render_rej_blob_decl_types(c),
        "rej-blob-lit-types" => render_rej_blob_lit_types(c),
        "rej-blob-lit-fields" => render_rej_blob_lit_fields(c),
        "rej-enum-variant-types" => render_rej_enum_variant_types(c),
        "rej-files" => render_rej_files(c),
        "rej-dup-defs" => render_rej_dup_defs(c),
        "rej-unresolved-fns" => render_rej_unresolved_fns(c),
        "rej-blob-generics" => render_rej_blob_generics(c),
        "rej-imports" => render_rej_imports(c),
        "rej-enum-generics" => render_rej_enum_generics(c),
        _ => tool_error("unknown family"),
    }
}

// ------------------------------------------------------------------------------------------------
// Inputs: "u:<idx>" (universe) or "c:<dir>|<main relative to dir>" (corpus file, project = every .sy under dir)

#[derive(Clone)]
struct Input {
    spec: String,
    case: Option<Case>,
    project: Project,
}

fn walk(dir: &Path, base: &Path, out: &mut BTreeMap<String, String>) {
    let mut ents: Vec<_> = match std::fs::read_dir(dir) {
        Ok(r) => r.filter_map(|e| e.ok()).collect(),
        Err(_) => return,
    };
    ents.sort_by_key(|e| e.path());
    for e in ents {
        let p = e.path();
        if p.is_dir() {
            walk(&p, base, out);
        } else if p.extension().map(|x| x == "sy").unwrap_or(false) {
            if let Ok(s) = std::fs::read_to_string(&p) {
                out.insert(p.strip_prefix(base).unwrap().to_string_lossy().to_string(), s);
            }
        }
    }
}

thread_local! {
    static CORPUS: std::cell::RefCell<BTreeMap<String, BTreeMap<String, String>>> = std::cell::RefCell::new(BTreeMap::new());
}

fn corpus_files(dir: &str) -> BTreeMap<String, String> {
    CORPUS.with(|c| {
        c.borrow_mut()
            .entry(dir.to_string())
            .or_insert_with(|| {
                let mut m = BTreeMap::new();
                walk(Path::new(dir), Path::new(dir), &mut m);
                m
            })
            .clone()
    })
}

fn input_of(spec: &str) -> Input {
    if let Some(i) = spec.strip_prefix("u:") {
        let idx: usize = i.parse().unwrap_or_else(|_| tool_error("bad universe index"));
        if idx < 1 || idx > universe_size() {
            tool_error("universe index out of range");
        }
        let c = case_at(idx);
        let p = render(&c);
        Input { spec: spec.to_string(), case: Some(c), project: p }
    } else if let Some(rest) = spec.strip_prefix("c:") {
        let (dir, main) = rest.split_once('|').unwrap_or_else(|| tool_error("bad corpus spec"));
        // only the files in the main file's directory tree and below the corpus root can be imported;
        // the whole tree is served so that `use` works exactly as on disk
        let files = corpus_files(dir);
        Input { spec: spec.to_string(), case: None, project: Project { files, main: main.to_string() } }
    } else {
        tool_error(&format!("bad input spec {:?}", spec))
    }
}

// ------------------------------------------------------------------------------------------------
// Observation of one compilation

#[derive(Clone, Debug, Serialize, Deserialize)]
struct Obs {
    class: String,
    /// fnv over the Lua bytes, or over the whole rendered error list (kind,file,line,cols,message,rendered in order)
    digest: String,
    nerr: usize,
    /// first error's kind and location
    d_first: String,
    /// the list of (kind, file, line, cols) in order
    d_locs: String,
    /// the sorted multiset of complete errors (equal for two runs that differ only in order)
    d_set: String,
    /// number of Lua bytes (0 unless accepted)
    #[serde(default)]
    size: usize,
}

fn observe(r: &CompileResult) -> Obs {
    match r {
        CompileResult::Ok { lua } => {
            let d = hex(fnv(lua));
            Obs { class: "ok".into(), digest: d.clone(), nerr: 0, d_first: d.clone(), d_locs: d.clone(), d_set: d, size: lua.len() }
        }
        CompileResult::Panic { message, bytes_written } => {
            let d = hex(fnv(&format!("panic|{}|{}", message, bytes_written)));
            Obs { class: "panic".into(), digest: d.clone(), nerr: 0, d_first: d.clone(), d_locs: d.clone(), d_set: d, size: 0 }
        }
        CompileResult::Err { errors, bytes_written } => {
            let loc = |e: &vharness::ErrInfo| {
                format!("{}|{}|{}|{}|{}|{}", e.kind, e.file, e.line, e.line_end, e.col_start, e.col_end)
            };
            let full = |e: &vharness::ErrInfo| format!("{}|{}|{}\u{1}", loc(e), e.message, e.rendered);
            let all: Vec<String> = errors.iter().map(full).collect();
            let mut sorted = all.clone();
            sorted.sort();
            Obs {
                class: "err".into(),
                digest: hex(fnv(&format!("{}#{}", all.join("\u{2}"), bytes_written))),
                nerr: errors.len(),
                d_first: hex(fnv(&errors.first().map(loc).unwrap_or_default())),
                d_locs: hex(fnv(&errors.iter().map(loc).collect::<Vec<_>>().join("\u{2}"))),
                d_set: hex(fnv(&format!("{}#{}", sorted.join("\u{2}"), bytes_written))),
                size: 0,
            }
        }
    }
}

/// What is kept of a full result for the replay object (Lua is kept whole: the property is about bytes).
fn full_result(r: &CompileResult) -> Value {
    match r {
        CompileResult::Ok { lua } => json!({"class": "ok", "lua": lua}),
        CompileResult::Panic { message, bytes_written } => {
            json!({"class": "panic", "message": message, "bytes_written": bytes_written})
        }
        CompileResult::Err { errors, bytes_written } => json!({"class": "err", "bytes_written": bytes_written,
            "errors": errors.iter().map(|e| json!({"kind": e.kind, "file": e.file, "line": e.line, "line_end": e.line_end,
                "col_start": e.col_start, "col_end": e.col_end, "message": e.message, "rendered": e.rendered})).collect::<Vec<_>>()}),
    }
}

#[derive(Serialize, Deserialize)]
struct Job {
    spec: String,
    /// digest of this input's first in-process run; the worker ships its full result only when it differs
    reference: String,
}

#[derive(Serialize, Deserialize)]
struct JobOut {
    obs: Obs,
    /// how many compilations this worker thread had done before this one
    before: usize,
    full: Option<Value>,
}

thread_local! {
    static DONE: std::cell::Cell<usize> = std::cell::Cell::new(0);
}

fn compile_counted(p: &Project) -> (CompileResult, usize) {
    let before = DONE.with(|d| {
        let v = d.get();
        d.set(v + 1);
        v
    });
    (compile(p), before)
}

fn worker(jobs_path: &str, out_path: &str) {
    let jobs: Vec<Job> = read_ndjson(Path::new(jobs_path));
    // every worker walks the inputs in its own order, so the number of earlier compilations differs per process
    let mut order: Vec<usize> = (0..jobs.len()).collect();
    let salt = std::env::var("C16_ORDER").ok().and_then(|s| s.parse::<u64>().ok()).unwrap_or(0);
    let mut rng = rand::rngs::StdRng::seed_from_u64(seed() ^ salt.wrapping_mul(0x9e3779b97f4a7c15));
    order.shuffle(&mut rng);
    let res = vharness::pool::par_map(&order, |_, &q| {
        let inp = input_of(&jobs[q].spec);
        let (r, before) = compile_counted(&inp.project);
        let obs = observe(&r);
        let full = if obs.digest != jobs[q].reference { Some(full_result(&r)) } else { None };
        (q, JobOut { obs, before, full })
    });
    let mut outs: Vec<Option<JobOut>> = (0..jobs.len()).map(|_| None).collect();
    for (q, o) in res {
        outs[q] = Some(o);
    }
    let outs: Vec<JobOut> = outs.into_iter().map(|o| o.unwrap()).collect();
    write_ndjson(Path::new(out_path), &outs);
}

// ------------------------------------------------------------------------------------------------
// The recorder

const IN_RUNS: usize = 6;
const X_RUNS: usize = 3;

fn spawn_worker(x: usize, jobs: &Path, out: &Path, scratch: &Path) -> std::process::Child {
    let exe = std::env::current_exe().unwrap_or_else(|e| tool_error(&format!("current_exe: {}", e)));
    let mut cmd = std::process::Command::new(exe);
    cmd.arg("worker").arg(jobs).arg(out);
    let home = scratch.join(format!("home-x{}", x));
    let _ = std::fs::create_dir_all(&home);
    let nthreads = vharness::pool::threads();
    // three deliberately different process environments (nothing here may influence a compiler's output)
    match x {
        1 => {
            cmd.env("HOME", &home).env("LANG", "C").env("LC_ALL", "C").env("RUST_BACKTRACE", "0");
            cmd.env("TZ", "UTC").env("VERIF_THREADS", format!("{}", (nthreads / 3).max(1)));
            cmd.current_dir("/");
        }
        2 => {
            cmd.env("HOME", "/nonexistent-c16").env("LANG", "sv_SE.UTF-8").env("LC_ALL", "sv_SE.UTF-8");
            cmd.env("RUST_BACKTRACE", "1").env("TZ", "Asia/Kolkata").env("TERM", "dumb").env("NO_COLOR", "1");
            cmd.env("VERIF_THREADS", format!("{}", (nthreads / 3).max(1) + 1));
            cmd.current_dir(&home);
        }
        _ => {
            cmd.env_clear();
            cmd.env("PATH", "/usr/bin:/bin").env("RUST_BACKTRACE", "full").env("LANG", "ja_JP.eucJP");
            cmd.env("SYLT_HOME", "/tmp/sylt").env("USER", "nobody").env("COLUMNS", "20");
            cmd.env("VERIF_THREADS", format!("{}", (nthreads / 3).max(1) + 2));
            cmd.current_dir(std::env::temp_dir());
        }
    }
    cmd.env("VERIF_SEED", format!("{}", seed())).env("C16_ORDER", format!("{}", x));
    cmd.stdout(std::process::Stdio::null());
    cmd.spawn().unwrap_or_else(|e| tool_error(&format!("cannot start worker x{}: {}", x, e)))
}

fn record(specs: Vec<String>, trace_path: &str, inputs_path: &str) {
    let stub = std::env::var("C16_STUB").ok();
    let n = specs.len();
    let trace_p = Path::new(trace_path);
    let parent = match trace_p.parent() {
        Some(d) if !d.as_os_str().is_empty() => d.to_path_buf(),
        _ => std::path::PathBuf::from("."),
    };
    let _ = std::fs::create_dir_all(&parent);
    let parent = std::fs::canonicalize(&parent).unwrap_or_else(|e| tool_error(&format!("{}: {}", parent.display(), e)));
    let scratch = parent.join(format!(
        "c16-scratch-{}",
        trace_p.file_stem().map(|s| s.to_string_lossy().to_string()).unwrap_or_default()
    ));
    let _ = std::fs::create_dir_all(&scratch);

    // in-process: IN_RUNS passes, each in its own seeded order, all passes interleaved over the pool's threads
    let mut rng = rand::rngs::StdRng::seed_from_u64(seed() ^ 0xC16);
    let mut schedule: Vec<(usize, usize)> = Vec::new(); // (input ordinal, run 1..6)
    for run in 1..=IN_RUNS {
        let mut order: Vec<usize> = (0..n).collect();
        order.shuffle(&mut rng);
        schedule.extend(order.into_iter().map(|q| (q, run)));
    }
    // mix neighbouring passes so that repetitions of one input are not a fixed distance apart
    for w in schedule.chunks_mut(97) {
        w.shuffle(&mut rng);
    }
    let results = vharness::pool::par_map(&schedule, |_, &(q, run)| {
        let inp = input_of(&specs[q]);
        let (r, before) = compile_counted(&inp.project);
        (q, run, observe(&r), before, r)
    });
    // per input: observations by run, full result of run 1 and of the first in-process run that differs from it
    let mut obs: Vec<Vec<Option<(Obs, usize)>>> = (0..n).map(|_| (0..IN_RUNS + X_RUNS).map(|_| None).collect()).collect();
    let mut fulls: Vec<BTreeMap<usize, Value>> = (0..n).map(|_| BTreeMap::new()).collect();
    let mut first: Vec<Option<CompileResult>> = (0..n).map(|_| None).collect();
    let mut pending: Vec<Vec<(usize, Obs, CompileResult)>> = (0..n).map(|_| Vec::new()).collect();
    for (q, run, o, before, r) in results {
        obs[q][run - 1] = Some((o.clone(), before));
        if run == 1 {
            first[q] = Some(r);
        } else {
            pending[q].push((run, o, r));
        }
    }
    for q in 0..n {
        let ref_digest = obs[q][0].as_ref().unwrap().0.digest.clone();
        pending[q].sort_by_key(|x| x.0);
        if let Some((run, _, r)) = pending[q].iter().find(|(_, o, _)| o.digest != ref_digest) {
            fulls[q].insert(1, full_result(first[q].as_ref().unwrap()));
            fulls[q].insert(*run, full_result(r));
        }
    }
    drop(pending);

    // cross-process: one worker per run over the whole batch
    let jobs: Vec<Job> =
        (0..n).map(|q| Job { spec: specs[q].clone(), reference: obs[q][0].as_ref().unwrap().0.digest.clone() }).collect();
    let jobs_path = scratch.join("jobs.ndjson");
    write_ndjson(&jobs_path, &jobs);
    let mut children = Vec::new();
    for x in 1..=X_RUNS {
        let out = scratch.join(format!("x{}.ndjson", x));
        children.push((x, out.clone(), spawn_worker(x, &jobs_path, &out, &scratch)));
    }
    for (x, out, mut ch) in children {
        let st = ch.wait().unwrap_or_else(|e| tool_error(&format!("worker x{}: {}", x, e)));
        if !st.success() {
            tool_error(&format!("worker x{} exited with {:?}", x, st.code()));
        }
        let outs: Vec<JobOut> = read_ndjson(&out);
        if outs.len() != n {
            tool_error(&format!("worker x{} returned {} of {} results", x, outs.len(), n));
        }
        for (q, o) in outs.into_iter().enumerate() {
            if let Some(f) = o.full {
                if fulls[q].is_empty() {
                    fulls[q].insert(1, full_result(first[q].as_ref().unwrap()));
                    fulls[q].insert(IN_RUNS + x, f);
                }
            }
            obs[q][IN_RUNS + x - 1] = Some((o.obs, o.before));
        }
    }

    // trace: one record per (input, run), the runs of one input adjacent and in run order
    let mut trace: Vec<Value> = Vec::with_capacity(n * (IN_RUNS + X_RUNS));
    let mut inputs: Vec<Value> = Vec::with_capacity(n);
    for q in 0..n {
        let inp = input_of(&specs[q]);
        let case_v = match &inp.case {
            Some(c) => serde_json::to_value(c).unwrap(),
            None => json!({"idx": 0, "fam": "corpus", "n": 0, "k": 0, "ord": 0, "pos": 0, "sub": 0,
                           "errpos": [], "perm": [], "expect": "any"}),
        };
        for run in 1..=IN_RUNS + X_RUNS {
            let (o, before) = obs[q][run - 1].clone().unwrap();
            let mut rec = case_v.clone();
            let mut digest = o.digest.clone();
            let salted = stub.as_deref() == Some("salt") && q % 5 == 2;
            if salted && run == 6 {
                digest = hex(fnv(&format!("salt{}", digest))); // negative control: a recorder that lies about one run
            }
            rec["salted"] = json!(salted);
            rec["input"] = json!(q + 1);
            rec["run"] = json!(run);
            rec["process"] = json!(if run <= IN_RUNS { "in".to_string() } else { format!("x{}", run - IN_RUNS) });
            rec["class"] = json!(o.class);
            rec["digest"] = json!(digest);
            rec["nerr"] = json!(o.nerr);
            rec["d_first"] = json!(o.d_first);
            rec["d_locs"] = json!(o.d_locs);
            rec["d_set"] = json!(o.d_set);
            rec["before"] = json!(before);
            trace.push(rec);
        }
        // universe cases: all files of the project; corpus: the main file (the tree around it is the same for all)
        let src_digest = if inp.case.is_some() {
            hex(fnv(&serde_json::to_string(&inp.project).unwrap()))
        } else {
            hex(fnv(&format!("{}\u{1}{}", inp.project.main, inp.project.files.get(&inp.project.main).cloned().unwrap_or_default())))
        };
        let mut iv = json!({"input": q + 1, "spec": specs[q], "case": case_v, "main": inp.project.main,
                            "src_digest": src_digest, "full": fulls[q]});
        if inp.case.is_some() {
            iv["files"] = json!(inp.project.files);
        } else {
            iv["files"] = json!({ inp.project.main.clone(): inp.project.files.get(&inp.project.main) });
        }
        inputs.push(iv);
    }
    write_ndjson(trace_p, &trace);
    write_ndjson(Path::new(inputs_path), &inputs);
    let _ = std::fs::remove_dir_all(&scratch);
    println!("{}", n);
}

fn show(spec: &str) {
    let inp = input_of(spec);
    println!("// input {}", inp.spec);
    if let Some(c) = &inp.case {
        println!("// case {}", serde_json::to_string(c).unwrap());
    }
    let only_main = inp.case.is_none();
    for (p, s) in inp.project.files.iter() {
        if !only_main || *p == inp.project.main {
            println!("// ---- {}\n{}", p, s);
        }
    }
    let r = compile(&inp.project);
    let o = observe(&r);
    println!("// class={} digest={} nerr={}", o.class, o.digest, o.nerr);
    if let CompileResult::Err { errors, .. } = &r {
        for e in errors {
            println!("//   {} {}:{}:{}-{} {}", e.kind, e.file, e.line, e.col_start, e.col_end, e.message.replace('\n', " / "));
        }
    }
    if let CompileResult::Panic { message, .. } = &r {
        println!("//   panic {}", message);
    }
}

// ================================================================================================
// The context dimensions (SyltDetContext): histories, long histories, spellings of the main file, hash seeds.
// Everything below mirrors a universe that is DEFINED in spec/SyltDetContext.tla; TLC re-derives every
// recorded context from the spec (Trace_DetContext) and fails with a tool error when this file disagrees.

#[derive(Clone, Debug, Serialize, Deserialize)]
struct Prog {
    id: usize,
    name: String,
    files: usize,
    stdlibs: usize,
    site: String,
    collide: String,
    err: String,
    bracket: String,
    depth: usize,
    nostd: bool,
    warm: bool,
    expect: String,
}

/// (name, files, stdlibs, site, collide, err, bracket, depth, nostd, warm) - the rows of SyltDetContext!ProgTable
const PROG_TABLE: &[(&str, usize, usize, &str, &str, &str, &str, usize, bool, bool)] = &[
    ("ok-1", 1, 0, "main", "-", "ok", "-", 0, false, true),
    ("ok-2", 2, 0, "helper", "-", "ok", "paren", 2, false, true),
    ("ok-3", 3, 0, "helper", "-", "ok", "list", 3, false, true),
    ("ok-std4", 1, 4, "main", "-", "ok", "call", 2, false, true),
    ("ok-std2-2", 2, 2, "main", "-", "ok", "brace", 3, false, false),
    ("ok-deep", 1, 0, "main", "-", "ok", "mixed", 6, false, false),
    ("col-print-1", 1, 0, "main", "print", "collide", "-", 0, false, true),
    ("col-print-2", 2, 0, "main", "print", "collide", "-", 0, false, false),
    ("col-print-3h", 3, 0, "helper", "print", "collide", "-", 0, false, false),
    ("col-map-1s", 1, 2, "main", "map", "collide", "-", 0, false, false),
    ("col-map-2h", 2, 0, "helper", "map", "collide", "-", 0, false, false),
    ("col-min-3s", 3, 4, "main", "min", "collide", "-", 0, false, false),
    ("col-two-2", 2, 0, "main", "two", "collide", "-", 0, false, false),
    ("syn-paren-1", 1, 0, "main", "-", "syntax", "paren", 1, false, false),
    ("syn-paren-4", 1, 0, "main", "-", "syntax", "paren", 4, false, true),
    ("syn-list-2h", 2, 0, "helper", "-", "syntax", "list", 2, false, false),
    ("syn-list-6", 2, 0, "main", "-", "syntax", "list", 6, false, true),
    ("syn-brace-2", 1, 0, "main", "-", "syntax", "brace", 2, false, false),
    ("syn-call-3s", 1, 2, "main", "-", "syntax", "call", 3, false, false),
    ("syn-mixed-5h", 3, 0, "helper", "-", "syntax", "mixed", 5, false, true),
    ("res-paren-2", 1, 0, "main", "-", "resolve", "paren", 2, false, false),
    ("res-list-3h", 3, 0, "helper", "-", "resolve", "list", 3, false, true),
    ("typ-paren-1", 1, 0, "main", "-", "type", "paren", 1, false, false),
    ("typ-brace-2s", 2, 2, "helper", "-", "type", "brace", 2, false, true),
    ("imp-missing-2", 2, 0, "main", "-", "import", "-", 0, false, false),
    ("n-ok-1", 1, 0, "main", "-", "ok", "-", 0, true, false),
    ("n-ok-deep-2", 2, 0, "helper", "-", "ok", "mixed", 6, true, true),
    ("n-syn-paren-1", 1, 0, "main", "-", "syntax", "paren", 1, true, false),
    ("n-syn-list-3", 1, 0, "main", "-", "syntax", "list", 3, true, false),
    ("n-syn-brace-2", 1, 0, "main", "-", "syntax", "brace", 2, true, false),
    ("n-syn-mixed-4h", 2, 0, "helper", "-", "syntax", "mixed", 4, true, false),
    ("n-res-paren-2", 1, 0, "main", "-", "resolve", "paren", 2, true, false),
    ("n-typ-list-2", 1, 0, "main", "-", "type", "list", 2, true, false),
    ("n-imp-missing", 1, 0, "main", "-", "import", "-", 0, true, false),
];

fn n_prog() -> usize {
    PROG_TABLE.len()
}

fn prog(id: usize) -> Prog {
    if id < 1 || id > n_prog() {
        tool_error(&format!("program id {} outside the library", id));
    }
    let r = PROG_TABLE[id - 1];
    Prog {
        id,
        name: r.0.into(),
        files: r.1,
        stdlibs: r.2,
        site: r.3.into(),
        collide: r.4.into(),
        err: r.5.into(),
        bracket: r.6.into(),
        depth: r.7,
        nostd: r.8,
        warm: r.9,
        expect: if r.5 == "ok" { "ok" } else { "err" }.into(),
    }
}

const STD_IMPORTS: &[&str] =
    &["from math use (angle)", "from list use (prepend)", "from common use split", "from unsafe use unsafe_force"];

/// The bracket nest of a program: declarations it needs and the expression `levels deep around core`.
fn nest(bracket: &str, depth: usize, core: &str) -> (String, String, bool) {
    let mut decls = String::new();
    let mut e = core.to_string();
    let mut is_int = true;
    match bracket {
        "paren" => {
            for _ in 0..depth {
                e = format!("(1 + {})", e);
            }
        }
        "list" => {
            for _ in 0..depth {
                e = format!("[{}]", e);
            }
            is_int = depth == 0;
        }
        "brace" => {
            // W1 { v: W2 { v: .. Wd { v: core } } }
            for l in (1..=depth).rev() {
                let inner = if l == depth { "int".to_string() } else { format!("W{}", l + 1) };
                decls.push_str(&format!("W{} :: blob {{ v: {} }}\n", l, inner));
                e = format!("W{} {{ v: {} }}", l, e);
            }
            is_int = depth == 0;
        }
        "call" => {
            decls.push_str("ident :: fn x: int -> int do\n    ret x\nend\n");
            for _ in 0..depth {
                e = format!("ident({})", e);
            }
        }
        "mixed" => {
            decls.push_str("ident :: fn x: int -> int do\n    ret x\nend\n");
            // innermost level first: ( ), a list inside a tuple that is indexed, call, ( ), ...
            for l in 0..depth {
                e = match l % 3 {
                    0 => format!("(1 + {})", e),
                    1 => format!("([{}], 1)[1]", e),
                    _ => format!("ident({})", e),
                };
            }
        }
        _ => {}
    }
    (decls, e, is_int)
}

fn render_prog(p: &Prog) -> Project {
    let core = match p.err.as_str() {
        "syntax" => "2 +",
        "resolve" => "nope_q",
        "type" => "1 + \"s\"",
        _ => "2",
    };
    let (decls, expr, is_int) = nest(&p.bracket, p.depth, core);
    let collide_defs = |name: &str| -> String {
        let one = |n: &str| format!("{} :: fn x: int -> int do\n    ret x\nend\n", n);
        match name {
            "-" => String::new(),
            "two" => format!("{}{}", one("print"), one("map")),
            n => one(n),
        }
    };
    let site_body = |s: &mut Src| {
        if p.bracket != "-" {
            s.l(&format!("    x := {}", expr));
            if is_int && p.err != "syntax" {
                s.l("    x + 1");
            }
        }
    };
    let nhelp = p.files - 1;
    let mut files = Vec::new();
    for k in 1..=nhelp {
        let is_site = p.site == "helper" && k == nhelp;
        let mut s = Src::new();
        if is_site {
            s.s.push_str(&collide_defs(&p.collide));
            s.s.push_str(&decls);
        }
        s.l(&format!("one{} :: fn -> int do", k));
        if is_site {
            site_body(&mut s);
        }
        s.l(&format!("    ret {}", k));
        s.l("end");
        files.push((format!("h{}.sy", k), s.s.clone()));
    }
    let mut s = Src::new();
    for k in 1..=nhelp {
        s.l(&format!("use h{}", k));
    }
    if p.err == "import" {
        s.l("use nofile");
    }
    for q in 0..p.stdlibs {
        s.l(STD_IMPORTS[q]);
    }
    let main_site = p.site == "main";
    if main_site {
        s.s.push_str(&collide_defs(&p.collide));
        s.s.push_str(&decls);
    }
    s.l("work :: fn -> int do");
    if main_site {
        site_body(&mut s);
    }
    s.l("    ret 0");
    s.l("end");
    s.l("start :: fn do");
    s.l("    t := work()");
    for k in 1..=nhelp {
        s.l(&format!("    t = t + h{}.one{}()", k, k));
    }
    if !p.nostd && p.collide != "print" && p.collide != "two" {
        s.l("    print(t)");
    }
    s.l("end");
    files.push(("main.sy".to_string(), s.s.clone()));
    multi(files)
}

fn warm_ids() -> Vec<usize> {
    (1..=n_prog()).filter(|&i| PROG_TABLE[i - 1].9).collect()
}

fn n_shapes() -> usize {
    2 + 3 * warm_ids().len()
}

/// SyltDetContext!HistScenario
fn hist_scenario(t: usize, s: usize) -> Vec<usize> {
    let w = warm_ids();
    let nw = w.len();
    let at = |k: usize| w[(k - 1) % nw];
    if s == 1 {
        vec![t]
    } else if s == 2 {
        vec![t, t, t]
    } else if s <= 2 + nw {
        vec![at(s - 2), t]
    } else if s <= 2 + 2 * nw {
        vec![at(s - 2 - nw), at(s - 1 - nw), t]
    } else {
        vec![at(s - 2 - 2 * nw), t, at(s + 1 - 2 * nw), t]
    }
}

fn ids_where(f: &dyn Fn(&Prog) -> bool) -> Vec<usize> {
    (1..=n_prog()).filter(|&i| f(&prog(i))).collect()
}

fn weave(a: &[usize], b: &[usize]) -> Vec<usize> {
    let mut v = Vec::new();
    for (q, &x) in a.iter().enumerate() {
        v.push(x);
        v.push(b[q % b.len()]);
    }
    v
}

const N_LONG: usize = 6;

/// SyltDetContext!LongPattern
fn long_pattern(s: usize) -> Vec<usize> {
    let other = |e: &str| ["resolve", "type", "import", "collide"].contains(&e);
    match s {
        1 => ids_where(&|p| !p.nostd),
        2 => weave(&ids_where(&|p| !p.nostd && p.err == "syntax"), &ids_where(&|p| !p.nostd && p.err == "ok")),
        3 => weave(&ids_where(&|p| !p.nostd && other(&p.err)), &ids_where(&|p| !p.nostd && p.err == "ok")),
        4 => ids_where(&|p| p.nostd),
        5 => weave(&ids_where(&|p| p.nostd && p.err == "syntax"), &ids_where(&|p| p.nostd && p.err == "ok")),
        _ => weave(
            &ids_where(&|p| p.nostd && ["resolve", "type", "import"].contains(&p.err.as_str())),
            &ids_where(&|p| p.nostd && p.err == "ok"),
        ),
    }
}

// ---- projects on disk -------------------------------------------------------------------------------------

/// (name, cwd, arg) - SyltDetContext!Spellings; $S = scratch dir of the project, $P = $S/proj
const SPELLINGS: &[(&str, &str, &str)] = &[
    ("parent", "$S", "proj/main.sy"),
    ("bare", "$P", "main.sy"),
    ("dot", "$P", "./main.sy"),
    ("parent-dot", "$S", "./proj/main.sy"),
    ("sub-dotdot", "$P/w", "../main.sy"),
    ("parent-dotdot", "$S", "proj/w/../main.sy"),
    ("abs", "/", "$P/main.sy"),
    ("abs-inside", "$P", "$P/main.sy"),
    ("abs-dotdot", "$S", "$P/w/../main.sy"),
    ("double-slash", "$S", "proj//main.sy"),
];

const N_DISK: usize = 64;

#[derive(Clone, Debug, Serialize, Deserialize)]
struct DiskCase {
    idx: usize,
    shape: usize,
    subdepth: usize,
    exports: usize,
    err: usize,
    expect: String,
}

fn disk_case(i: usize) -> DiskCase {
    if i < 1 || i > N_DISK {
        tool_error("disk project index out of range");
    }
    let m = i - 1;
    let err = (m / 16) % 4;
    DiskCase {
        idx: i,
        shape: m % 4,
        subdepth: 1 + (m / 4) % 2,
        exports: (m / 8) % 2,
        err,
        expect: if err == 0 { "ok" } else { "err" }.into(),
    }
}

/// files relative to the project directory
fn render_disk(c: &DiskCase) -> BTreeMap<String, String> {
    let mut f = BTreeMap::new();
    // the shared module: mutable state, so that two copies of it behave differently
    let mut sh = Src::new();
    sh.l("_count := 0");
    sh.l("bump :: fn do\n    _count += 1\nend");
    sh.l("count :: fn -> int do\n    ret _count\nend");
    if c.err == 1 {
        sh.l("broken :: fn -> int do\n    z: int = \"shared\"\n    ret z\nend");
    }
    f.insert("shared.sy".to_string(), sh.s.clone());
    let subdir = if c.subdepth == 1 { "w".to_string() } else { "w/deep".to_string() };
    // the file in the sub-folder
    let mut u = Src::new();
    match c.shape {
        2 => u.l("from /shared use bump"),
        3 => u.l("use /other").l("use /shared"),
        _ => u.l("use /shared"),
    };
    if c.err == 3 {
        u.l("use /gone");
    }
    u.l("click :: fn do");
    match c.shape {
        2 => u.l("    bump()"),
        3 => u.l("    other.poke()").l("    shared.bump()"),
        _ => u.l("    shared.bump()"),
    };
    if c.err == 2 {
        u.l("    q := [1, (2 +), 3]");
    }
    u.l("end");
    f.insert(format!("{}/user.sy", subdir), u.s.clone());
    if c.shape == 3 {
        f.insert("other.sy".to_string(), "use shared\npoke :: fn do\n    shared.bump()\nend\n".to_string());
    }
    if c.subdepth == 2 {
        // keeps the folder w non-empty on its own level as well
        f.insert("w/note.sy".to_string(), "note :: 1\n".to_string());
    }
    let mut m = Src::new();
    match c.shape {
        0 => m.l("use shared"),
        2 => m.l("from shared use bump, count"),
        _ => m.l("use /shared"),
    };
    let user_ns;
    if c.exports == 1 {
        let rel = if c.subdepth == 1 { "user" } else { "deep/user" };
        f.insert("w/exports.sy".to_string(), format!("use {}\nclick :: user.click\n", rel));
        m.l("use w/");
        user_ns = "w";
    } else {
        m.l(&format!("use {}/user", subdir));
        user_ns = "user";
    }
    m.l("start :: fn do");
    if c.shape == 2 {
        m.l("    bump()");
    } else {
        m.l("    shared.bump()");
    }
    m.l(&format!("    {}.click()", user_ns));
    m.l(&format!("    {}.click()", user_ns));
    let expected = if c.shape == 3 { 5 } else { 3 };
    if c.shape == 2 {
        m.l(&format!("    count() <=> {}", expected));
        m.l("    print(count())");
    } else {
        m.l(&format!("    shared.count() <=> {}", expected));
        m.l("    print(shared.count())");
    }
    m.l("end");
    f.insert("main.sy".to_string(), m.s.clone());
    f
}

/// Lexical normalisation of a path as a compiler spelled it: made absolute with `cwd`, `.` and `..` resolved,
/// then written relative to the project directory `root` when it lies below it.
fn norm_path(spelled: &str, cwd: &Path, root: &Path) -> String {
    if spelled.starts_with("lib:") || spelled.is_empty() {
        return spelled.to_string();
    }
    let p = Path::new(spelled);
    let abs = if p.is_absolute() { p.to_path_buf() } else { cwd.join(p) };
    let mut parts: Vec<std::ffi::OsString> = Vec::new();
    for c in abs.components() {
        match c {
            std::path::Component::CurDir | std::path::Component::RootDir | std::path::Component::Prefix(_) => {}
            std::path::Component::ParentDir => {
                parts.pop();
            }
            std::path::Component::Normal(x) => parts.push(x.to_os_string()),
        }
    }
    let mut n = std::path::PathBuf::from("/");
    for x in parts {
        n.push(x);
    }
    match n.strip_prefix(root) {
        Ok(rel) => format!("<proj>/{}", rel.to_string_lossy()),
        Err(_) => n.to_string_lossy().to_string(),
    }
}

/// Text of an error with the colour codes removed and every word that names a .sy file normalised.
fn norm_text(text: &str, cwd: &Path, root: &Path) -> String {
    // strip ANSI colour sequences
    let mut plain = String::with_capacity(text.len());
    let mut it = text.chars().peekable();
    while let Some(c) = it.next() {
        if c == '\u{1b}' && it.peek() == Some(&'[') {
            it.next();
            while let Some(&d) = it.peek() {
                it.next();
                if d.is_ascii_alphabetic() {
                    break;
                }
            }
        } else {
            plain.push(c);
        }
    }
    let mut out = String::with_capacity(plain.len());
    let mut word = String::new();
    let flush = |word: &mut String, out: &mut String| {
        if !word.is_empty() {
            // a word may carry a trailing ":<line>"
            let (path, tail) = match word.find(".sy") {
                Some(i) if word[i + 3..].is_empty() || word[i + 3..].starts_with(':') => (&word[..i + 3], &word[i + 3..]),
                _ => ("", word.as_str()),
            };
            if !path.is_empty() {
                out.push_str(&norm_path(path, cwd, root));
            }
            out.push_str(tail);
            word.clear();
        }
    };
    for c in plain.chars() {
        if c.is_whitespace() || c == '\'' || c == '"' {
            flush(&mut word, &mut out);
            out.push(c);
        } else {
            word.push(c);
        }
    }
    flush(&mut word, &mut out);
    out
}

/// The result with every file name written relative to the project directory (the property allows a compiler
/// to spell file names as they were given; kinds, lines, columns, messages and the order are compared).
fn normalise_result(r: &CompileResult, cwd: &Path, root: &Path) -> CompileResult {
    match r {
        CompileResult::Err { errors, bytes_written } => CompileResult::Err {
            errors: errors
                .iter()
                .map(|e| {
                    let mut e = e.clone();
                    e.file = norm_path(&e.file, cwd, root);
                    e.message = norm_text(&e.message, cwd, root);
                    e.rendered = norm_text(&e.rendered, cwd, root);
                    e
                })
                .collect(),
            bytes_written: *bytes_written,
        },
        other => other.clone(),
    }
}

/// Compile `arg` (spelled exactly as given) from the current directory with sylt's own file reader.
fn disk_compile(arg: &str, no_std: bool) -> CompileResult {
    vharness::project::quiet_panics();
    let mut out: Vec<u8> = Vec::new();
    let a = sylt::Args { args: vec![arg.to_string()], no_std, ..Default::default() };
    let res = {
        let out_ref: &mut dyn std::io::Write = &mut out;
        std::panic::catch_unwind(std::panic::AssertUnwindSafe(|| {
            sylt::compile_with_reader_to_writer(&a, sylt::read_file, out_ref)
        }))
    };
    match res {
        Ok(Ok(())) => CompileResult::Ok { lua: String::from_utf8_lossy(&out).to_string() },
        Ok(Err(errs)) => {
            CompileResult::Err { errors: errs.iter().map(vharness::project::err_info).collect(), bytes_written: out.len() }
        }
        Err(_) => CompileResult::Panic { message: "panic while compiling from disk".into(), bytes_written: out.len() },
    }
}

#[derive(Serialize, Deserialize)]
struct StepOut {
    obs: Obs,
    full: Option<Value>,
}

/// `c16 diskworker <arg> <project dir> <reference digest or ->`: one compilation in THIS process, from its cwd.
fn diskworker(arg: &str, root: &str, reference: &str) {
    let cwd = std::env::current_dir().unwrap_or_else(|e| tool_error(&format!("cwd: {}", e)));
    let arg = arg.to_string();
    let r = std::thread::Builder::new()
        .stack_size(256 << 20)
        .spawn(move || disk_compile(&arg, false))
        .unwrap()
        .join()
        .unwrap_or_else(|_| tool_error("disk worker thread died"));
    let n = normalise_result(&r, &cwd, Path::new(root));
    let obs = observe(&n);
    let full = if obs.digest != reference { Some(json!({"normalised": full_result(&n), "raw": full_result(&r)})) } else { None };
    println!("{}", serde_json::to_string(&StepOut { obs, full }).unwrap());
}

// ---- sequences of compilations in one fresh process -----------------------------------------------------------

#[derive(Serialize, Deserialize)]
struct SeqJob {
    progs: Vec<usize>,
    /// digest of the fresh result of every program (by id), "" when not known yet
    refs: BTreeMap<String, String>,
    /// "prog" (SyltDetContext!Prog) | "x" (SyltDetLayout!XProg)
    #[serde(default)]
    lib: String,
    /// "writer" (compile_with_reader_to_writer) | "ofile" (run_file_with_reader with -o, one path for the whole process)
    #[serde(default)]
    cfg: String,
}

/// `c16 seqworker <job.json> <out.ndjson>`: ONE thread of this process compiles the programs one after the other.
fn seqworker(job_path: &str, out_path: &str) {
    let job: SeqJob = serde_json::from_str(
        &std::fs::read_to_string(job_path).unwrap_or_else(|e| tool_error(&format!("{}: {}", job_path, e))),
    )
    .unwrap_or_else(|e| tool_error(&format!("{}: {}", job_path, e)));
    let out_lua = std::path::PathBuf::from(format!("{}.out.lua", job_path));
    let _ = std::fs::remove_file(&out_lua);
    let out_lua2 = out_lua.clone();
    let outs = std::thread::Builder::new()
        .stack_size(512 << 20)
        .spawn(move || {
            let out_lua = out_lua2;
            let mut rendered: BTreeMap<usize, (Project, bool)> = BTreeMap::new();
            let mut shipped: BTreeMap<usize, usize> = BTreeMap::new();
            let mut outs = Vec::with_capacity(job.progs.len());
            for &id in job.progs.iter() {
                let (project, nostd) = rendered
                    .entry(id)
                    .or_insert_with(|| {
                        if job.lib == "x" {
                            let p = xprog(id);
                            (render_xprog(&p), p.std == 0)
                        } else {
                            let p = prog(id);
                            (render_prog(&p), p.nostd)
                        }
                    })
                    .clone();
                let r = if job.cfg == "ofile" {
                    compile_ofile(&project, nostd, &out_lua)
                } else {
                    vharness::project::compile_opts(
                        &project,
                        &vharness::project::CompileOpts { no_std: nostd, ..Default::default() },
                    )
                    .0
                };
                let obs = observe(&r);
                let reference = job.refs.get(&id.to_string()).cloned().unwrap_or_default();
                // full results: everything when no reference is known, else the first two that differ from it
                let n = shipped.entry(id).or_insert(0);
                let full = if reference.is_empty() || (obs.digest != reference && *n < 2) {
                    *n += 1;
                    Some(full_result(&r))
                } else {
                    None
                };
                outs.push(StepOut { obs, full });
            }
            outs
        })
        .unwrap()
        .join()
        .unwrap_or_else(|_| tool_error("sequence worker thread died"));
    let _ = std::fs::remove_file(&out_lua);
    write_ndjson(Path::new(out_path), &outs);
}

fn run_seq(scratch: &Path, tag: &str, progs: &[usize], refs: &BTreeMap<String, String>) -> Vec<StepOut> {
    run_seq_in(scratch, tag, progs, refs, "prog", "writer")
}

fn run_seq_in(scratch: &Path, tag: &str, progs: &[usize], refs: &BTreeMap<String, String>, lib: &str, cfg: &str) -> Vec<StepOut> {
    let exe = std::env::current_exe().unwrap_or_else(|e| tool_error(&format!("current_exe: {}", e)));
    let job = scratch.join(format!("{}.job.json", tag));
    let out = scratch.join(format!("{}.out.ndjson", tag));
    std::fs::write(&job, serde_json::to_string(&SeqJob { progs: progs.to_vec(), refs: refs.clone(), lib: lib.into(), cfg: cfg.into() }).unwrap())
        .unwrap_or_else(|e| tool_error(&format!("{}: {}", job.display(), e)));
    let st = std::process::Command::new(exe)
        .arg("seqworker")
        .arg(&job)
        .arg(&out)
        .env("VERIF_SEED", format!("{}", seed()))
        .stdout(std::process::Stdio::null())
        .status()
        .unwrap_or_else(|e| tool_error(&format!("cannot start a sequence worker: {}", e)));
    if !st.success() {
        tool_error(&format!("sequence worker {} exited with {:?}", tag, st.code()));
    }
    let outs: Vec<StepOut> = read_ndjson(&out);
    if outs.len() != progs.len() {
        tool_error(&format!("sequence worker {} returned {} of {} results", tag, outs.len(), progs.len()));
    }
    let _ = std::fs::remove_file(&job);
    let _ = std::fs::remove_file(&out);
    outs
}

// ---- equal-but-not-identical keys --------------------------------------------------------------------------------

const SEED_FAMS: &[&str] =
    &["dup-blob-field", "dup-enum-variant", "dup-import", "dup-param", "dup-case-arm", "dup-lit-field", "dup-def"];

fn n_seed_cases() -> usize {
    SEED_FAMS.len() * 4 * 2 * 3 * 3 * 2
}

#[derive(Clone, Debug, Serialize, Deserialize)]
struct SeedCase {
    idx: usize,
    fam: String,
    n: usize,
    m: usize,
    which: usize,
    place: usize,
    sub: usize,
    dup: usize,
    slots: Vec<usize>,
}

fn seed_case(i: usize) -> SeedCase {
    if i < 1 || i > n_seed_cases() {
        tool_error("seed case index out of range");
    }
    let mut x = i - 1;
    let fam = SEED_FAMS[x % SEED_FAMS.len()];
    x /= SEED_FAMS.len();
    let n = 2 + x % 4;
    x /= 4;
    let m = 2 + x % 2;
    x /= 2;
    let which = x % 3;
    x /= 3;
    let place = x % 3;
    x /= 3;
    let sub = x % 2;
    let d = match which {
        0 => 0,
        1 => n / 2,
        _ => n - 1,
    };
    let base: Vec<usize> = (0..n).collect();
    let extra: Vec<usize> = (0..m - 1).map(|_| d).collect();
    let slots: Vec<usize> = match place {
        0 => base[..=d].iter().chain(extra.iter()).chain(base[d + 1..].iter()).cloned().collect(),
        1 => base.iter().chain(extra.iter()).cloned().collect(),
        _ => extra.iter().chain(base.iter()).cloned().collect(),
    };
    SeedCase { idx: i, fam: fam.into(), n, m, which, place, sub, dup: d, slots }
}

fn render_seed(c: &SeedCase) -> Project {
    // copy number of every slot (0 for the first occurrence of a member)
    let mut seen_count = vec![0usize; c.n];
    let copies: Vec<usize> = c
        .slots
        .iter()
        .map(|&j| {
            let k = seen_count[j];
            seen_count[j] += 1;
            k
        })
        .collect();
    let vary = |j: usize, copy: usize| if c.sub == 1 { j + copy } else { j };
    let mut s = Src::new();
    let mut files: Vec<(String, String)> = Vec::new();
    match c.fam.as_str() {
        "dup-blob-field" => {
            s.l("Rec :: blob {");
            for (q, &j) in c.slots.iter().enumerate() {
                s.l(&format!("    {}: {},", NAMES[j], ty(vary(j, copies[q]))));
            }
            s.l("}");
            s.l("start :: fn do");
            s.l(&format!("    r := {}", blob_lit("Rec", &(0..c.n).collect::<Vec<_>>(), &|j| val(j).to_string())));
            s.l("end");
        }
        "dup-enum-variant" => {
            s.l("Choice :: enum");
            for (q, &j) in c.slots.iter().enumerate() {
                let v = vary(j, copies[q]);
                if v % 2 == 0 {
                    s.l(&format!("    {} {}", VNAMES[j], ty(v / 2)));
                } else {
                    s.l(&format!("    {}", VNAMES[j]));
                }
            }
            s.l("end");
            s.l("start :: fn do");
            s.l("    q := 1");
            s.l("end");
        }
        "dup-import" => {
            for j in 0..c.n {
                files.push((format!("mod{}.sy", j), format!("get{} :: fn -> int do\n    ret {}\nend\nval{} :: {}\n", j, j, j, j)));
            }
            for (q, &j) in c.slots.iter().enumerate() {
                if c.sub == 0 {
                    s.l(&format!("use mod{}", j));
                } else if copies[q] % 2 == 0 {
                    s.l(&format!("from mod{} use get{}", j, j));
                } else {
                    s.l(&format!("from mod{} use (get{}, val{})", j, j, j));
                }
            }
            s.l("start :: fn do");
            if c.sub == 0 {
                s.l("    q := mod0.get0()");
            } else {
                s.l("    q := get0()");
            }
            s.l("end");
        }
        "dup-param" => {
            let params: Vec<String> =
                c.slots.iter().enumerate().map(|(q, &j)| format!("{}: {}", NAMES[j], ty(vary(j, copies[q])))).collect();
            s.l(&format!("combine :: fn {} -> int do", params.join(", ")));
            s.l("    ret 1");
            s.l("end");
            s.l("start :: fn do");
            s.l("    q := 1");
            s.l("end");
        }
        "dup-case-arm" => {
            s.l("Choice :: enum");
            for j in 0..c.n {
                if j % 2 == 0 {
                    s.l(&format!("    {} {}", VNAMES[j], ty(j / 2)));
                } else {
                    s.l(&format!("    {}", VNAMES[j]));
                }
            }
            s.l("end");
            s.l("describe :: fn c: Choice -> int do");
            s.l("    ret case c do");
            for (q, &j) in c.slots.iter().enumerate() {
                let value = 10 + vary(j, copies[q]);
                if j % 2 == 0 {
                    s.l(&format!("        {} x -> {} end", VNAMES[j], value));
                } else {
                    s.l(&format!("        {} -> {} end", VNAMES[j], value));
                }
            }
            if c.sub == 1 {
                s.l("        else 99 end");
            }
            s.l("    end");
            s.l("end");
            s.l("start :: fn do");
            s.l(&format!("    q := describe(Choice.{})", VNAMES[1]));
            s.l("end");
        }
        "dup-lit-field" => {
            s.l(&blob_decl("Rec", "", &(0..c.n).collect::<Vec<_>>(), &|j| ty(j).to_string()));
            let mut lit = String::from("Rec { ");
            for (q, &j) in c.slots.iter().enumerate() {
                // a copy keeps the type of the field; with sub = 1 its value is written differently
                let v = if c.sub == 1 && copies[q] > 0 { val(j + 4 * copies[q]) } else { val(j) };
                lit.push_str(&format!("{}: {}, ", NAMES[j], v));
            }
            lit.push('}');
            s.l("start :: fn do");
            s.l(&format!("    r := {}", lit));
            s.l("end");
        }
        "dup-def" => {
            // global definitions: constants (even members) and functions (odd members); a copy with sub = 1 is of the other sort
            for (q, &j) in c.slots.iter().enumerate() {
                if vary(j, copies[q]) % 2 == 0 {
                    s.l(&format!("item{} :: {}", j, j + 10 * copies[q]));
                } else {
                    s.l(&format!("item{} :: fn -> int do\n    ret {}\nend", j, j + 10 * copies[q]));
                }
            }
            s.l("start :: fn do");
            s.l("    q := 1");
            s.l("end");
        }
        _ => tool_error("unknown seed family"),
    }
    files.push(("main.sy".to_string(), s.s.clone()));
    multi(files)
}

// ---- the layout of a declaration (SyltDetLayout!LineCase) -----------------------------------------------------

const LINE_FAMS: &[&str] = &[
    "blob-types",
    "enum-types",
    "blob-generics",
    "enum-generics",
    "blob-mixed",
    "enum-mixed",
    "blob-dup",
    "enum-dup",
    "lit-types",
    "lit-missing",
    "case-missing",
    "blob-ok",
    "enum-ok",
];
const LNK: &[(usize, usize)] = &[(2, 2), (3, 2), (3, 3), (4, 2), (4, 3), (5, 2), (5, 3), (6, 2), (6, 3)];
const N_LAYOUTS: usize = 6;

fn n_line_cases() -> usize {
    LINE_FAMS.len() * LNK.len() * N_LAYOUTS * 4 * 2
}

#[derive(Clone, Debug, Serialize, Deserialize)]
struct LineCase {
    idx: usize,
    fam: String,
    n: usize,
    k: usize,
    layout: usize,
    ord: usize,
    pos: usize,
    errpos: Vec<usize>,
    perm: Vec<usize>,
    /// lines[q] = line (header line = 0) of the q-th written member
    lines: Vec<usize>,
    /// erroneous members that share their line with another erroneous member
    same: usize,
    expect: String,
}

/// SyltDetLayout!LineOf
fn line_of(n: usize, layout: usize) -> Vec<usize> {
    (1..=n)
        .map(|q| match layout {
            0 => 0,
            1 => 1,
            2 => 1 + (q - 1) / 2,
            3 => {
                if q == 1 {
                    1
                } else {
                    2
                }
            }
            4 => {
                if q == 1 {
                    0
                } else {
                    1
                }
            }
            _ => q,
        })
        .collect()
}

fn line_case(i: usize) -> LineCase {
    if i < 1 || i > n_line_cases() {
        tool_error("line case index out of range");
    }
    let mut x = i - 1;
    let fam = LINE_FAMS[x % LINE_FAMS.len()];
    x /= LINE_FAMS.len();
    let (n, k) = LNK[x % LNK.len()];
    x /= LNK.len();
    let layout = x % N_LAYOUTS;
    x /= N_LAYOUTS;
    let ord = x % 4;
    x /= 4;
    let pos = x % 2;
    let mut errpos: Vec<usize> = (0..k).map(|j| (pos + j * (n / k)) % n).collect();
    errpos.sort();
    let p = perm(n, ord);
    let lines = line_of(n, layout);
    let line_of_member = |e: usize| lines[p.iter().position(|&j| j == e).unwrap()];
    let same = errpos
        .iter()
        .filter(|&&e| errpos.iter().any(|&e2| e2 != e && line_of_member(e2) == line_of_member(e)))
        .count();
    LineCase {
        idx: i,
        fam: fam.into(),
        n,
        k,
        layout,
        ord,
        pos,
        errpos,
        perm: p,
        lines,
        same,
        expect: if fam.ends_with("-ok") { "ok" } else { "err" }.into(),
    }
}

/// `header m1, m2,\n    m3 closer`: the members distributed over lines as `lines` says (only the first
/// members.len() entries are used); `own_closer`: the closer stands on a line of its own.
fn lay_out(indent: &str, header: &str, members: &[String], closer: &str, lines: &[usize], own_closer: bool) -> String {
    let mut s = format!("{}{}", indent, header);
    let mut cur = 0usize;
    let mut first_on_line = true;
    for (q, m) in members.iter().enumerate() {
        if lines[q] != cur {
            if q > 0 {
                s.push(',');
            }
            s.push('\n');
            s.push_str(indent);
            s.push_str("    ");
            s.push_str(m);
            cur = lines[q];
        } else {
            s.push_str(if first_on_line { " " } else { ", " });
            s.push_str(m);
        }
        first_on_line = false;
    }
    if own_closer {
        s.push('\n');
        s.push_str(indent);
        s.push_str(closer);
    } else {
        s.push(' ');
        s.push_str(closer);
    }
    s.push('\n');
    s
}

fn render_line(c: &LineCase) -> Project {
    let own_closer = c.layout != 0 && c.layout != 4;
    let rank = |j: usize| c.errpos.iter().position(|&e| e == j);
    let bad = |j: usize| rank(j).is_some();
    let is_enum = c.fam.starts_with("enum-") || c.fam == "case-missing";
    // the type text of logical member j of the DECLARATION
    let decl_ty = |j: usize| -> String {
        let plain = if is_enum {
            if j % 2 == 0 {
                ty(j / 2).to_string()
            } else {
                String::new()
            }
        } else {
            ty(j).to_string()
        };
        match (c.fam.as_str(), rank(j)) {
            ("blob-types", Some(_)) | ("enum-types", Some(_)) => format!("Nope{}", j),
            ("blob-generics", Some(_)) | ("enum-generics", Some(_)) => format!("*u{}", j),
            ("blob-mixed", Some(r)) | ("enum-mixed", Some(r)) => {
                if r % 2 == 0 {
                    format!("Nope{}", j)
                } else {
                    format!("*u{}", j)
                }
            }
            ("blob-ok", Some(0)) | ("enum-ok", Some(0)) => "*t".to_string(),
            _ => plain,
        }
    };
    let decl_name = |j: usize| -> &'static str {
        let j = if c.fam.ends_with("-dup") && bad(j) { c.errpos[0] } else { j };
        if is_enum {
            VNAMES[j]
        } else {
            NAMES[j]
        }
    };
    let members: Vec<String> = c
        .perm
        .iter()
        .map(|&j| {
            let t = decl_ty(j);
            if is_enum {
                format!("{} {}", decl_name(j), t).trim_end().to_string()
            } else {
                format!("{}: {}", decl_name(j), t)
            }
        })
        .collect();
    let generics = if c.fam.ends_with("-ok") { "(*t)" } else { "" };
    let mut s = Src::new();
    if is_enum {
        s.s.push_str(&lay_out("", &format!("Choice :: enum{}", generics), &members, "end", &c.lines, own_closer));
    } else {
        s.s.push_str(&lay_out("", &format!("Rec :: blob{} {{", generics), &members, "}", &c.lines, own_closer));
    }
    let lit_order = perm(c.n, (c.ord + 1) % 4);
    match c.fam.as_str() {
        "lit-types" | "lit-missing" | "blob-ok" => {
            let fields: Vec<String> = lit_order
                .iter()
                .filter(|&&j| !(c.fam == "lit-missing" && bad(j)))
                .map(|&j| format!("{}: {}", NAMES[j], if c.fam == "lit-types" && bad(j) { wrong(j) } else { val(j) }))
                .collect();
            s.l("start :: fn do");
            s.s.push_str(&lay_out("    ", "r := Rec {", &fields, "}", &c.lines, own_closer));
            if c.fam == "blob-ok" {
                for &j in c.perm.iter() {
                    s.l(&format!("    v{} := r.{}", j, NAMES[j]));
                }
            } else {
                s.l("    q := 1");
            }
            s.l("end");
        }
        "case-missing" | "enum-ok" => {
            s.l("describe :: fn c: Choice -> int do");
            s.l("    ret case c do");
            for &j in lit_order.iter() {
                if c.fam == "case-missing" && bad(j) {
                    continue;
                }
                if j % 2 == 0 || (c.fam == "enum-ok" && rank(j) == Some(0)) {
                    s.l(&format!("        {} x -> {} end", VNAMES[j], j + 10));
                } else {
                    s.l(&format!("        {} -> {} end", VNAMES[j], j + 10));
                }
            }
            s.l("    end");
            s.l("end");
            s.l("start :: fn do");
            for &j in c.perm.iter() {
                if c.fam == "case-missing" && bad(j) {
                    continue;
                }
                if c.fam == "enum-ok" && rank(j) == Some(0) {
                    s.l(&format!("    q{} := describe(Choice.{} 7)", j, VNAMES[j]));
                } else if j % 2 == 0 {
                    s.l(&format!("    q{} := describe(Choice.{} {})", j, VNAMES[j], val(j / 2)));
                } else {
                    s.l(&format!("    q{} := describe(Choice.{})", j, VNAMES[j]));
                }
            }
            s.l("end");
        }
        _ => {
            s.l("start :: fn do");
            s.l("    q := 1");
            s.l("end");
        }
    }
    single(s.s.clone())
}

// ---- programs that share names (SyltDetLayout!XProg, PairScenario) --------------------------------------------

const X_RADIX: &[usize] = &[5, 2, 3, 3, 2, 2]; // defs, stem, kind, site, locl, std
/// (shorter neighbour S, longer neighbour L, the used name M, a local name that beats every global)
const STEMS: &[(&str, &str, &str, &str)] = &[("count", "counter", "countr", "contr"), ("total", "totals", "totl", "tot")];
/// (axis, step) - SyltDetLayout!XNbrAxes (1-based axes)
const X_NBR_AXES: &[(usize, usize)] =
    &[(1, 1), (1, 2), (1, 3), (1, 4), (2, 1), (3, 1), (3, 2), (4, 1), (4, 2), (5, 1), (6, 1)];

fn n_x() -> usize {
    X_RADIX.iter().product()
}
fn x_weight(a: usize) -> usize {
    X_RADIX[..a - 1].iter().product()
}
fn x_digit(i: usize, a: usize) -> usize {
    ((i - 1) / x_weight(a)) % X_RADIX[a - 1]
}

#[derive(Clone, Debug, Serialize, Deserialize)]
struct XProg {
    id: usize,
    defs: usize,
    stem: usize,
    kind: usize,
    site: usize,
    locl: usize,
    std: usize,
    expect: String,
}

fn xprog(i: usize) -> XProg {
    if i < 1 || i > n_x() {
        tool_error(&format!("program id {} outside the name-sharing library", i));
    }
    XProg {
        id: i,
        defs: x_digit(i, 1),
        stem: x_digit(i, 2),
        kind: x_digit(i, 3),
        site: x_digit(i, 4),
        locl: x_digit(i, 5),
        std: x_digit(i, 6),
        expect: if x_digit(i, 1) == 4 { "ok" } else { "err" }.into(),
    }
}

fn x_nbr_at(t: usize, k: usize) -> usize {
    let (a, d) = X_NBR_AXES[k - 1];
    (t - x_digit(t, a) * x_weight(a)) + ((x_digit(t, a) + d) % X_RADIX[a - 1]) * x_weight(a)
}
fn x_far(t: usize) -> usize {
    ((t - 1 + 131) % n_x()) + 1
}
fn n_pair_shapes() -> usize {
    3 + X_NBR_AXES.len() + 4 + 2
}

/// SyltDetLayout!PairScenario and PairCfg
fn pair_scenario(t: usize, s: usize) -> (Vec<usize>, &'static str) {
    let nn = X_NBR_AXES.len();
    let target_cfg = if xprog(t).expect == "ok" { "ofile" } else { "writer" };
    if s == 1 {
        (vec![t], "writer")
    } else if s == 2 {
        (vec![t], "ofile")
    } else if s == 3 {
        (vec![t, t], "ofile")
    } else if s <= 3 + nn {
        (vec![x_nbr_at(t, s - 3), t], target_cfg)
    } else if s <= 3 + nn + 4 {
        (vec![x_nbr_at(t, s - 3 - nn), x_nbr_at(t, ((s - 3 - nn) % 4) + 1), t], target_cfg)
    } else if s == 3 + nn + 5 {
        (vec![x_far(t), t], target_cfg)
    } else {
        (vec![x_far(t), t, x_nbr_at(t, 1), t], target_cfg)
    }
}

fn render_xprog(p: &XProg) -> Project {
    let cap = |w: &str| -> String {
        if p.kind == 2 {
            let mut c = w.chars();
            match c.next() {
                Some(f) => f.to_uppercase().collect::<String>() + c.as_str(),
                None => String::new(),
            }
        } else {
            w.to_string()
        }
    };
    let (s_name, l_name, m_name, loc_name) = STEMS[p.stem];
    let (s_name, l_name, m_name, loc_name) = (cap(s_name), cap(l_name), cap(m_name), cap(loc_name));
    let def = |name: &str, v: usize| -> String {
        match p.kind {
            0 => format!("{} :: {}\n", name, v),
            1 => format!("{} :: fn -> int do\n    ret {}\nend\n", name, v),
            _ => format!("{} :: blob {{ v: int }}\n", name),
        }
    };
    let mut defs = String::new();
    match p.defs {
        0 => defs.push_str(&def(&l_name, 2)),
        1 => defs.push_str(&def(&s_name, 1)),
        2 => {
            defs.push_str(&def(&l_name, 2));
            defs.push_str(&def(&s_name, 1));
        }
        3 => {}
        _ => defs.push_str(&def(&m_name, 3)),
    }
    let q = if p.site == 2 { "h1." } else { "" };
    let mut work = Src::new();
    work.l("work :: fn -> int do");
    if p.locl == 1 {
        work.l(&format!("    {} := 5", loc_name));
    }
    match p.kind {
        0 => {
            work.l(&format!("    x := {}{} + 1", q, m_name));
        }
        1 => {
            work.l(&format!("    x := {}{}() + 1", q, m_name));
        }
        _ => {
            work.l(&format!("    y := {}{} {{ v: 1 }}", q, m_name));
            work.l("    x := y.v");
        }
    }
    work.l("    ret x");
    work.l("end");
    let mut files = Vec::new();
    let mut main = Src::new();
    if p.site >= 1 {
        main.l("use h1");
        let mut h = Src::new();
        h.s.push_str(&defs);
        h.l("one1 :: fn -> int do\n    ret 1\nend");
        if p.site == 1 {
            h.s.push_str(&work.s);
        }
        files.push(("h1.sy".to_string(), h.s.clone()));
    } else {
        main.s.push_str(&defs);
    }
    if p.site != 1 {
        main.s.push_str(&work.s);
    }
    main.l("start :: fn do");
    main.l(if p.site == 1 { "    t := h1.work()" } else { "    t := work()" });
    if p.std == 1 {
        main.l("    print(t)");
    }
    main.l("end");
    files.push(("main.sy".to_string(), main.s.clone()));
    multi(files)
}

/// Compile through `sylt::run_file_with_reader` with `-o <out>` (what `sylt FILE -o OUT` does); the Lua is what the
/// file holds afterwards. The file is NOT removed first: every compilation of a process writes to the same path.
fn compile_ofile(p: &Project, no_std: bool, out: &Path) -> CompileResult {
    vharness::project::quiet_panics();
    let main = Project::abs(&p.main);
    let args = sylt::Args {
        args: vec![main.to_string_lossy().to_string()],
        no_std,
        output: Some(out.to_path_buf()),
        ..Default::default()
    };
    let reader = |path: &Path| -> Result<String, sylt_common::error::Error> {
        match p.files.get(&Project::rel(path)) {
            Some(s) => Ok(s.clone()),
            None => Err(sylt_common::error::Error::FileNotFound(path.to_path_buf())),
        }
    };
    let res = std::panic::catch_unwind(std::panic::AssertUnwindSafe(|| sylt::run_file_with_reader(&args, reader)));
    match res {
        Ok(Ok(())) => match std::fs::read(out) {
            Ok(bytes) => CompileResult::Ok { lua: String::from_utf8_lossy(&bytes).to_string() },
            Err(e) => tool_error(&format!("{}: {}", out.display(), e)),
        },
        Ok(Err(errs)) => CompileResult::Err { errors: errs.iter().map(vharness::project::err_info).collect(), bytes_written: 0 },
        Err(_) => CompileResult::Panic { message: "panic while compiling with -o".into(), bytes_written: 0 },
    }
}

// ---- the context recorder --------------------------------------------------------------------------------------

struct CtxOut {
    trace: Vec<Value>,
    groups: Vec<Value>,
    fulls: Vec<Value>,
}

fn obs_into(rec: &mut Value, o: &Obs) {
    rec["class"] = json!(o.class);
    rec["digest"] = json!(o.digest);
    rec["nerr"] = json!(o.nerr);
    rec["d_first"] = json!(o.d_first);
    rec["d_locs"] = json!(o.d_locs);
    rec["d_set"] = json!(o.d_set);
    rec["size"] = json!(o.size);
}

fn parse_ids(arg: &str, max: usize) -> Vec<usize> {
    if arg == "all" {
        return (1..=max).collect();
    }
    arg.split(',')
        .filter(|x| !x.is_empty())
        .map(|x| {
            let v: usize = x.parse().unwrap_or_else(|_| tool_error(&format!("bad id {:?}", x)));
            if v < 1 || v > max {
                tool_error(&format!("id {} out of range 1..{}", v, max));
            }
            v
        })
        .collect()
}

/// fresh run of every program of the library, each in its own process: reference digests (and full results)
fn fresh_refs(scratch: &Path, ids: &[usize]) -> (BTreeMap<String, String>, BTreeMap<usize, StepOut>) {
    let none = BTreeMap::new();
    let outs = vharness::pool::par_map(ids, |_, &id| {
        let mut o = run_seq(scratch, &format!("fresh-{}", id), &[id], &none);
        (id, o.remove(0))
    });
    let mut refs = BTreeMap::new();
    let mut full = BTreeMap::new();
    for (id, o) in outs {
        refs.insert(id.to_string(), o.obs.digest.clone());
        full.insert(id, o);
    }
    (refs, full)
}

/// kind "hist": for every target t, the processes HistScenario(t, s) for the selected shapes s
fn ctx_hist(scratch: &Path, shapes: &str, targets: &[usize]) -> CtxOut {
    let nw = warm_ids().len();
    let scens: Vec<usize> = if shapes == "all" { (1..=n_shapes()).collect() } else { (1..=2 + 2 * nw).collect() };
    // phase 1: every program fresh (these ARE the shape-1 scenarios of the targets)
    let all_ids: Vec<usize> = (1..=n_prog()).collect();
    let (refs, fresh) = fresh_refs(scratch, &all_ids);
    // phase 2: all other scenarios, one process each
    let mut jobs: Vec<(usize, usize)> = Vec::new();
    for &t in targets {
        for &s in scens.iter().filter(|&&s| s != 1) {
            jobs.push((t, s));
        }
    }
    let results = vharness::pool::par_map(&jobs, |_, &(t, s)| {
        let h = hist_scenario(t, s);
        (t, s, run_seq(scratch, &format!("h-{}-{}", t, s), &h, &refs))
    });
    let mut by_ts: BTreeMap<(usize, usize), Vec<StepOut>> = BTreeMap::new();
    for (t, s, o) in results {
        by_ts.insert((t, s), o);
    }
    let mut out = CtxOut { trace: Vec::new(), groups: Vec::new(), fulls: Vec::new() };
    for (gi, &t) in targets.iter().enumerate() {
        let g = gi + 1;
        let first = out.trace.len() + 1;
        let mut j = 0;
        for (si, &s) in scens.iter().enumerate() {
            let h = hist_scenario(t, s);
            let fresh_step;
            let steps: Vec<&StepOut> = if s == 1 {
                fresh_step = vec![fresh.get(&t).unwrap()];
                fresh_step
            } else {
                by_ts.get(&(t, s)).unwrap().iter().collect()
            };
            for (q, o) in steps.iter().enumerate() {
                j += 1;
                let mut rec = json!({"g": g, "j": j, "si": si + 1, "scen": s, "step": q + 1, "prog": h[q],
                                     "nostd": prog(h[q]).nostd, "before": h[..q].to_vec()});
                obs_into(&mut rec, &o.obs);
                out.trace.push(rec);
                if let Some(f) = &o.full {
                    if s != 1 {
                        out.fulls.push(json!({"g": g, "j": j, "input": h[q], "full": f}));
                    }
                }
            }
        }
        out.groups.push(json!({"g": g, "first": first, "n": j, "key": t, "scens": scens, "spec": format!("h:{}", t)}));
    }
    for (id, o) in fresh.iter() {
        out.fulls.push(json!({"reference": true, "input": id, "full": o.full}));
    }
    out
}

/// kind "long": ONE thread of one process compiles LongInput(s, 1..len)
fn ctx_long(scratch: &Path, len_std: usize, len_nostd: usize, scens: &[usize]) -> CtxOut {
    let none = BTreeMap::new();
    // references: the first occurrence of every program inside the history itself (shipped by the worker when
    // no reference is given) - so give none and let the worker ship the first result and the first two that differ
    let results = vharness::pool::par_map(scens, |_, &s| {
        let pat = long_pattern(s);
        let len = if s >= 4 { len_nostd } else { len_std };
        let seq: Vec<usize> = (0..len).map(|q| pat[q % pat.len()]).collect();
        // reference = what the first round of the pattern gives, taken from a short run of its own
        let head: Vec<usize> = pat.clone();
        let first = run_seq(scratch, &format!("lhead-{}", s), &head, &none);
        let mut refs: BTreeMap<String, String> = BTreeMap::new();
        let mut ref_full: BTreeMap<usize, Value> = BTreeMap::new();
        for (q, o) in first.iter().enumerate() {
            refs.entry(head[q].to_string()).or_insert_with(|| o.obs.digest.clone());
            if let Some(f) = &o.full {
                ref_full.entry(head[q]).or_insert_with(|| f.clone());
            }
        }
        (s, seq.clone(), run_seq(scratch, &format!("l-{}", s), &seq, &refs), ref_full)
    });
    let mut out = CtxOut { trace: Vec::new(), groups: Vec::new(), fulls: Vec::new() };
    for (gi, (s, seq, outs, ref_full)) in results.into_iter().enumerate() {
        let g = gi + 1;
        let first = out.trace.len() + 1;
        for (q, o) in outs.iter().enumerate() {
            let mut rec = json!({"g": g, "j": q + 1, "step": q + 1, "prog": seq[q], "nostd": s >= 4});
            obs_into(&mut rec, &o.obs);
            out.trace.push(rec);
            if let Some(f) = &o.full {
                out.fulls.push(json!({"g": g, "j": q + 1, "input": seq[q], "full": f}));
            }
        }
        for (id, f) in ref_full {
            out.fulls.push(json!({"reference": true, "g": g, "input": id, "full": f}));
        }
        out.groups.push(json!({"g": g, "first": first, "n": outs.len(), "key": s, "pattern": long_pattern(s),
                               "spec": format!("l:{}", s)}));
    }
    out
}

/// kind "path": every project written to disk, compiled once per spelling, each in its own process and cwd
fn ctx_path(scratch: &Path, projects: &[usize]) -> CtxOut {
    let exe = std::env::current_exe().unwrap_or_else(|e| tool_error(&format!("current_exe: {}", e)));
    let disk = scratch.join("disk");
    let mut cases = Vec::new();
    for &i in projects {
        let c = disk_case(i);
        let files = render_disk(&c);
        let s_dir = disk.join(format!("d{:03}", i));
        let p_dir = s_dir.join("proj");
        for (rel, text) in files.iter() {
            let path = p_dir.join(rel);
            std::fs::create_dir_all(path.parent().unwrap()).unwrap_or_else(|e| tool_error(&format!("{}: {}", path.display(), e)));
            std::fs::write(&path, text).unwrap_or_else(|e| tool_error(&format!("{}: {}", path.display(), e)));
        }
        std::fs::create_dir_all(p_dir.join("w")).unwrap();
        cases.push((i, c, files, s_dir, p_dir));
    }
    let subst = |t: &str, s_dir: &Path, p_dir: &Path| t.replace("$P", &p_dir.to_string_lossy()).replace("$S", &s_dir.to_string_lossy());
    let run = |q: usize, sp: usize, reference: &str| -> StepOut {
        let (_, _, _, s_dir, p_dir) = &cases[q];
        let (_, cwd, arg) = SPELLINGS[sp];
        let o = std::process::Command::new(&exe)
            .arg("diskworker")
            .arg(subst(arg, s_dir, p_dir))
            .arg(p_dir)
            .arg(reference)
            .current_dir(subst(cwd, s_dir, p_dir))
            .env("VERIF_SEED", format!("{}", seed()))
            .output()
            .unwrap_or_else(|e| tool_error(&format!("cannot start a disk worker: {}", e)));
        if !o.status.success() {
            tool_error(&format!("disk worker exited with {:?}: {}", o.status.code(), String::from_utf8_lossy(&o.stderr)));
        }
        serde_json::from_str(String::from_utf8_lossy(&o.stdout).trim())
            .unwrap_or_else(|e| tool_error(&format!("disk worker output: {}", e)))
    };
    // phase 1: the reference spelling; phase 2: the others (full results only where they differ)
    let idx: Vec<usize> = (0..cases.len()).collect();
    let refs = vharness::pool::par_map(&idx, |_, &q| run(q, 0, "-"));
    let mut jobs: Vec<(usize, usize)> = Vec::new();
    for q in 0..cases.len() {
        for sp in 1..SPELLINGS.len() {
            jobs.push((q, sp));
        }
    }
    let rest = vharness::pool::par_map(&jobs, |_, &(q, sp)| run(q, sp, &refs[q].obs.digest));
    let mut by: BTreeMap<(usize, usize), StepOut> = BTreeMap::new();
    for ((q, sp), o) in jobs.iter().cloned().zip(rest.into_iter()) {
        by.insert((q, sp), o);
    }
    let mut out = CtxOut { trace: Vec::new(), groups: Vec::new(), fulls: Vec::new() };
    for (q, (i, c, files, _, _)) in cases.iter().enumerate() {
        let g = q + 1;
        let first = out.trace.len() + 1;
        for sp in 0..SPELLINGS.len() {
            let o = if sp == 0 { &refs[q] } else { by.get(&(q, sp)).unwrap() };
            let (name, cwd, arg) = SPELLINGS[sp];
            let mut rec = json!({"g": g, "j": sp + 1, "spelling": name, "cwd": cwd, "arg": arg});
            obs_into(&mut rec, &o.obs);
            out.trace.push(rec);
            if let Some(f) = &o.full {
                out.fulls.push(json!({"g": g, "j": sp + 1, "input": i, "full": f}));
            }
        }
        out.groups.push(json!({"g": g, "first": first, "n": SPELLINGS.len(), "key": i, "case": c, "files": files,
                               "spec": format!("d:{}", i)}));
    }
    let _ = std::fs::remove_dir_all(&disk);
    out
}

/// kind "seed": every case compiled `nseeds` times without std, each time with hash keys no run had before
fn ctx_seed(nseeds: usize, cases: &[usize]) -> CtxOut {
    let items: Vec<(Project, Value, String)> = cases
        .iter()
        .map(|&i| {
            let c = seed_case(i);
            (render_seed(&c), serde_json::to_value(&c).unwrap(), format!("s:{}", i))
        })
        .collect();
    ctx_repeat(nseeds, cases, items)
}

/// kind "line": every LineCase compiled `nseeds` times without std, fresh hash keys every time
fn ctx_line(nseeds: usize, cases: &[usize]) -> CtxOut {
    let items: Vec<(Project, Value, String)> = cases
        .iter()
        .map(|&i| {
            let c = line_case(i);
            (render_line(&c), serde_json::to_value(&c).unwrap(), format!("y:{}", i))
        })
        .collect();
    ctx_repeat(nseeds, cases, items)
}

/// one group per case: (project, case fields, spec) compiled `nseeds` times without std
fn ctx_repeat(nseeds: usize, cases: &[usize], items: Vec<(Project, Value, String)>) -> CtxOut {
    let projects: Vec<Project> = items.iter().map(|x| x.0.clone()).collect();
    let mut rng = rand::rngs::StdRng::seed_from_u64(seed() ^ 0x5EED);
    let opts = vharness::project::CompileOpts { no_std: true, ..Default::default() };
    // run 1 of every case first: its digest is the reference that decides which later results are kept whole
    // (keeping all of them costs gigabytes in the thorough tier)
    let idx: Vec<usize> = (0..cases.len()).collect();
    let firsts = vharness::pool::par_map(&idx, |_, &q| {
        let (r, _) = vharness::project::compile_opts(&projects[q], &opts);
        (observe(&r), r)
    });
    let mut schedule: Vec<(usize, usize)> = Vec::new();
    for run in 2..=nseeds {
        let mut order: Vec<usize> = (0..cases.len()).collect();
        order.shuffle(&mut rng);
        schedule.extend(order.into_iter().map(|q| (q, run)));
    }
    let results = vharness::pool::par_map(&schedule, |_, &(q, run)| {
        let (r, _) = vharness::project::compile_opts(&projects[q], &opts);
        let o = observe(&r);
        let keep = if o.digest != firsts[q].0.digest { Some(r) } else { None };
        (q, run, o, keep)
    });
    let mut obs: Vec<Vec<Option<Obs>>> = (0..cases.len()).map(|_| (0..nseeds).map(|_| None).collect()).collect();
    let mut first: Vec<Option<CompileResult>> = (0..cases.len()).map(|_| None).collect();
    let mut other: Vec<Vec<(usize, CompileResult)>> = (0..cases.len()).map(|_| Vec::new()).collect();
    for (q, (o, r)) in firsts.into_iter().enumerate() {
        first[q] = Some(r);
        obs[q][0] = Some(o);
    }
    for (q, run, o, keep) in results {
        if let Some(r) = keep {
            if other[q].len() < 4 {
                other[q].push((run, r));
            }
        }
        obs[q][run - 1] = Some(o);
    }
    let mut out = CtxOut { trace: Vec::new(), groups: Vec::new(), fulls: Vec::new() };
    for (q, &i) in cases.iter().enumerate() {
        let g = q + 1;
        let first_idx = out.trace.len() + 1;
        let d1 = obs[q][0].as_ref().unwrap().digest.clone();
        let mut counts: BTreeMap<String, usize> = BTreeMap::new();
        for run in 1..=nseeds {
            let o = obs[q][run - 1].as_ref().unwrap();
            *counts.entry(o.digest.clone()).or_insert(0) += 1;
            let mut rec = json!({"g": g, "j": run, "run": run});
            obs_into(&mut rec, o);
            out.trace.push(rec);
        }
        out.fulls.push(json!({"g": g, "j": 1, "input": i, "full": full_result(first[q].as_ref().unwrap())}));
        other[q].sort_by_key(|x| x.0);
        if let Some((run, r)) = other[q].iter().find(|(run, _)| obs[q][run - 1].as_ref().unwrap().digest != d1) {
            out.fulls.push(json!({"g": g, "j": run, "input": i, "full": full_result(r)}));
        }
        out.groups.push(json!({"g": g, "first": first_idx, "n": nseeds, "key": i, "case": items[q].1,
                               "files": projects[q].files, "digest_counts": counts, "spec": items[q].2}));
    }
    out
}

/// kind "pair": for every target t of the name-sharing library, the processes PairScenario(t, s) for ALL shapes s
fn ctx_pair(scratch: &Path, targets: &[usize]) -> CtxOut {
    let none = BTreeMap::new();
    let shapes = n_pair_shapes();
    // phase 1: every program that occurs in a scenario fresh, into a writer (for the targets these ARE the shape-1 scenarios)
    let mut occurring: std::collections::BTreeSet<usize> = std::collections::BTreeSet::new();
    for &t in targets {
        for s in 1..=shapes {
            occurring.extend(pair_scenario(t, s).0);
        }
    }
    let all_ids: Vec<usize> = occurring.into_iter().collect();
    let fresh_outs = vharness::pool::par_map(&all_ids, |_, &id| {
        let mut o = run_seq_in(scratch, &format!("xfresh-{}", id), &[id], &none, "x", "writer");
        (id, o.remove(0))
    });
    let mut refs: BTreeMap<String, String> = BTreeMap::new();
    let mut fresh: BTreeMap<usize, StepOut> = BTreeMap::new();
    for (id, o) in fresh_outs {
        refs.insert(id.to_string(), o.obs.digest.clone());
        fresh.insert(id, o);
    }
    // phase 2: all other scenarios, one process each
    let mut jobs: Vec<(usize, usize)> = Vec::new();
    for &t in targets {
        for s in 2..=shapes {
            jobs.push((t, s));
        }
    }
    let results = vharness::pool::par_map(&jobs, |_, &(t, s)| {
        let (h, cfg) = pair_scenario(t, s);
        (t, s, run_seq_in(scratch, &format!("x-{}-{}", t, s), &h, &refs, "x", cfg))
    });
    let mut by_ts: BTreeMap<(usize, usize), Vec<StepOut>> = BTreeMap::new();
    for (t, s, o) in results {
        by_ts.insert((t, s), o);
    }
    let mut out = CtxOut { trace: Vec::new(), groups: Vec::new(), fulls: Vec::new() };
    let mut need_ref: std::collections::BTreeSet<usize> = targets.iter().take(3).cloned().collect();
    for (gi, &t) in targets.iter().enumerate() {
        let g = gi + 1;
        let first = out.trace.len() + 1;
        let mut j = 0;
        for s in 1..=shapes {
            let (h, cfg) = pair_scenario(t, s);
            let fresh_step;
            let steps: Vec<&StepOut> = if s == 1 {
                fresh_step = vec![fresh.get(&t).unwrap()];
                fresh_step
            } else {
                by_ts.get(&(t, s)).unwrap().iter().collect()
            };
            for (q, o) in steps.iter().enumerate() {
                j += 1;
                let mut rec = json!({"g": g, "j": j, "scen": s, "step": q + 1, "prog": h[q], "cfg": cfg,
                                     "nostd": xprog(h[q]).std == 0, "before": h[..q].to_vec()});
                obs_into(&mut rec, &o.obs);
                out.trace.push(rec);
                if s != 1 {
                    if let Some(f) = &o.full {
                        out.fulls.push(json!({"g": g, "j": j, "input": h[q], "full": f}));
                        need_ref.insert(h[q]);
                    }
                }
            }
        }
        out.groups.push(json!({"g": g, "first": first, "n": j, "key": t, "case": xprog(t), "spec": format!("x:{}", t)}));
    }
    for id in need_ref {
        out.fulls.push(json!({"reference": true, "input": id, "full": fresh.get(&id).unwrap().full}));
    }
    out
}

fn ctx_main(args: &[String]) {
    // c16 ctx <kind> <outdir> <params..>
    let usage = "usage: c16 ctx hist <outdir> <all|required> <targets: all|ids> | ctx long <outdir> <len std> <len no-std> <all|ids> | \
                 ctx path <outdir> <all|ids> | ctx seed <outdir> <nseeds> <count|all|ids:..> | \
                 ctx line <outdir> <nseeds> <count|all|ids:..> | ctx pair <outdir> <count|all|ids:..>";
    if args.len() < 2 {
        tool_error(usage);
    }
    let kind = args[0].as_str();
    let outdir = std::path::PathBuf::from(&args[1]);
    let _ = std::fs::create_dir_all(&outdir);
    let outdir = std::fs::canonicalize(&outdir).unwrap_or_else(|e| tool_error(&format!("{}: {}", outdir.display(), e)));
    let scratch = outdir.join(format!("c16-scratch-{}", kind));
    let _ = std::fs::remove_dir_all(&scratch);
    std::fs::create_dir_all(&scratch).unwrap_or_else(|e| tool_error(&format!("{}: {}", scratch.display(), e)));
    let mut out = match (kind, args.len()) {
        ("hist", 4) => ctx_hist(&scratch, &args[2], &parse_ids(&args[3], n_prog())),
        ("long", 5) => {
            let a: usize = args[2].parse().unwrap_or_else(|_| tool_error(usage));
            let b: usize = args[3].parse().unwrap_or_else(|_| tool_error(usage));
            ctx_long(&scratch, a, b, &parse_ids(&args[4], N_LONG))
        }
        ("path", 3) => ctx_path(&scratch, &parse_ids(&args[2], N_DISK)),
        ("pair", 3) => {
            let total = n_x();
            let targets: Vec<usize> = if let Some(ids) = args[2].strip_prefix("ids:") {
                parse_ids(ids, total)
            } else if args[2] == "all" {
                (1..=total).collect()
            } else {
                // stratified: the same number of targets for every value of the axis `defs`
                let count: usize = args[2].parse().unwrap_or_else(|_| tool_error(usage));
                let per = (count + X_RADIX[0] - 1) / X_RADIX[0];
                let mut rng = rand::rngs::StdRng::seed_from_u64(seed() ^ 0x9A12);
                let mut idx = Vec::new();
                for d in 0..X_RADIX[0] {
                    let mut rest: Vec<usize> = (0..total / X_RADIX[0]).collect();
                    rest.shuffle(&mut rng);
                    idx.extend(rest.into_iter().take(per).map(|r| r * X_RADIX[0] + d + 1));
                }
                idx.sort();
                idx
            };
            ctx_pair(&scratch, &targets)
        }
        ("line", 4) => {
            let nseeds: usize = args[2].parse().unwrap_or_else(|_| tool_error(usage));
            let total = n_line_cases();
            let cases: Vec<usize> = if let Some(ids) = args[3].strip_prefix("ids:") {
                parse_ids(ids, total)
            } else if args[3] == "all" {
                (1..=total).collect()
            } else {
                let count: usize = args[3].parse().unwrap_or_else(|_| tool_error(usage));
                let per = (count + LINE_FAMS.len() - 1) / LINE_FAMS.len();
                let mut rng = rand::rngs::StdRng::seed_from_u64(seed() ^ 0x11E5);
                let mut idx = Vec::new();
                for f in 0..LINE_FAMS.len() {
                    let mut rest: Vec<usize> = (0..total / LINE_FAMS.len()).collect();
                    rest.shuffle(&mut rng);
                    idx.extend(rest.into_iter().take(per).map(|r| r * LINE_FAMS.len() + f + 1));
                }
                idx.sort();
                idx
            };
            ctx_line(nseeds, &cases)
        }
        ("seed", 4) => {
            let nseeds: usize = args[2].parse().unwrap_or_else(|_| tool_error(usage));
            let total = n_seed_cases();
            let cases: Vec<usize> = if let Some(ids) = args[3].strip_prefix("ids:") {
                parse_ids(ids, total)
            } else if args[3] == "all" {
                (1..=total).collect()
            } else {
                // stratified: the same number of cases from every family
                let count: usize = args[3].parse().unwrap_or_else(|_| tool_error(usage));
                let per = (count + SEED_FAMS.len() - 1) / SEED_FAMS.len();
                let mut rng = rand::rngs::StdRng::seed_from_u64(seed() ^ 0x5EED5);
                let mut idx = Vec::new();
                for f in 0..SEED_FAMS.len() {
                    let mut rest: Vec<usize> = (0..total / SEED_FAMS.len()).collect();
                    rest.shuffle(&mut rng);
                    idx.extend(rest.into_iter().take(per).map(|r| r * SEED_FAMS.len() + f + 1));
                }
                idx.sort();
                idx
            };
            ctx_seed(nseeds, &cases)
        }
        _ => tool_error(usage),
    };
    // negative control: a recorder that lies about the last run of every third group
    let stub = std::env::var("C16_STUB").ok();
    let mut salted: Vec<usize> = Vec::new();
    if stub.as_deref() == Some("salt") {
        for gr in out.groups.iter() {
            let g = gr["g"].as_u64().unwrap() as usize;
            if g % 3 == 2 || out.groups.len() < 3 {
                let last = gr["first"].as_u64().unwrap() as usize + gr["n"].as_u64().unwrap() as usize - 2;
                let d = out.trace[last]["digest"].as_str().unwrap().to_string();
                out.trace[last]["digest"] = json!(hex(fnv(&format!("salt{}", d))));
                salted.push(g);
            }
        }
    }
    for gr in out.groups.iter_mut() {
        let g = gr["g"].as_u64().unwrap() as usize;
        gr["salted"] = json!(salted.contains(&g));
    }
    let progs: Vec<Value> = (1..=n_prog())
        .map(|i| {
            let p = prog(i);
            let mut v = serde_json::to_value(&p).unwrap();
            v["source_files"] = json!(render_prog(&p).files);
            v
        })
        .collect();
    write_ndjson(&outdir.join(format!("{}.ndjson", kind)), &out.trace);
    write_ndjson(&outdir.join(format!("{}-groups.ndjson", kind)), &out.groups);
    write_ndjson(&outdir.join(format!("{}-full.ndjson", kind)), &out.fulls);
    write_ndjson(&outdir.join("progs.ndjson"), &progs);
    if kind == "pair" {
        let xprogs: Vec<Value> = (1..=n_x())
            .map(|i| {
                let p = xprog(i);
                let mut v = serde_json::to_value(&p).unwrap();
                v["source_files"] = json!(render_xprog(&p).files);
                v
            })
            .collect();
        write_ndjson(&outdir.join("xprogs.ndjson"), &xprogs);
    }
    let _ = std::fs::remove_dir_all(&scratch);
    println!("{} {}", out.groups.len(), out.trace.len());
}

fn show_ctx(what: &str, id: usize) {
    let (files, nostd): (BTreeMap<String, String>, bool) = match what {
        "prog" => {
            let p = prog(id);
            println!("// {}", serde_json::to_string(&p).unwrap());
            (render_prog(&p).files, p.nostd)
        }
        "seed" => {
            let c = seed_case(id);
            println!("// {}", serde_json::to_string(&c).unwrap());
            (render_seed(&c).files, true)
        }
        "disk" => {
            let c = disk_case(id);
            println!("// {}", serde_json::to_string(&c).unwrap());
            (render_disk(&c), false)
        }
        "line" => {
            let c = line_case(id);
            println!("// {}", serde_json::to_string(&c).unwrap());
            (render_line(&c).files, true)
        }
        "x" => {
            let p = xprog(id);
            println!("// {}", serde_json::to_string(&p).unwrap());
            for s in 1..=n_pair_shapes() {
                println!("// scenario {}: {:?}", s, pair_scenario(id, s));
            }
            (render_xprog(&p).files, p.std == 0)
        }
        _ => tool_error("showctx prog|seed|disk|line|x <id>"),
    };
    for (p, s) in files.iter() {
        println!("// ---- {}\n{}", p, s);
    }
    let project = Project { files, main: "main.sy".into() };
    let (r, _) = vharness::project::compile_opts(&project, &vharness::project::CompileOpts { no_std: nostd, ..Default::default() });
    let o = observe(&r);
    println!("// class={} digest={} nerr={}", o.class, o.digest, o.nerr);
    if let CompileResult::Err { errors, .. } = &r {
        for e in errors {
            println!("//   {} {}:{}:{}-{} {}", e.kind, e.file, e.line, e.col_start, e.col_end, e.message.replace('\n', " / "));
        }
    }
    if let CompileResult::Panic { message, .. } = &r {
        println!("//   panic {}", message);
    }
}

fn main() {
    let args: Vec<String> = std::env::args().collect();
    let usage = "usage: c16 record universe <count|all> <trace> <inputs> | record corpus <dir> <trace> <inputs> | \
                 record list <file> <trace> <inputs> | worker <jobs> <out> | show <spec> | size";
    if args.len() < 2 {
        tool_error(usage);
    }
    match args[1].as_str() {
        "size" => println!("{}", universe_size()),
        "sizes" => println!(
            "{}",
            json!({"universe": universe_size(), "progs": n_prog(), "warm": warm_ids().len(), "shapes": n_shapes(),
                   "long": N_LONG, "disk": N_DISK, "spellings": SPELLINGS.len(), "seed_cases": n_seed_cases(),
                   "line_cases": n_line_cases(), "line_fams": LINE_FAMS.len(), "layouts": N_LAYOUTS,
                   "xprogs": n_x(), "pair_shapes": n_pair_shapes(), "x_neighbours": X_NBR_AXES.len()})
        ),
        "diskshow" if args.len() >= 3 => {
            let r = disk_compile(&args[2], args.len() > 3);
            println!("{}", serde_json::to_string_pretty(&full_result(&r)).unwrap());
        }
        "diskworker" if args.len() == 5 => diskworker(&args[2], &args[3], &args[4]),
        "seqworker" if args.len() == 4 => seqworker(&args[2], &args[3]),
        "showctx" if args.len() == 4 => show_ctx(&args[2], args[3].parse().unwrap_or_else(|_| tool_error("bad id"))),
        "ctx" => ctx_main(&args[2..]),
        "show" if args.len() == 3 => show(&args[2]),
        "worker" if args.len() == 4 => worker(&args[2], &args[3]),
        "record" if args.len() == 6 => {
            let specs: Vec<String> = match args[2].as_str() {
                "universe" => {
                    let total = universe_size();
                    let mut idx: Vec<usize> = (1..=total).collect();
                    if args[3] != "all" {
                        // stratified: the same number of cases from every family (fam = (idx-1) % |FAMS|)
                        let count: usize = args[3].parse().unwrap_or_else(|_| tool_error(usage));
                        let per = (count + FAMS.len() - 1) / FAMS.len();
                        let mut rng = rand::rngs::StdRng::seed_from_u64(seed() ^ 0x16C);
                        idx.clear();
                        for f in 0..FAMS.len() {
                            let mut rest: Vec<usize> = (0..total / FAMS.len()).collect();
                            rest.shuffle(&mut rng);
                            idx.extend(rest.into_iter().take(per).map(|r| r * FAMS.len() + f + 1));
                        }
                        idx.sort();
                    }
                    idx.into_iter().map(|i| format!("u:{}", i)).collect()
                }
                "corpus" => {
                    let dir = args[3].trim_end_matches('/').to_string();
                    corpus_files(&dir).keys().map(|rel| format!("c:{}|{}", dir, rel)).collect()
                }
                "list" => std::fs::read_to_string(&args[3])
                    .unwrap_or_else(|e| tool_error(&format!("{}: {}", args[3], e)))
                    .lines()
                    .filter(|l| !l.trim().is_empty())
                    .map(|l| l.trim().to_string())
                    .collect(),
                _ => tool_error(usage),
            };
            if specs.is_empty() {
                tool_error("no inputs");
            }
            record(specs, &args[4], &args[5]);
        }
        _ => tool_error(usage),
    }
}
