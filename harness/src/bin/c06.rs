//! C06 recorder: every accepted program yields loadable Lua.
//!   c06 record <cases.ndjson> <trace.ndjson>     lexical-corner cases emitted by TLC (MC_LoadCases)
//!   c06 corpus <trace.ndjson> [stride offset]    every program under /repo/tests, compiled from disk
//!   c06 sem    <cases.ndjson> <trace.ndjson>     AST-shaped programs of the C01 universe ({id, tops}), via the printer
//!   c06 print  <cases.ndjson> <idx>              the project of case idx with the placeholders substituted
//!   c06 probe  <file.sy> [--nostd] [--lua|--start]
//! Case (from TLC): {idx, id:{fam,a,b,n}, files:[{name,text}], req, must}.  `@Uhhhh@` in a text stands for the code
//! point hhhh (TLC cannot carry CR / NUL / non-ASCII); it is substituted just before compiling.
//! A case with `expect` other than "-" is also RUN after it loaded: event run(r = done | error | step-limit | unsupported,
//! len = bytes printed) and the record's `out` = everything the chunk printed, in placeholder form (else "-").
//! Trace record: {u, idx, id, files, req, ev:[{e,r,n,len,st,cls}], out, detail}
//!   events  start | ret(r=ok len=bytes / r=err n=errors len=bytes st=parse|compile) | render(n,len) | render_panic
//!           | panic | load(r=ok / r=err cls=<class of the loader's refusal>) | finish
//! Rust only renders, compiles, loads and records what happened; whether the event list is a behaviour of SyltLoad
//! (compiled => loaded) is decided by TLC (Trace_Load), which also re-derives every lexical case from its index.
//! The judge of "loads" is minilua's loader (Lua 5.3 grammar + static limits), there is no Lua in the sandbox.
//! C06_STUB=append-end | cut : negative control - the emitted chunk is corrupted before it is handed to the loader
//! (C06_STUB_EVERY=n: only for the records whose position in the input is a multiple of n).

use serde_json::{json, Value};
use std::collections::BTreeMap;
use std::path::{Path, PathBuf};
use vharness::printer::{print_program, PrintOpts};
use vharness::project::{compile_opts, err_info, CompileOpts};
use vharness::util::*;
use vharness::{CompileResult, Project};

fn ev(e: &str, r: &str, n: usize, len: usize, st: &str, cls: &str) -> Value {
    json!({"e": e, "r": r, "n": n, "len": len, "st": st, "cls": cls})
}

fn ascii(s: &str) -> String {
    s.chars().map(|c| if c.is_ascii() && c != '\\' && c != '"' && !c.is_control() { c } else { '?' }).collect()
}

/// `@Uhhhh@` -> the code point
fn subst(s: &str) -> String {
    let mut out = String::with_capacity(s.len());
    let mut rest = s;
    while let Some(i) = rest.find("@U") {
        let after = &rest[i + 2..];
        if let Some(j) = after.find('@') {
            let hex = &after[..j];
            if (4..=6).contains(&hex.len()) && hex.chars().all(|c| c.is_ascii_hexdigit()) {
                if let Some(c) = u32::from_str_radix(hex, 16).ok().and_then(char::from_u32) {
                    out.push_str(&rest[..i]);
                    out.push(c);
                    rest = &after[j + 1..];
                    continue;
                }
            }
        }
        out.push_str(&rest[..i + 2]);
        rest = after;
    }
    out.push_str(rest);
    out
}

/// the inverse of `subst` for observed output: printable ASCII, LF and TAB as they are, everything else `@Uhhhh@`
fn unsubst(s: &str) -> String {
    let mut out = String::with_capacity(s.len());
    for c in s.chars() {
        if c == '\n' || c == '\t' || (' '..='~').contains(&c) {
            out.push(c);
        } else {
            out.push_str(&format!("@U{:04X}@", c as u32));
        }
    }
    out
}

/// Class of a loader refusal, from the wording the Lua 5.3 manual / lparser.c / llex.c fix (never from sylt).
fn load_class(msg: &str) -> &'static str {
    if msg.contains("too many local variables") {
        "limit-locals"
    } else if msg.contains("too many upvalues") {
        "limit-upvalues"
    } else if msg.contains("too many C levels") || msg.contains("overflow") {
        "limit-nesting"
    } else if msg.contains("too many") {
        "limit-other"
    } else if msg.contains("unfinished string")
        || msg.contains("escape")
        || msg.contains("hexadecimal digit expected")
        || msg.contains("UTF-8 value too large")
        || msg.contains("missing '{'")
        || msg.contains("missing '}'")
        || msg.contains("unfinished long string")
    {
        "string"
    } else if msg.contains("malformed number") {
        "number"
    } else if msg.contains("not inside a loop") || msg.contains("no visible label") || msg.contains("jumps into the scope") {
        "control"
    } else {
        "syntax"
    }
}

fn stage_of(kinds: &[String]) -> &'static str {
    if kinds.iter().all(|k| k == "syntax" || k == "file_not_found" || k == "git_conflict" || k == "io") {
        "parse"
    } else {
        "compile"
    }
}

fn corrupt(lua: &str, stub: &str) -> String {
    match stub {
        "append-end" => format!("{}\nend\n", lua),
        "cut" => {
            // cut inside the user part and leave a block open: the chunk ends where an `end` is still owed
            let mut i = lua.len() * 9 / 10;
            while !lua.is_char_boundary(i) {
                i -= 1;
            }
            let upto = lua[..i].rfind('\n').unwrap_or(i);
            format!("{}\nlocal function cut()\n", &lua[..upto])
        }
        _ => lua.to_string(),
    }
}

/// events of one compilation + load; returns (events, detail)
fn observe_result(res: CompileResult, stub: &str, pos: usize) -> (Vec<Value>, String) {
    let (evs, detail, _) = observe_run(res, stub, pos, false);
    (evs, detail)
}

/// events of one compilation + load (+ run, when the case carries a byte expectation and the chunk loaded);
/// returns (events, detail, output in placeholder form or "-")
fn observe_run(res: CompileResult, stub: &str, pos: usize, run: bool) -> (Vec<Value>, String, String) {
    let mut out = "-".to_string();
    let every: usize = std::env::var("C06_STUB_EVERY").ok().and_then(|s| s.parse().ok()).unwrap_or(1).max(1);
    let stub = if (pos + 1) % every == 0 { stub } else { "" };
    let mut evs = vec![ev("start", "-", 0, 0, "-", "-")];
    let mut detail = String::new();
    match res {
        CompileResult::Ok { lua } => {
            evs.push(ev("ret", "ok", 0, lua.len(), "compile", "-"));
            let text = if stub.is_empty() { lua } else { corrupt(&lua, stub) };
            match vharness::luarun::load_only(&text) {
                Ok(()) => {
                    evs.push(ev("load", "ok", 0, 0, "-", "-"));
                    if run {
                        // what the loaded chunk prints, byte for byte (lossy UTF-8), in placeholder form
                        let status = match minilua::run_source(&text, &vharness::luarun::default_opts()) {
                            Ok(r) => {
                                out = unsubst(&r.output);
                                match r.outcome {
                                    minilua::Outcome::Done => "done",
                                    minilua::Outcome::StepLimit => "step-limit",
                                    minilua::Outcome::Unsupported(_) => "unsupported",
                                    minilua::Outcome::Error { .. } => "error",
                                }
                            }
                            Err(_) => "load-error",
                        };
                        evs.push(ev("run", status, 0, out.len(), "-", status));
                        if status != "done" {
                            detail = format!("run ended with {}", status);
                        }
                    }
                }
                Err(m) => {
                    evs.push(ev("load", "err", 0, 0, "-", load_class(&m)));
                    // the refused line, for the report
                    let ln: usize = m.split(&[' ', ':'][..]).nth(1).and_then(|s| s.parse().ok()).unwrap_or(0);
                    let line = text.lines().nth(ln.saturating_sub(1)).unwrap_or("").trim();
                    let short: String = line.chars().take(120).collect();
                    detail = format!("{} :: {}", ascii(&m.chars().take(200).collect::<String>()), ascii(&short));
                }
            }
            evs.push(ev("finish", "-", 0, 0, "-", "-"));
        }
        CompileResult::Err { errors, bytes_written } => {
            let kinds: Vec<String> = errors.iter().map(|e| e.kind.clone()).collect();
            evs.push(ev("ret", "err", errors.len(), bytes_written, stage_of(&kinds), "-"));
            let mut all = true;
            for (i, e) in errors.iter().enumerate() {
                if e.render_panicked {
                    evs.push(ev("render_panic", "-", i + 1, 0, "-", "-"));
                    all = false;
                } else {
                    evs.push(ev("render", "-", i + 1, e.rendered.len(), "-", "-"));
                }
            }
            if all {
                evs.push(ev("finish", "-", 0, 0, "-", "-"));
            }
            if let Some(e) = errors.first() {
                detail = ascii(&format!("{}:{}:{} {}", e.kind, e.file, e.line, e.message.chars().take(160).collect::<String>()));
            }
        }
        CompileResult::Panic { message, .. } => {
            evs.push(ev("panic", "-", 0, 0, "-", "-"));
            detail = ascii(&message);
        }
    }
    (evs, detail, out)
}

fn project_of_case(c: &Value) -> (Project, Option<String>) {
    let mut files = BTreeMap::new();
    for f in c["files"].as_array().expect("files") {
        files.insert(subst(f["name"].as_str().unwrap()), subst(f["text"].as_str().unwrap()));
    }
    let req = c["req"].as_str().unwrap_or("");
    (Project { files, main: "main.sy".into() }, if req.is_empty() { None } else { Some(subst(req)) })
}

fn walk(dir: &Path, out: &mut Vec<PathBuf>) {
    let mut entries: Vec<_> = std::fs::read_dir(dir).unwrap().map(|e| e.unwrap().path()).collect();
    entries.sort();
    for p in entries {
        if p.is_dir() {
            walk(&p, out);
        } else if p.extension().map(|e| e == "sy").unwrap_or(false) {
            out.push(p);
        }
    }
}

fn ext_id(fam: &str, a: &str) -> Value {
    json!({"fam": fam, "a": a, "b": "-", "n": 0})
}

fn main() {
    let args: Vec<String> = std::env::args().collect();
    if args.len() < 3 {
        tool_error("usage: c06 record <cases> <trace> | corpus <trace> [stride offset] | sem <cases> <trace> | print <cases> <idx> | probe <file>");
    }
    let stub = std::env::var("C06_STUB").unwrap_or_default();
    if !["", "append-end", "cut"].contains(&stub.as_str()) {
        tool_error("C06_STUB must be append-end or cut");
    }
    vharness::project::quiet_panics();
    match args[1].as_str() {
        "record" => {
            if args.len() < 4 {
                tool_error("usage: c06 record <cases> <trace>");
            }
            let cases: Vec<Value> = read_ndjson(Path::new(&args[2]));
            let recs = vharness::pool::par_map(&cases, |i, c| {
                let (p, req) = project_of_case(c);
                let (res, _) = compile_opts(&p, &CompileOpts { no_std: false, require: req });
                let run = c["expect"].as_str().map(|e| e != "-").unwrap_or(false);
                let (evs, detail, out) = observe_run(res, &stub, i, run);
                json!({"u": "lex", "idx": c["idx"], "id": c["id"], "files": c["files"], "req": c["req"], "ev": evs, "out": out, "detail": detail})
            });
            write_ndjson(Path::new(&args[3]), &recs);
        }
        "corpus" => {
            let stride: usize = args.get(3).and_then(|s| s.parse().ok()).unwrap_or(1).max(1);
            let offset: usize = args.get(4).and_then(|s| s.parse().ok()).unwrap_or(0);
            let mut files = Vec::new();
            walk(Path::new("/repo/tests"), &mut files);
            let files: Vec<PathBuf> =
                files.into_iter().enumerate().filter(|(i, _)| i % stride == offset % stride).map(|(_, f)| f).collect();
            let recs = vharness::pool::par_map(&files, |i, f| {
                let a = sylt::Args { args: vec![f.to_string_lossy().to_string()], ..Default::default() };
                let mut out: Vec<u8> = Vec::new();
                let res = std::panic::catch_unwind(std::panic::AssertUnwindSafe(|| {
                    sylt::compile_with_reader_to_writer(&a, sylt::read_file, &mut out)
                }));
                let res = match res {
                    Ok(Ok(())) => CompileResult::Ok { lua: String::from_utf8_lossy(&out).to_string() },
                    Ok(Err(errs)) => CompileResult::Err { errors: errs.iter().map(err_info).collect(), bytes_written: out.len() },
                    Err(_) => CompileResult::Panic { message: "panic".into(), bytes_written: out.len() },
                };
                let (evs, detail) = observe_result(res, &stub, i);
                let name = ascii(&f.strip_prefix("/repo/tests").unwrap().to_string_lossy());
                json!({"u": "corpus", "idx": i + 1, "id": ext_id("corpus", &name), "files": [], "req": "", "ev": evs, "detail": detail})
            });
            write_ndjson(Path::new(&args[2]), &recs);
        }
        "sem" => {
            if args.len() < 4 {
                tool_error("usage: c06 sem <cases> <trace>");
            }
            let cases: Vec<Value> = read_ndjson(Path::new(&args[2]));
            let opts = PrintOpts::default();
            let recs = vharness::pool::par_map(&cases, |i, c| {
                let src = print_program(c["tops"].as_array().expect("tops"), &opts);
                let (res, _) = compile_opts(&Project::single(&src), &CompileOpts::default());
                let (evs, detail) = observe_result(res, &stub, i);
                let name = c["key"].as_str().map(|s| s.to_string()).unwrap_or_else(|| hex(fnv(&src)));
                json!({"u": "sem", "idx": i + 1, "id": ext_id("sem", &name), "files": [], "req": "", "ev": evs, "detail": detail})
            });
            write_ndjson(Path::new(&args[3]), &recs);
        }
        "print" => {
            let cases: Vec<Value> = read_ndjson(Path::new(&args[2]));
            let idx: u64 = args[3].parse().unwrap();
            for (i, c) in cases.iter().enumerate() {
                if c["tops"].is_array() {
                    if i as u64 + 1 == idx {
                        println!("{}", print_program(c["tops"].as_array().unwrap(), &PrintOpts::default()));
                    }
                    continue;
                }
                if c["idx"].as_u64() != Some(idx) {
                    continue;
                }
                let (p, req) = project_of_case(c);
                println!("// case {} {}  require={:?}", idx, c["id"], req);
                for (n, t) in p.files.iter() {
                    println!("// ---- {}\n{}", n, t);
                }
            }
        }
        "probe" => {
            let src = std::fs::read_to_string(Path::new(&args[2])).unwrap();
            let nostd = args.iter().any(|a| a == "--nostd");
            let show = args.iter().any(|a| a == "--lua" || a == "--start");
            let (r, _) = compile_opts(&Project::single(&src), &CompileOpts { no_std: nostd, require: None });
            match r {
                CompileResult::Ok { lua } => {
                    match vharness::luarun::load_only(&lua) {
                        Ok(()) => println!("OK loads ({} bytes)", lua.len()),
                        Err(m) => {
                            println!("OK LOAD-ERROR [{}] {}", load_class(&m), m);
                            let ln: usize = m.split(&[' ', ':'][..]).nth(1).and_then(|s| s.parse().ok()).unwrap_or(0);
                            for (i, l) in lua.lines().enumerate() {
                                if i + 3 >= ln && i <= ln + 1 {
                                    println!("  {:5}| {}", i + 1, l);
                                }
                            }
                        }
                    }
                    if show {
                        let body = vharness::project::body_of(&lua);
                        let only_start = args.iter().any(|a| a == "--start");
                        let mut on = !only_start;
                        let last = body.lines().filter(|l| !l.trim().is_empty()).last().unwrap_or("");
                        let startfn = format!("local function {}(", last.rsplit("= ").next().unwrap_or("").trim_end_matches("()"));
                        for l in body.lines().filter(|l| !l.trim().is_empty()) {
                            if only_start && l.starts_with(&startfn) {
                                on = true;
                            }
                            if on {
                                println!("{}", l);
                            }
                            if only_start && on && l == "end" {
                                on = false;
                            }
                        }
                    }
                }
                CompileResult::Err { errors, .. } => {
                    println!("ERR {}", errors.iter().map(|e| format!("{}:{}:{} {}", e.kind, e.line, e.col_start, e.message)).collect::<Vec<_>>().join(" ;; "))
                }
                CompileResult::Panic { message, .. } => println!("PANIC {}", message),
            }
        }
        _ => tool_error("unknown mode"),
    }
}
