//! Corpus regression helper: compile (and optionally run) every program under /repo/tests from disk.
//!   corpus <out.ndjson> [run]
//! One record per file: {file, class, digest, errors:[kind@line], expect (from `// error:` annotations), run?}

use serde_json::{json, Value};
use std::path::{Path, PathBuf};
use vharness::util::*;

fn walk(dir: &Path, out: &mut Vec<PathBuf>) {
    let mut entries: Vec<_> = std::fs::read_dir(dir).unwrap().map(|e| e.unwrap().path()).collect();
    entries.sort();
    for p in entries {
        if p.is_dir() {
            walk(&p, out);
        } else if p.extension().map(|e| e == "sy").unwrap_or(false) {
            out.push(p);
        }
    }
}

fn main() {
    let args: Vec<String> = std::env::args().collect();
    if args.len() < 2 {
        tool_error("usage: corpus <out.ndjson> [run]");
    }
    let run = args.get(2).map(|s| s == "run").unwrap_or(false);
    let _ = run;
    let mut files = Vec::new();
    walk(Path::new("/repo/tests"), &mut files);
    vharness::project::quiet_panics();
    let recs: Vec<Value> = vharness::pool::par_map(&files, |_, f| {
        let src = std::fs::read_to_string(f).unwrap_or_default();
        let expect: Vec<String> =
            src.lines().filter_map(|l| l.trim().strip_prefix("// error:").map(|s| s.trim().to_string())).collect();
        let args = sylt::Args { args: vec![f.to_string_lossy().to_string()], ..Default::default() };
        let mut out: Vec<u8> = Vec::new();
        let res = std::panic::catch_unwind(std::panic::AssertUnwindSafe(|| {
            sylt::compile_with_reader_to_writer(&args, sylt::read_file, &mut out)
        }));
        let mut rec = match res {
            Ok(Ok(())) => {
                let lua = String::from_utf8_lossy(&out).to_string();
                #[allow(unused_mut)]
                let mut r = json!({"class":"ok","digest":hex(fnv(&lua))});
                #[cfg(feature = "lua")]
                if run {
                    let obs = vharness::luarun::run(&lua);
                    r["run"] = json!({"status": obs.status.short(), "detail": format!("{:?}", obs.status), "prints": obs.prints.len()});
                }
                r
            }
            Ok(Err(errs)) => {
                let es: Vec<String> = errs
                    .iter()
                    .map(|e| {
                        let i = vharness::project::err_info(e);
                        format!("{}@{}:{}", i.kind, i.file.rsplit('/').next().unwrap_or(""), i.line)
                    })
                    .collect();
                json!({"class":"err","errors":es})
            }
            Err(_) => json!({"class":"panic"}),
        };
        rec["file"] = json!(f.strip_prefix("/repo/tests").unwrap().to_string_lossy());
        rec["expect"] = json!(expect);
        rec
    });
    write_ndjson(Path::new(&args[1]), &recs);
    let ok = recs.iter().filter(|r| r["class"] == "ok").count();
    println!("{} files, {} accepted", recs.len(), ok);
}
