//! C12 recorder: multi-file configurations of SyltModules -> in-memory projects -> real compiler -> minilua.
//!   c12 run <progs.ndjson> <cases.ndjson> <trace.ndjson> <full.ndjson>
//!         progs: PROG records of MC_Modules (p, name, tops, items, tree); cases: REPLAY records
//!         (p, m, v, files[{path, items, lines, refs, decoys, imports_last}], twins[{kind, file, item, lines, ns, name}], load)
//!         trace: one record per case for Trace_Modules (p, m, v, lines, class, errkind, prints, status, reads, twins)
//!         full:  the same plus the rendered file texts and the first error, for replay files / evidence
//!   c12 disk <progs.ndjson> <cases.ndjson> <trace.ndjson> <full.ndjson> <scratch dir>
//!         every case is written to <scratch>/dNNNNN/proj/ and compiled once per spelling of the main file (PROG record's
//!         `spellings`: name, cwd, arg with $P = project dir, $S = its parent) in a CHILD PROCESS whose cwd is set
//!         accordingly (`c12 diskworker`), through sylt::compile_with_reader_to_writer with sylt::read_file behind a counter
//!   c12 diskworker <arg> <project dir> <tree files, comma separated>     one compilation + minilua run in THIS process, from its cwd
//!   c12 runl <info.ndjson> <cases.ndjson> <trace.ndjson> <full.ndjson>
//!         family L (SyltLayers): info: the INFO record of MC_Layers (tree); cases: REPLAY records
//!         (n, w, files[{path, lines, tops, refs[{b, ns, name}], imports_last}]); every file is the specification's import
//!         lines plus its definitions printed from the AST, a reference to a global of another file written as the
//!         specification spells it; trace: (n, w, lines, class, errkind, prints, status, reads)
//!   c12 probe <dir>      compile and run the project in <dir> (main.sy), print what happened
//! Nothing is decided here: the import lines, the reference texts and the twins come from the specification,
//! the expectation (prints, status, load set, "twins are rejected") is checked by TLC on the recorded trace.
//! Negative-control stub: C12_STUB=autoimport compiles every drop-import twin WITH the dropped import
//! (an implementation in which a name that was not imported is visible all the same).

use serde_json::{json, Value};
use std::collections::{BTreeMap, BTreeSet};
use std::path::Path;
use vharness::printer::{print_program, PrintOpts};
use vharness::project::{compile_opts, CompileOpts, CompileResult, Project};
use vharness::util::*;

struct Item {
    name: String,
    kind: String, // value | blob | enum
    b: i64,
    top: Value,
}

struct Prog {
    items: Vec<Item>,
    tree: Vec<String>,
    /// (name, cwd, arg) as the specification spells them
    spellings: Vec<(String, String, String)>,
}

fn load_progs(path: &str) -> BTreeMap<i64, Prog> {
    let recs: Vec<Value> = read_ndjson(Path::new(path));
    let mut out = BTreeMap::new();
    for r in recs {
        let tops = r["tops"].as_array().unwrap_or_else(|| tool_error("PROG without tops"));
        let items = r["items"]
            .as_array()
            .unwrap()
            .iter()
            .zip(tops.iter())
            .map(|(it, top)| Item {
                name: it["name"].as_str().unwrap().to_string(),
                kind: it["kind"].as_str().unwrap().to_string(),
                b: it["b"].as_i64().unwrap(),
                top: top.clone(),
            })
            .collect();
        let tree = r["tree"].as_array().unwrap().iter().map(|x| x.as_str().unwrap().to_string()).collect();
        let spellings = r["spellings"]
            .as_array()
            .map(|a| {
                a.iter()
                    .map(|x| {
                        (x["name"].as_str().unwrap().to_string(), x["cwd"].as_str().unwrap().to_string(), x["arg"].as_str().unwrap().to_string())
                    })
                    .collect()
            })
            .unwrap_or_default();
        out.insert(r["p"].as_i64().unwrap(), Prog { items, tree, spellings });
    }
    out
}

/// Replace type names (blob literal, variant constructor, type annotation) that have a file-specific text.
fn rewrite_types(v: &mut Value, map: &BTreeMap<String, String>) {
    match v {
        Value::Object(o) => {
            let field = match o.get("k").and_then(|k| k.as_str()) {
                Some("blob") => Some("name"),
                Some("variant") => Some("enum"),
                Some("tname") => Some("n"),
                _ => None,
            };
            if let Some(f) = field {
                if let Some(Value::String(s)) = o.get(f) {
                    if let Some(t) = map.get(s) {
                        o.insert(f.to_string(), Value::String(t.clone()));
                    }
                }
            }
            for (_, c) in o.iter_mut() {
                rewrite_types(c, map);
            }
        }
        Value::Array(a) => a.iter_mut().for_each(|c| rewrite_types(c, map)),
        _ => {}
    }
}

fn collect_vars(v: &Value, out: &mut BTreeSet<i64>, types: &mut BTreeSet<String>) {
    match v {
        Value::Object(o) => {
            match o.get("k").and_then(|k| k.as_str()) {
                Some("var") => {
                    out.insert(o["b"].as_i64().unwrap());
                }
                Some("blob") => {
                    types.insert(o["name"].as_str().unwrap().to_string());
                }
                Some("variant") => {
                    types.insert(o["enum"].as_str().unwrap().to_string());
                }
                Some("tname") => {
                    types.insert(o["n"].as_str().unwrap().to_string());
                }
                _ => {}
            }
            o.values().for_each(|c| collect_vars(c, out, types));
        }
        Value::Array(a) => a.iter().for_each(|c| collect_vars(c, out, types)),
        _ => {}
    }
}

fn ref_text(ns: &str, name: &str) -> String {
    if ns.is_empty() {
        name.to_string()
    } else {
        format!("{}.{}", ns, name)
    }
}

fn strs(v: &Value) -> Vec<String> {
    v.as_array().map(|a| a.iter().map(|x| x.as_str().unwrap().to_string()).collect()).unwrap_or_default()
}

/// Text of one file of a configuration. `lines`: the import lines to write; `over`: (item, text) replacing the
/// reference text of one item (negative twins).
fn render_file(prog: &Prog, file: &Value, lines: &[String], over: Option<(&str, String)>) -> String {
    let own: Vec<String> = strs(&file["items"]);
    let mut texts: BTreeMap<String, String> = BTreeMap::new();
    for r in file["refs"].as_array().unwrap() {
        texts.insert(
            r["item"].as_str().unwrap().to_string(),
            ref_text(r["ns"].as_str().unwrap(), r["name"].as_str().unwrap()),
        );
    }
    if let Some((item, text)) = over {
        if !texts.contains_key(item) {
            tool_error("twin overrides a reference its file does not have");
        }
        texts.insert(item.to_string(), text);
    }
    let mut opts = PrintOpts::default();
    let mut type_map = BTreeMap::new();
    for it in prog.items.iter() {
        if let Some(t) = texts.get(&it.name) {
            if it.kind == "value" {
                opts.naming.insert(it.b, t.clone());
            } else {
                type_map.insert(it.name.clone(), t.clone());
            }
        }
    }
    let mut tops: Vec<Value> = Vec::new();
    for name in own.iter() {
        let it = prog.items.iter().find(|i| &i.name == name).unwrap_or_else(|| tool_error("unknown item in file"));
        let mut t = it.top.clone();
        rewrite_types(&mut t, &type_map);
        tops.push(t);
    }
    // every global / type the file's items mention must be the file's own or carry a reference text
    let (mut vars, mut types) = (BTreeSet::new(), BTreeSet::new());
    for name in own.iter() {
        let it = prog.items.iter().find(|i| &i.name == name).unwrap();
        collect_vars(&it.top, &mut vars, &mut types);
    }
    for it in prog.items.iter() {
        let mentioned = if it.kind == "value" { vars.contains(&it.b) } else { types.contains(&it.name) };
        if mentioned && !own.contains(&it.name) && !texts.contains_key(&it.name) {
            tool_error(&format!("file {} mentions {} but the configuration has no reference text for it", file["path"], it.name));
        }
    }
    let body = print_program(&tops, &opts);
    let mut decoys = String::new();
    for d in strs(&file["decoys"]) {
        let it = prog.items.iter().find(|i| i.name == d).unwrap();
        decoys.push_str(&match it.kind.as_str() {
            "value" => format!("{} :: \"decoy\"\n\n", d),
            "blob" => format!("{} :: blob {{\n    decoy: str,\n}}\n\n", d),
            _ => format!("{} :: enum\n    Decoy,\nend\n\n", d),
        });
    }
    let imports = if lines.is_empty() { String::new() } else { format!("{}\n\n", lines.join("\n")) };
    if file["imports_last"].as_bool().unwrap_or(false) {
        format!("{}{}{}", body, decoys, imports)
    } else {
        format!("{}{}{}", imports, body, decoys)
    }
}

/// Files of the tree no item was placed in: never imported, must never be read. They define every name of the
/// program with other values, so that reading or merging them could not go unnoticed.
fn unused_text(prog: &Prog) -> String {
    let mut s = String::new();
    for it in prog.items.iter().filter(|i| i.name != "start") {
        s.push_str(&match it.kind.as_str() {
            "value" => format!("{} :: \"unused\"\n", it.name),
            "blob" => format!("{} :: blob {{\n    unused: str,\n}}\n", it.name),
            _ => format!("{} :: enum\n    Unused,\nend\n", it.name),
        });
    }
    s
}

fn project_of(prog: &Prog, case: &Value, twin: Option<&Value>, stub: &str) -> Project {
    let mut files = BTreeMap::new();
    for f in prog.tree.iter() {
        files.insert(f.clone(), unused_text(prog));
    }
    for file in case["files"].as_array().unwrap() {
        let path = file["path"].as_str().unwrap().to_string();
        let mut lines = strs(&file["lines"]);
        let mut over = None;
        if let Some(t) = twin {
            if t["file"].as_str().unwrap() == path {
                if !(stub == "autoimport" && t["kind"] == "drop-import") {
                    lines = strs(&t["lines"]);
                }
                over = Some((t["item"].as_str().unwrap(), ref_text(t["ns"].as_str().unwrap(), t["name"].as_str().unwrap())));
            }
        }
        files.insert(path, render_file(prog, file, &lines, over));
    }
    Project { files, main: prog.tree[0].clone() }
}

/// Family L: the files of one configuration of SyltLayers.
fn project_l(tree: &[String], case: &Value) -> Project {
    let mut files = BTreeMap::new();
    for f in tree.iter() {
        // not part of the configuration: never imported, must never be read
        files.insert(f.clone(), "area :: \"unused\"\nlabel :: \"unused\"\nrun :: \"unused\"\nstart :: \"unused\"\nboot :: \"unused\"\n".to_string());
    }
    for file in case["files"].as_array().unwrap() {
        let path = file["path"].as_str().unwrap().to_string();
        let lines = strs(&file["lines"]);
        let mut opts = PrintOpts::default();
        for r in file["refs"].as_array().unwrap() {
            opts.naming.insert(r["b"].as_i64().unwrap(), ref_text(r["ns"].as_str().unwrap(), r["name"].as_str().unwrap()));
        }
        let tops: Vec<Value> = file["tops"].as_array().unwrap().clone();
        // every global the definitions mention must be defined in this file or carry a reference text
        let (mut vars, mut types) = (BTreeSet::new(), BTreeSet::new());
        tops.iter().for_each(|t| collect_vars(t, &mut vars, &mut types));
        let own: BTreeSet<i64> = tops.iter().filter(|t| t["k"] == "def").map(|t| t["b"].as_i64().unwrap()).collect();
        for b in vars.iter().filter(|b| **b < 100) {
            if !own.contains(b) && !opts.naming.contains_key(b) {
                tool_error(&format!("file {} mentions global {} but the configuration has no reference text for it", path, b));
            }
        }
        let body = print_program(&tops, &opts);
        let imports = if lines.is_empty() { String::new() } else { format!("{}\n\n", lines.join("\n")) };
        let text = if file["imports_last"].as_bool().unwrap_or(false) { format!("{}{}", body, imports) } else { format!("{}{}", imports, body) };
        files.insert(path, text);
    }
    Project { files, main: tree[0].clone() }
}

fn run_case_l(tree: &[String], case: &Value) -> (Value, Value) {
    let project = project_l(tree, case);
    let (res, reads) = compile_opts(&project, &CompileOpts::default());
    let (errkind, errtext) = first_error(&res);
    let (mut prints, mut status, mut detail) = (Vec::new(), "none".to_string(), String::new());
    if let CompileResult::Ok { lua } = &res {
        let obs = vharness::luarun::run(lua);
        if let vharness::luarun::Status::Unsupported { message } = &obs.status {
            tool_error(&format!("minilua does not support something the chunk used: {}", message));
        }
        prints = obs.prints.clone();
        status = obs.status.short();
        detail = format!("{:?}", obs.status);
    }
    let mut read_list: Vec<Value> = tree.iter().map(|f| json!({"path": f, "n": reads.get(f).copied().unwrap_or(0)})).collect();
    for (path, n) in reads.iter() {
        if !tree.contains(path) {
            read_list.push(json!({"path": path, "n": n}));
        }
    }
    let lines: Vec<Value> = case["files"].as_array().unwrap().iter().map(|f| f["lines"].clone()).collect();
    let trace = json!({
        "n": case["n"], "w": case["w"], "lines": lines,
        "class": res.class(), "errkind": errkind, "prints": prints, "status": status, "reads": read_list,
    });
    let used: BTreeMap<String, String> = case["files"]
        .as_array()
        .unwrap()
        .iter()
        .map(|f| {
            let p = f["path"].as_str().unwrap().to_string();
            let t = project.files[&p].clone();
            (p, t)
        })
        .collect();
    let full = json!({
        "n": case["n"], "w": case["w"], "files": used, "class": res.class(), "error": errtext,
        "prints": trace["prints"], "status": status, "detail": detail, "reads": trace["reads"], "twins": [],
    });
    (trace, full)
}

fn first_error(res: &CompileResult) -> (String, String) {
    match res {
        CompileResult::Err { errors, .. } => errors
            .first()
            .map(|e| (e.kind.clone(), format!("{}:{} {}", e.file, e.line, e.message)))
            .unwrap_or(("none".into(), String::new())),
        CompileResult::Panic { message, .. } => ("panic".into(), message.clone()),
        _ => ("".into(), String::new()),
    }
}

fn run_case(progs: &BTreeMap<i64, Prog>, case: &Value, stub: &str) -> (Value, Value) {
    let prog = progs.get(&case["p"].as_i64().unwrap()).unwrap_or_else(|| tool_error("case for an unknown program"));
    let project = project_of(prog, case, None, stub);
    let (res, reads) = compile_opts(&project, &CompileOpts::default());
    let (errkind, errtext) = first_error(&res);
    let (mut prints, mut status, mut detail) = (Vec::new(), "none".to_string(), String::new());
    if let CompileResult::Ok { lua } = &res {
        let obs = vharness::luarun::run(lua);
        if let vharness::luarun::Status::Unsupported { message } = &obs.status {
            tool_error(&format!("minilua does not support something the chunk used: {}", message));
        }
        prints = obs.prints.clone();
        status = obs.status.short();
        detail = format!("{:?}", obs.status);
    }
    // how often the reader was asked for each path (every tree file listed, 0 when never asked)
    let mut read_list: Vec<Value> = prog.tree.iter().map(|f| json!({"path": f, "n": reads.get(f).copied().unwrap_or(0)})).collect();
    for (path, n) in reads.iter() {
        if !prog.tree.contains(path) {
            read_list.push(json!({"path": path, "n": n}));
        }
    }
    let mut twins = Vec::new();
    let mut twins_full = Vec::new();
    for t in case["twins"].as_array().unwrap() {
        let tp = project_of(prog, case, Some(t), stub);
        let (tres, _) = compile_opts(&tp, &CompileOpts::default());
        let (tk, tt) = first_error(&tres);
        twins.push(json!({"kind": t["kind"], "class": tres.class(), "errkind": tk}));
        let f = t["file"].as_str().unwrap();
        twins_full.push(json!({"kind": t["kind"], "file": f, "item": t["item"], "class": tres.class(), "error": tt, "text": tp.files[f]}));
    }
    let lines: Vec<Value> = case["files"].as_array().unwrap().iter().map(|f| f["lines"].clone()).collect();
    let trace = json!({
        "p": case["p"], "m": case["m"], "v": case["v"], "lines": lines,
        "class": res.class(), "errkind": errkind, "prints": prints, "status": status,
        "reads": read_list, "twins": twins,
    });
    let used: BTreeMap<String, String> = case["files"]
        .as_array()
        .unwrap()
        .iter()
        .map(|f| {
            let p = f["path"].as_str().unwrap().to_string();
            let t = project.files[&p].clone();
            (p, t)
        })
        .collect();
    let full = json!({
        "p": case["p"], "m": case["m"], "v": case["v"], "files": used, "class": res.class(), "error": errtext,
        "prints": trace["prints"], "status": status, "detail": detail, "reads": trace["reads"], "twins": twins_full,
    });
    (trace, full)
}

/// `c12 diskworker <arg> <project dir> <tree>`: compile `arg` exactly as spelled, from this process's cwd, with sylt's own
/// file reader behind a counter; reads are reported per FILE (canonical path relative to the project directory).
fn diskworker(arg: &str, root: &str, tree: &str) {
    vharness::project::quiet_panics();
    let root_c = std::fs::canonicalize(root).unwrap_or_else(|e| tool_error(&format!("{}: {}", root, e)));
    let reads: std::cell::RefCell<BTreeMap<String, usize>> = std::cell::RefCell::new(BTreeMap::new());
    let asked: std::cell::RefCell<Vec<String>> = std::cell::RefCell::new(Vec::new());
    let mut out: Vec<u8> = Vec::new();
    let a = sylt::Args { args: vec![arg.to_string()], ..Default::default() };
    let res = {
        let reader = |path: &Path| {
            let key = match std::fs::canonicalize(path) {
                Ok(c) => c.strip_prefix(&root_c).map(|r| r.to_string_lossy().to_string()).unwrap_or_else(|_| c.to_string_lossy().to_string()),
                Err(_) => format!("?{}", path.to_string_lossy()),
            };
            *reads.borrow_mut().entry(key).or_insert(0) += 1;
            asked.borrow_mut().push(path.to_string_lossy().to_string());
            sylt::read_file(path)
        };
        let out_ref: &mut dyn std::io::Write = &mut out;
        std::panic::catch_unwind(std::panic::AssertUnwindSafe(|| sylt::compile_with_reader_to_writer(&a, reader, out_ref)))
    };
    let res = match res {
        Ok(Ok(())) => CompileResult::Ok { lua: String::from_utf8_lossy(&out).to_string() },
        Ok(Err(errs)) => CompileResult::Err { errors: errs.iter().map(vharness::project::err_info).collect(), bytes_written: out.len() },
        Err(_) => CompileResult::Panic { message: "panic while compiling from disk".into(), bytes_written: out.len() },
    };
    let (errkind, errtext) = first_error(&res);
    let (mut prints, mut status) = (Vec::new(), "none".to_string());
    if let CompileResult::Ok { lua } = &res {
        let obs = vharness::luarun::run(lua);
        if let vharness::luarun::Status::Unsupported { message } = &obs.status {
            tool_error(&format!("minilua does not support something the chunk used: {}", message));
        }
        prints = obs.prints.clone();
        status = obs.status.short();
    }
    let reads = reads.into_inner();
    let mut read_list: Vec<Value> = tree.split(',').map(|f| json!({"path": f, "n": reads.get(f).copied().unwrap_or(0)})).collect();
    for (path, n) in reads.iter() {
        if !tree.split(',').any(|f| f == path) {
            read_list.push(json!({"path": path, "n": n}));
        }
    }
    println!(
        "{}",
        json!({"class": res.class(), "errkind": errkind, "error": errtext, "prints": prints, "status": status,
               "reads": read_list, "asked": asked.into_inner()})
    );
}

fn disk_case(progs: &BTreeMap<i64, Prog>, case: &Value, k: usize, scratch: &Path, exe: &Path) -> Vec<(Value, Value)> {
    let prog = progs.get(&case["p"].as_i64().unwrap()).unwrap_or_else(|| tool_error("case for an unknown program"));
    let project = project_of(prog, case, None, "");
    let s_dir = scratch.join(format!("d{:05}", k));
    let p_dir = s_dir.join("proj");
    for (rel, text) in project.files.iter() {
        let path = p_dir.join(rel);
        std::fs::create_dir_all(path.parent().unwrap()).unwrap_or_else(|e| tool_error(&format!("{}: {}", path.display(), e)));
        std::fs::write(&path, text).unwrap_or_else(|e| tool_error(&format!("{}: {}", path.display(), e)));
    }
    let subst = |t: &str| t.replace("$P", &p_dir.to_string_lossy()).replace("$S", &s_dir.to_string_lossy());
    let lines: Vec<Value> = case["files"].as_array().unwrap().iter().map(|f| f["lines"].clone()).collect();
    let used: BTreeMap<String, String> = case["files"]
        .as_array()
        .unwrap()
        .iter()
        .map(|f| {
            let p = f["path"].as_str().unwrap().to_string();
            let t = project.files[&p].clone();
            (p, t)
        })
        .collect();
    let mut out = Vec::new();
    for (name, cwd, arg) in prog.spellings.iter() {
        let o = std::process::Command::new(exe)
            .arg("diskworker")
            .arg(subst(arg))
            .arg(&p_dir)
            .arg(prog.tree.join(","))
            .current_dir(subst(cwd))
            .output()
            .unwrap_or_else(|e| tool_error(&format!("cannot start a disk worker: {}", e)));
        if !o.status.success() {
            tool_error(&format!("disk worker exited with {:?}: {}", o.status.code(), String::from_utf8_lossy(&o.stderr)));
        }
        let w: Value = serde_json::from_str(String::from_utf8_lossy(&o.stdout).trim())
            .unwrap_or_else(|e| tool_error(&format!("disk worker output: {}", e)));
        let trace = json!({
            "p": case["p"], "m": case["m"], "v": case["v"], "spelling": name, "cwd": cwd, "arg": arg, "lines": lines,
            "class": w["class"], "errkind": w["errkind"], "prints": w["prints"], "status": w["status"],
            "reads": w["reads"], "twins": [],
        });
        let full = json!({
            "p": case["p"], "m": case["m"], "v": case["v"], "spelling": name, "cwd": cwd, "arg": arg, "files": used,
            "class": w["class"], "error": w["error"], "prints": w["prints"], "status": w["status"], "detail": "",
            "reads": w["reads"], "asked": w["asked"], "twins": [],
        });
        out.push((trace, full));
    }
    let _ = std::fs::remove_dir_all(&s_dir);
    out
}

fn load_dir(root: &Path, rel: &str, files: &mut BTreeMap<String, String>) {
    let dir = if rel.is_empty() { root.to_path_buf() } else { root.join(rel) };
    for e in std::fs::read_dir(&dir).unwrap() {
        let e = e.unwrap();
        let name = e.file_name().to_string_lossy().to_string();
        let r = if rel.is_empty() { name.clone() } else { format!("{}/{}", rel, name) };
        if e.file_type().unwrap().is_dir() {
            load_dir(root, &r, files);
        } else if name.ends_with(".sy") {
            files.insert(r, std::fs::read_to_string(e.path()).unwrap());
        }
    }
}

fn main() {
    let args: Vec<String> = std::env::args().collect();
    if args.len() < 3 {
        tool_error("usage: c12 run <progs> <cases> <trace> <full> | c12 probe <dir>");
    }
    match args[1].as_str() {
        "run" => {
            if args.len() < 6 {
                tool_error("usage: c12 run <progs> <cases> <trace> <full>");
            }
            let progs = load_progs(&args[2]);
            let cases: Vec<Value> = read_ndjson(Path::new(&args[3]));
            let stub = std::env::var("C12_STUB").unwrap_or_default();
            let recs = vharness::pool::par_map(&cases, |_, c| run_case(&progs, c, &stub));
            let (t, f): (Vec<Value>, Vec<Value>) = recs.into_iter().unzip();
            write_ndjson(Path::new(&args[4]), &t);
            write_ndjson(Path::new(&args[5]), &f);
            println!("{}", t.len());
        }
        "runl" => {
            if args.len() < 6 {
                tool_error("usage: c12 runl <info> <cases> <trace> <full>");
            }
            let info: Vec<Value> = read_ndjson(Path::new(&args[2]));
            let tree: Vec<String> = strs(&info.first().unwrap_or_else(|| tool_error("empty info file"))["tree"]);
            let cases: Vec<Value> = read_ndjson(Path::new(&args[3]));
            let recs = vharness::pool::par_map(&cases, |_, c| run_case_l(&tree, c));
            let (t, f): (Vec<Value>, Vec<Value>) = recs.into_iter().unzip();
            write_ndjson(Path::new(&args[4]), &t);
            write_ndjson(Path::new(&args[5]), &f);
            println!("{}", t.len());
        }
        "disk" => {
            if args.len() < 7 {
                tool_error("usage: c12 disk <progs> <cases> <trace> <full> <scratch>");
            }
            let progs = load_progs(&args[2]);
            let cases: Vec<Value> = read_ndjson(Path::new(&args[3]));
            let scratch = Path::new(&args[6]).to_path_buf();
            let exe = std::env::current_exe().unwrap_or_else(|e| tool_error(&format!("current_exe: {}", e)));
            let recs = vharness::pool::par_map(&cases, |k, c| disk_case(&progs, c, k, &scratch, &exe));
            let (t, f): (Vec<Value>, Vec<Value>) = recs.into_iter().flatten().unzip();
            write_ndjson(Path::new(&args[4]), &t);
            write_ndjson(Path::new(&args[5]), &f);
            let _ = std::fs::remove_dir_all(&scratch);
            println!("{}", t.len());
        }
        "diskworker" if args.len() == 5 => {
            let a = args.clone();
            std::thread::Builder::new()
                .stack_size(256 << 20)
                .spawn(move || diskworker(&a[2], &a[3], &a[4]))
                .unwrap()
                .join()
                .unwrap_or_else(|_| tool_error("disk worker thread died"));
        }
        "probe" => {
            let mut files = BTreeMap::new();
            load_dir(Path::new(&args[2]), "", &mut files);
            let p = Project { files, main: "main.sy".into() };
            let (res, reads) = compile_opts(&p, &CompileOpts::default());
            println!("reads {:?}", reads);
            match res {
                CompileResult::Ok { lua } => {
                    let obs = vharness::luarun::run(&lua);
                    println!("OK prints={:?} status={:?}", obs.prints, obs.status);
                    if args.len() > 3 {
                        println!("{}", vharness::project::body_of(&lua));
                    }
                }
                CompileResult::Err { errors, .. } => {
                    for e in errors {
                        println!("ERR kind={} file={} line={} col={} msg={}", e.kind, e.file, e.line, e.col_start, e.message);
                    }
                }
                CompileResult::Panic { message, .. } => println!("PANIC {}", message),
            }
        }
        _ => tool_error("unknown mode"),
    }
}
