//! C15 recorder: plant one local error in an otherwise valid three-file project, compile the unplanted
//! (base) and the planted program through the public API and record file/line of the FIRST error.
//!   c15 cross <trace.ndjson> <cases.ndjson>        the full index-addressed cross product (SyltDiag!Case)
//!   c15 free <count> <trace.ndjson> <cases.ndjson> seeded random variations (stacked shapes, deeper nesting)
//!   c15 one <case.json> <trace.ndjson>             re-render and re-run one case (replay)
//!   c15 probe <dir>                                compile the project in <dir> (main.sy) and print the errors
//! The expectation (which file, which line) is NOT computed here: TLC derives it from the recorded text
//! and marker offset (Trace_Diag / SyltDiag!LineOf).
//! Negative controls: C15_STUB=line1 pretends the implementation reports every error on line 1;
//! C15_STUB=f1 re-creates the tokenizer regression fixed by e1d1e87 (newlines inside string literals are
//! not counted, so everything after a multi-line literal is reported too early).

use rand::{Rng, SeedableRng};
use serde_json::{json, Value};
use std::collections::BTreeMap;
use std::path::Path;
use vharness::project::{compile, CompileResult, Project};
use vharness::util::*;

// index order must equal SyltDiag!Kinds / Files / Poss / Shapes
const KINDS: [&str; 14] = [
    "syn_rparen", "syn_char", "unresolved", "dup_global", "const_local", "const_global", "const_param",
    "op_mismatch", "arg_mismatch", "annot_mismatch", "break_outside", "conflict", "dup_import", "dup_from_import",
];
const FILES: [&str; 3] = ["main", "sibling", "sub"];
const POSS: [&str; 5] = ["top_first", "top_mid", "top_last", "fn_body", "if_branch"];
const SHAPES: [&str; 9] = [
    "none", "ascii_comment", "nonascii_comment", "nonascii_string", "ml_string2", "ml_string3", "blank_lines",
    "crlf", "tabs",
];

fn path_of(file: &str) -> &'static str {
    match file {
        "main" => "main.sy",
        "sibling" => "other.sy",
        _ => "sub/inner.sy",
    }
}

fn is_top(pos: &str) -> bool {
    pos.starts_with("top_")
}

fn applicable(kind: &str, pos: &str) -> bool {
    match kind {
        "dup_global" | "dup_import" | "dup_from_import" => is_top(pos), // a global can only be defined at the top level
        "const_local" => !is_top(pos), // a one-line function cannot hold a definition and an assignment
        _ => true,
    }
}

/// The planted construct's spelling. Statement kinds cannot stand at the top level (only definitions can):
/// there they are wrapped in a one-line function definition, which is still one construct on one line.
/// The planted construct's spelling (same table as SyltDiag!Construct; TLC checks the text at the marker).
fn construct(kind: &str, top: bool) -> &'static str {
    match (kind, top) {
        ("syn_rparen", _) => "pz :: )",
        ("syn_char", _) => "pz :: $",
        ("unresolved", _) => "pz :: nope",
        ("dup_global", _) => "ga :: 7",
        ("const_local", _) => "c = 5",
        ("const_global", false) => "ga = 5",
        ("const_global", true) => "pf :: fn do ga = 5 end",
        ("const_param", false) => "a = 5",
        ("const_param", true) => "pf :: fn k: int do k = 5 end",
        ("op_mismatch", _) => "pz :: 1 + \"a\"",
        ("arg_mismatch", _) => "pz :: helper(\"s\", 1)",
        ("annot_mismatch", _) => "pz: int = \"s\"",
        ("break_outside", false) => "break",
        ("break_outside", true) => "pf :: fn do break end",
        ("conflict", _) => "<<<<<<< HEAD",
        ("dup_import", _) => "leaf :: 7",
        ("dup_from_import", _) => "lw :: 7",
        _ => tool_error("unknown kind"),
    }
}

/// One preceding-text shape as source lines (SyltDiag!ShapeLine shows TLC the '@'-abstraction of these).
fn shape_line(shape: &str, n: usize) -> Option<String> {
    Some(match shape {
        "ascii_comment" => "// a plain comment: x :: ) $ break".to_string(),
        "nonascii_comment" => "// kommentar åäö → ✓ 日本".to_string(),
        "nonascii_string" => format!("s{} :: \"grüße → ✓ 日本\"", n),
        "ml_string2" => format!("s{} :: \"first\nsecond\"", n),
        "ml_string3" => format!("s{} :: \"first\nsecond\nthird\"", n),
        "blank_lines" => "\n".to_string(),
        _ => return None,
    })
}

#[derive(Clone, Debug)]
struct Line {
    level: usize,
    text: String,
    planted: bool,
}

fn ln(level: usize, text: &str) -> Line {
    Line { level, text: text.to_string(), planted: false }
}

/// Where something can be put in a file template. `Nested(n)`: inside n further ifs inside the if-branch.
#[derive(Clone, Debug, PartialEq)]
enum Place {
    TopFirst,
    TopMid,
    TopLast,
    FnBody,
    IfBranch,
    Nested(usize),
}

fn place_of(pos: &str, depth: usize) -> Place {
    match pos {
        "top_first" => Place::TopFirst,
        "top_mid" => Place::TopMid,
        "top_last" => Place::TopLast,
        "fn_body" => Place::FnBody,
        "if_branch" => Place::IfBranch,
        "nested" => Place::Nested(depth),
        _ => tool_error("unknown position class"),
    }
}

/// The valid template of one file, with `inserts[place]` put at that place (in the given order).
fn template(file: &str, depth: usize, inserts: &[(Place, Line)]) -> Vec<Line> {
    let mut out: Vec<Line> = Vec::new();
    let put = |out: &mut Vec<Line>, place: Place, level: usize| {
        for (p, l) in inserts.iter() {
            if *p == place {
                let mut l = l.clone();
                l.level = level;
                out.push(l);
            }
        }
    };
    put(&mut out, Place::TopFirst, 0);
    out.push(ln(0, "use /leaf"));
    out.push(ln(0, "from /leaf use lv as lw"));
    if file == "main" {
        out.push(ln(0, "use other"));
        out.push(ln(0, "use sub/inner"));
    }
    out.push(ln(0, "ga :: 1"));
    out.push(ln(0, "gb := leaf.lv + lw"));
    put(&mut out, Place::TopMid, 0);
    out.push(ln(0, "helper :: fn a: int, b: int -> int do"));
    out.push(ln(1, "c :: a + b"));
    out.push(ln(1, "d := c"));
    put(&mut out, Place::FnBody, 1);
    out.push(ln(1, "if d > 0 do"));
    out.push(ln(2, "d = d + 1"));
    put(&mut out, Place::IfBranch, 2);
    for i in 0..depth {
        out.push(ln(2 + i, &format!("if d > {} do", i + 1)));
        out.push(ln(3 + i, "d = d + ga"));
    }
    if depth > 0 {
        put(&mut out, Place::Nested(depth), 2 + depth);
    }
    for i in (0..depth).rev() {
        out.push(ln(2 + i, "end"));
    }
    out.push(ln(1, "end"));
    out.push(ln(1, "ret d"));
    out.push(ln(0, "end"));
    if file == "main" {
        out.push(ln(0, "start :: fn do"));
        out.push(ln(1, "x := helper(ga, gb)"));
        out.push(ln(1, "y :: other.helper(x, other.ga)"));
        out.push(ln(1, "z :: inner.helper(y, inner.gb)"));
        out.push(ln(1, "x = z"));
        out.push(ln(0, "end"));
    } else {
        out.push(ln(0, "gd :: helper(ga, 3)"));
    }
    put(&mut out, Place::TopLast, 0);
    out
}

#[derive(Clone, Copy, Debug, Default)]
struct Style {
    crlf: bool,
    tabs: bool,
}

/// Join lines; returns (text, 1-based character offset of the planted line's first non-blank character).
fn join(lines: &[Line], st: Style) -> (String, usize) {
    let unit = if st.tabs { "\t" } else { "    " };
    let nl = if st.crlf { "\r\n" } else { "\n" };
    let mut s = String::new();
    let mut marker = 0usize;
    for l in lines {
        s.push_str(&unit.repeat(l.level));
        if l.planted {
            marker = s.chars().count() + 1;
        }
        s.push_str(&l.text.replace('\n', nl));
        s.push_str(nl);
    }
    (s, marker)
}

#[derive(Clone, Debug)]
struct Case {
    idx: usize,
    kind: String,
    file: String,
    pos: String,
    depth: usize,
    /// label of the preceding-text shape ("stack" for the random variations)
    shape: String,
    /// (place name, nesting depth of that place, shape) in file order per place
    shapes: Vec<(String, String)>,
    crlf: bool,
    tabs: bool,
}

fn case_at(idx: usize) -> Case {
    // same mixed-radix layout as SyltDiag!Case: kind fastest, then file, position, shape
    let m = idx - 1;
    let kind = KINDS[m % 14];
    let file = FILES[(m / 14) % 3];
    let pos = POSS[(m / 42) % 5];
    let shape = SHAPES[(m / 210) % 9];
    let shapes = if shape_line(shape, 1).is_some() { vec![(pos.to_string(), shape.to_string())] } else { vec![] };
    Case {
        idx,
        kind: kind.into(),
        file: file.into(),
        pos: pos.into(),
        depth: 0,
        shape: shape.into(),
        shapes,
        crlf: shape == "crlf",
        tabs: shape == "tabs",
    }
}

const N_CROSS: usize = 14 * 3 * 5 * 9;

fn case_json(c: &Case) -> Value {
    json!({"idx": c.idx, "kind": c.kind, "file": c.file, "pos": c.pos, "depth": c.depth, "shape": c.shape,
           "shapes": c.shapes, "crlf": c.crlf, "tabs": c.tabs})
}

fn case_from_json(v: &Value) -> Case {
    let s = |k: &str| v[k].as_str().unwrap_or_else(|| tool_error(&format!("case field {} missing", k))).to_string();
    Case {
        idx: v["idx"].as_u64().unwrap_or(1) as usize,
        kind: s("kind"),
        file: s("file"),
        pos: s("pos"),
        depth: v["depth"].as_u64().unwrap_or(0) as usize,
        shape: s("shape"),
        shapes: v["shapes"]
            .as_array()
            .map(|a| a.iter().map(|p| (p[0].as_str().unwrap().to_string(), p[1].as_str().unwrap().to_string())).collect())
            .unwrap_or_default(),
        crlf: v["crlf"].as_bool().unwrap_or(false),
        tabs: v["tabs"].as_bool().unwrap_or(false),
    }
}

struct Rendered {
    planted: Project,
    base: Project,
    path: String,
    text: String,
    marker: usize,
}

fn render(c: &Case) -> Rendered {
    let st = Style { crlf: c.crlf, tabs: c.tabs };
    let top = is_top(&c.pos);
    let mut inserts: Vec<(Place, Line)> = Vec::new();
    for (n, (pl, sh)) in c.shapes.iter().enumerate() {
        let text = shape_line(sh, n + 1).unwrap_or_else(|| tool_error("shape without a line"));
        inserts.push((place_of(pl, c.depth), Line { level: 0, text, planted: false }));
    }
    let base_inserts = inserts.clone();
    inserts.push((place_of(&c.pos, c.depth), Line { level: 0, text: construct(&c.kind, top).to_string(), planted: true }));
    let mut planted = BTreeMap::new();
    let mut base = BTreeMap::new();
    let mut text = String::new();
    let mut marker = 0;
    for f in FILES.iter() {
        let p = path_of(f).to_string();
        if *f == c.file {
            let (t, m) = join(&template(f, c.depth, &inserts), st);
            let (b, _) = join(&template(f, c.depth, &base_inserts), st);
            text = t.clone();
            marker = m;
            planted.insert(p.clone(), t);
            base.insert(p, b);
        } else {
            let (t, _) = join(&template(f, 0, &[]), Style::default());
            planted.insert(p.clone(), t.clone());
            base.insert(p, t);
        }
    }
    planted.insert("leaf.sy".to_string(), "lv :: 2\n".to_string());
    base.insert("leaf.sy".to_string(), "lv :: 2\n".to_string());
    if marker == 0 {
        tool_error("planted line was not rendered");
    }
    Rendered {
        planted: Project { files: planted, main: "main.sy".into() },
        base: Project { files: base, main: "main.sy".into() },
        path: path_of(&c.file).to_string(),
        text,
        marker,
    }
}

/// TLC cannot carry non-ASCII characters: show it a character-for-character abstraction ('@').
fn abs(s: &str) -> String {
    s.chars().map(|c| if c.is_ascii() { c } else { '@' }).collect()
}

/// (record for TLC, full case with the raw files for replays/evidence)
fn run_case(c: &Case) -> (Value, Value) {
    let r = render(c);
    let base_res = compile(&r.base);
    let res = compile(&r.planted);
    let stub = std::env::var("C15_STUB").ok();
    let (efile, mut eline, nerr) = match &res {
        CompileResult::Err { errors, .. } if !errors.is_empty() => (errors[0].file.clone(), errors[0].line, errors.len()),
        _ => (String::new(), 0, 0),
    };
    if stub.as_deref() == Some("line1") && eline > 0 {
        eline = 1;
    }
    if stub.as_deref() == Some("f1") && eline > 0 && efile == r.path {
        // the regression fixed by e1d1e87: newlines inside string literals are not counted
        let mut in_str = false;
        let mut lost = 0;
        for ch in r.text.chars().take(r.marker - 1) {
            if ch == '"' {
                in_str = !in_str;
            } else if ch == '\n' && in_str {
                lost += 1;
            }
        }
        eline = eline.saturating_sub(lost).max(1);
    }
    let trace = json!({
        "idx": c.idx, "kind": c.kind, "file": c.file, "pos": c.pos, "shape": c.shape,
        "path": r.path, "text": abs(&r.text), "marker": r.marker,
        "base_ok": base_res.is_ok(), "res": res.class(), "efile": efile, "eline": eline,
    });
    let base_err = match &base_res {
        CompileResult::Err { errors, .. } => errors.first().map(|e| format!("{}:{} {}", e.file, e.line, e.rendered)).unwrap_or_default(),
        CompileResult::Panic { message, .. } => message.clone(),
        _ => String::new(),
    };
    let first = match &res {
        CompileResult::Err { errors, .. } => errors.first().map(|e| e.rendered.clone()).unwrap_or_default(),
        CompileResult::Panic { message, .. } => message.clone(),
        _ => String::new(),
    };
    let full = json!({
        "case": case_json(c), "files": r.planted.files, "path": r.path, "marker": r.marker,
        "base_ok": base_res.is_ok(), "base_error": base_err, "res": res.class(), "n_errors": nerr,
        "efile": efile, "eline": eline, "first_error_rendered": first,
    });
    (trace, full)
}

fn place_rank(p: &str) -> usize {
    match p {
        "top_first" => 0,
        "top_mid" => 1,
        "fn_body" => 2,
        "if_branch" => 3,
        "nested" => 4,
        _ => 5, // top_last
    }
}

/// Seeded random variation: several preceding shapes stacked at places before the planted construct,
/// optionally CRLF and/or tab indentation, planting up to three ifs deeper.
fn free_case(idx: usize, rng: &mut rand::rngs::StdRng) -> Case {
    const PL: [&str; 6] = ["top_first", "top_mid", "top_last", "fn_body", "if_branch", "nested"];
    const LINE_SHAPES: [&str; 6] =
        ["ascii_comment", "nonascii_comment", "nonascii_string", "ml_string2", "ml_string3", "blank_lines"];
    loop {
        let kind = KINDS[rng.gen_range(0..KINDS.len())];
        let pos = PL[rng.gen_range(0..PL.len())];
        if !applicable(kind, pos) {
            continue;
        }
        let depth = if pos == "nested" { rng.gen_range(1..4) } else { rng.gen_range(0..3) };
        let mut shapes = Vec::new();
        for _ in 0..rng.gen_range(2..5) {
            let cands: Vec<&str> =
                PL.iter().copied().filter(|p| place_rank(p) <= place_rank(pos) && (*p != "nested" || depth > 0)).collect();
            let pl = cands[rng.gen_range(0..cands.len())];
            shapes.push((pl.to_string(), LINE_SHAPES[rng.gen_range(0..LINE_SHAPES.len())].to_string()));
        }
        return Case {
            idx,
            kind: kind.into(),
            file: FILES[rng.gen_range(0..3)].into(),
            pos: pos.into(),
            depth,
            shape: "stack".into(),
            shapes,
            crlf: rng.gen_range(0..4) == 0,
            tabs: rng.gen_range(0..4) == 0,
        };
    }
}

fn load_dir(root: &Path, rel: &str, files: &mut BTreeMap<String, String>) {
    let dir = if rel.is_empty() { root.to_path_buf() } else { root.join(rel) };
    for e in std::fs::read_dir(&dir).unwrap() {
        let e = e.unwrap();
        let name = e.file_name().to_string_lossy().to_string();
        let r = if rel.is_empty() { name.clone() } else { format!("{}/{}", rel, name) };
        if e.file_type().unwrap().is_dir() {
            load_dir(root, &r, files);
        } else if name.ends_with(".sy") {
            files.insert(r, std::fs::read_to_string(e.path()).unwrap());
        }
    }
}

fn emit(cases: &[Case], trace: &str, full: &str) {
    let recs = vharness::pool::par_map(cases, |_, c| run_case(c));
    let (t, f): (Vec<Value>, Vec<Value>) = recs.into_iter().unzip();
    write_ndjson(Path::new(trace), &t);
    write_ndjson(Path::new(full), &f);
    println!("{}", t.len());
}

fn main() {
    let args: Vec<String> = std::env::args().collect();
    if args.len() < 3 {
        tool_error("usage: c15 cross|free|one|probe ...");
    }
    match args[1].as_str() {
        "cross" => {
            let cases: Vec<Case> = (1..=N_CROSS).map(case_at).filter(|c| applicable(&c.kind, &c.pos)).collect();
            emit(&cases, &args[2], &args[3]);
        }
        "free" => {
            let count: usize = args[2].parse().unwrap();
            let mut rng = rand::rngs::StdRng::seed_from_u64(seed() ^ 0xC15);
            let cases: Vec<Case> = (1..=count).map(|i| free_case(i, &mut rng)).collect();
            emit(&cases, &args[3], &args[4]);
        }
        "one" => {
            let v: Value = serde_json::from_str(&std::fs::read_to_string(&args[2]).unwrap())
                .unwrap_or_else(|e| tool_error(&format!("bad case json: {}", e)));
            let c = case_from_json(&v);
            let (t, f) = run_case(&c);
            write_ndjson(Path::new(&args[3]), &[t]);
            println!("{}", serde_json::to_string(&f).unwrap());
        }
        "probe" => {
            let mut files = BTreeMap::new();
            load_dir(Path::new(&args[2]), "", &mut files);
            let p = Project { files, main: "main.sy".into() };
            match compile(&p) {
                CompileResult::Ok { .. } => println!("OK"),
                CompileResult::Err { errors, .. } => {
                    for e in errors {
                        println!("ERR kind={} file={} line={} col={} msg={}", e.kind, e.file, e.line, e.col_start, e.message);
                    }
                }
                CompileResult::Panic { message, .. } => println!("PANIC {}", message),
            }
        }
        _ => tool_error("unknown mode"),
    }
}
