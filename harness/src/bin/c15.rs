//! C15 recorder: plant one local error in an otherwise valid three-file project, compile the unplanted
//! (base) and the planted program through the public API and record file/line of the FIRST error.
//!   c15 cross <trace.ndjson> <cases.ndjson>        the full index-addressed cross product (SyltDiag!Case)
//!   c15 free <count> <trace.ndjson> <cases.ndjson> seeded random variations (stacked shapes, deeper nesting)
//!   c15 one <case.json> <trace.ndjson>             re-render and re-run one case (replay)
//!   c15 probe <dir>                                compile the project in <dir> (main.sy) and print the errors
//! The expectation (which file, which line) is NOT computed here: TLC derives it from the recorded text
//! and marker offset (Trace_Diag / SyltDiag!LineOf).
//! Negative controls: C15_STUB=line1 pretends the implementation reports every error on line 1;
//! C15_STUB=f1 re-creates the tokenizer regression fixed by e1d1e87 (newlines inside string literals are
//! not counted, so everything after a multi-line literal is reported too early);
//! C15_STUB=lines counts a literal's newlines the way `str::lines()` does (a literal whose content ends with a
//! newline is counted one line short); C15_STUB=xfile relates line numbers of different files when it orders the
//! two introductions of a colliding imported name (the name's own definition wins when it stands on a later line
//! number than the colliding import statement).
//! C15_STUB=stmt locates every error at the first line of the planted statement instead of at the offending element.
//! C15_STUB=first reports a duplicate definition (dd_ kinds) at the FIRST writing of the name; C15_STUB=decoy loses one
//! line of a conflict kind's location when a `<<<<<<<` look-alike stands earlier in the file.
//! `cross` renders only the cases named by C15_SHAPES / C15_KINDS / C15_FILES (comma lists) when these are set.

use rand::{Rng, SeedableRng};
use serde_json::{json, Value};
use std::collections::BTreeMap;
use std::path::Path;
use vharness::project::{compile, CompileResult, Project};
use vharness::util::*;

// index order must equal SyltDiag!Kinds / Files / Poss / Shapes
const OLD_KINDS: [&str; 31] = [
    "syn_rparen", "syn_char", "unresolved", "dup_global", "const_local", "const_global", "const_param",
    "op_mismatch", "arg_mismatch", "annot_mismatch", "break_outside", "conflict", "dup_import", "dup_from_import",
    "dup_use_use", "dup_from_from", "dup_from_use", "dup_use_from",
    "ml_arg_paren", "ml_arg_prime", "ml_arg_nested", "ml_unres_arg", "ml_unres_list", "ml_unres_tuple", "ml_unres_blob",
    "ml_from_2nd", "ml_from_3rd", "ml_from_last", "ml_op_paren", "ml_op_cond", "ml_const_lambda",
];
const CONFLICT_KINDS2: [&str; 4] = ["conflict_eq", "conflict_gt", "conflict_block", "conflict_two"];
// kinds of definition of a top-level name (SyltDiag!DefForms): planted spelling after the name, name the templates
// define with that kind (SyltDiag!PlantDef / OrigName)
const DEF_FORMS: [(&str, &str, &str); 4] = [
    ("val", " :: 7", "Dv"),
    ("fn", " :: fn -> int do ret 7 end", "Df"),
    ("blob", " :: blob { z: int }", "Db"),
    ("enum", " :: enum Za, Zb end", "De"),
];
// imports that bring a name in (SyltDiag!ImpForms / PlantImp): spelling before the name
const IMP_FORMS: [(&str, &str); 2] = [("use", "use /twin as "), ("from", "from /twin use lv as ")];
const DECL_KINDS: [&str; 9] = [
    "dup_field1", "dup_variant1", "ml_dup_field_adj", "ml_dup_field_gap", "ml_dup_field_last", "ml_dup_field_col",
    "ml_dup_variant_adj", "ml_dup_variant_gap", "ml_dup_variant_last",
];
const MARK_SHAPES: [&str; 7] =
    ["mk_lt_cmt", "mk_lt_str", "mk_lt_mlstr", "mk_eq_mlstr", "mk_gt_mlstr", "mk_eqgt_cmt", "mk_lt_two"];

/// SyltDiag!Kinds: the older kinds, the further conflict kinds, dd_<planted>_<orig> (planted fastest), di_<import>_<orig> (import fastest), the declarations.
fn kinds() -> &'static Vec<String> {
    static K: std::sync::OnceLock<Vec<String>> = std::sync::OnceLock::new();
    K.get_or_init(|| {
        let mut v: Vec<String> = OLD_KINDS.iter().chain(CONFLICT_KINDS2.iter()).map(|s| s.to_string()).collect();
        for (of, _, _) in DEF_FORMS.iter() {
            for (pf, _, _) in DEF_FORMS.iter() {
                v.push(format!("dd_{}_{}", pf, of));
            }
        }
        for (of, _, _) in DEF_FORMS.iter() {
            for im in IMP_FORMS.iter() {
                v.push(format!("di_{}_{}", im.0, of));
            }
        }
        v.extend(DECL_KINDS.iter().map(|s| s.to_string()));
        v
    })
}

/// (import form, kind of the templates' definition) of a di_ kind
fn di_pair(kind: &str) -> Option<(usize, usize)> {
    let rest = kind.strip_prefix("di_")?;
    let (im, of) = rest.split_once('_')?;
    Some((IMP_FORMS.iter().position(|d| d.0 == im)?, DEF_FORMS.iter().position(|d| d.0 == of)?))
}

/// (planted kind of definition, kind of the templates' definition) of a dd_ kind
fn dd_pair(kind: &str) -> Option<(usize, usize)> {
    let rest = kind.strip_prefix("dd_")?;
    let (pf, of) = rest.split_once('_')?;
    Some((DEF_FORMS.iter().position(|d| d.0 == pf)?, DEF_FORMS.iter().position(|d| d.0 == of)?))
}

const FILES: [&str; 3] = ["main", "sibling", "sub"];
const POSS: [&str; 5] = ["top_first", "top_mid", "top_last", "fn_body", "if_branch"];
const BASE_SHAPES: [&str; 9] = [
    "none", "ascii_comment", "nonascii_comment", "nonascii_string", "ml_string2", "ml_string3", "blank_lines",
    "crlf", "tabs",
];
// string literals spanning lines: content x place (SyltDiag!Contents / StrPlaces / StrText)
const CONTENTS: [(&str, &str); 9] = [
    ("two", "first\nsecond"),
    ("three", "first\nsecond\nthird"),
    ("endnl", "first\n"),
    ("startnl", "\nsecond"),
    ("onlynl", "\n\n"),
    ("blankmid", "first\n\nthird"),
    ("endnl2", "first\n\n"),
    ("crlfmid", "first\r\nsecond"),
    ("crlfend", "first\r\n"),
];
const STR_PLACES: [&str; 3] = ["init", "arg", "stmt"];
const COMBO_SHAPES: [&str; 5] = ["cmt_endnl", "cmt_startnl", "cmt_onlynl", "endnl_cmt", "nonascii_endnl"];
const RELS: [&str; 3] = ["def_earlier", "def_equal", "def_later"];
const CMT: &str = "// a plain comment: x :: ) $ break";

/// SyltDiag!Shapes: the older shapes, then str_<content>_<place> (place slowest; (two|three, init) are the older
/// ml_string2 / ml_string3), then the comment combinations.
fn shapes() -> Vec<String> {
    let mut v: Vec<String> = BASE_SHAPES.iter().map(|s| s.to_string()).collect();
    for pl in STR_PLACES.iter() {
        for (ct, _) in CONTENTS.iter() {
            if !(*pl == "init" && (*ct == "two" || *ct == "three")) {
                v.push(format!("str_{}_{}", ct, pl));
            }
        }
    }
    v.extend(COMBO_SHAPES.iter().map(|s| s.to_string()));
    v.extend(MARK_SHAPES.iter().map(|s| s.to_string()));
    v
}

fn content(ct: &str) -> &'static str {
    CONTENTS.iter().find(|(c, _)| *c == ct).map(|(_, t)| *t).unwrap_or_else(|| tool_error("unknown string content"))
}

/// SyltDiag!WrapStr: a string literal in one of the places a string can stand.
fn wrap_str(pl: &str, s: &str, n: usize, top: bool) -> String {
    match (pl, top) {
        ("init", _) => format!("s{} :: \"{}\"", n, s),
        ("arg", _) => format!("s{} :: sid(\"{}\")", n, s),
        ("stmt", true) => format!("sf{} :: fn do \"{}\" end", n, s),
        ("stmt", false) => format!("\"{}\"", s),
        _ => tool_error("unknown string place"),
    }
}

fn is_from_kind(kind: &str) -> bool {
    matches!(kind, "dup_from_import" | "dup_from_from" | "dup_from_use" | "dup_use_from")
}

fn path_of(file: &str) -> &'static str {
    match file {
        "main" => "main.sy",
        "sibling" => "other.sy",
        _ => "sub/inner.sy",
    }
}

fn is_top(pos: &str) -> bool {
    pos.starts_with("top_")
}

fn applicable(kind: &str, pos: &str, rel: &str) -> bool {
    (match kind {
        // a global can only be defined, a module only be imported at the top level
        // (nor a type be declared: dup_field / dup_variant)
        k if k.starts_with("dup_") || k.starts_with("ml_from_") || k.starts_with("dd_") || k.starts_with("di_") || k.starts_with("ml_dup_") => is_top(pos),
        "const_local" => !is_top(pos), // a one-line function cannot hold a definition and an assignment
        _ => true,
    }) && (rel == "def_earlier" || is_from_kind(kind)) // the layout of the imported modules only matters to name imports
}

/// The planted construct's spelling. Statement kinds cannot stand at the top level (only definitions can):
/// there they are wrapped in a one-line function definition, which is still one construct on one line.
/// The planted construct's spelling (same table as SyltDiag!Construct; TLC checks the text at the marker).
fn construct(kind: &str, top: bool) -> String {
    if let Some((pf, of)) = dd_pair(kind) {
        return format!("{}{}", DEF_FORMS[of].2, DEF_FORMS[pf].1);
    }
    if let Some((im, of)) = di_pair(kind) {
        return format!("{}{}", IMP_FORMS[im].1, DEF_FORMS[of].2);
    }
    (match (kind, top) {
        ("syn_rparen", _) => "pz :: )",
        ("syn_char", _) => "pz :: $",
        ("unresolved", _) => "pz :: nope",
        ("dup_global", _) => "ga :: 7",
        ("const_local", _) => "c = 5",
        ("const_global", false) => "ga = 5",
        ("const_global", true) => "pf :: fn do ga = 5 end",
        ("const_param", false) => "a = 5",
        ("const_param", true) => "pf :: fn k: int do k = 5 end",
        ("op_mismatch", _) => "pz :: 1 + \"a\"",
        ("arg_mismatch", _) => "pz :: helper(\"s\", 1)",
        ("annot_mismatch", _) => "pz: int = \"s\"",
        ("break_outside", false) => "break",
        ("break_outside", true) => "pf :: fn do break end",
        ("conflict", _) => "<<<<<<< HEAD",
        ("dup_import", _) => "leaf :: 7",
        ("dup_from_import", _) => "lw :: 7",
        ("dup_use_use", _) => "use /twin as leaf",
        ("dup_from_from", _) => "from /twin use lv as lw",
        ("dup_from_use", _) => "from /twin use lv as leaf",
        ("dup_use_from", _) => "use /twin as lw",
        ("conflict_eq", _) => "=======",
        ("conflict_gt", _) => ">>>>>>> other",
        ("dup_field1", _) => "Pb :: blob { x: int, y: int, x: str }",
        ("dup_variant1", _) => "Pe :: enum Va, Vb int, Va str end",
        _ => tool_error("unknown kind"),
    })
    .to_string()
}

/// The planted form: its lines as (relative indentation level, text) and the offending element as
/// (line of the form, characters before it on that line) - same table as SyltDiag!FormLines / Elem; TLC checks the
/// whole form and the element's spelling at the marker. The older kinds are one line.
fn form(kind: &str, top: bool) -> (Vec<(usize, String)>, (usize, usize)) {
    let (lines, el): (Vec<(usize, &str)>, (usize, usize)) = match kind {
        "ml_arg_paren" => (vec![(0, "pz :: helper("), (1, "1,"), (1, "\"s\","), (0, ")")], (3, 0)),
        "ml_arg_prime" => (vec![(0, "pz :: helper' 1,"), (1, "\"s\"")], (2, 0)),
        "ml_arg_nested" => (
            vec![(0, "pz :: helper("), (1, "helper("), (2, "1,"), (2, "\"s\","), (1, "),"), (1, "2,"), (0, ")")],
            (4, 0),
        ),
        "ml_unres_arg" => (vec![(0, "pz :: helper("), (1, "1,"), (1, "nope,"), (0, ")")], (3, 0)),
        "ml_unres_list" => (vec![(0, "pz :: ["), (1, "1,"), (1, "nope,"), (0, "]")], (3, 0)),
        "ml_unres_tuple" => (vec![(0, "pz :: ("), (1, "1,"), (1, "nope,"), (0, ")")], (3, 0)),
        "ml_unres_blob" => (vec![(0, "pz :: Bl {"), (1, "x: 1,"), (1, "y: nope,"), (0, "}")], (3, 3)),
        "ml_from_2nd" => (
            vec![(0, "from /leaf use ("), (1, "lu as m1,"), (1, "nope as m2,"), (1, "lt as m3,"), (0, ")")],
            (3, 0),
        ),
        "ml_from_3rd" => (
            vec![(0, "from /leaf use ("), (1, "lu as m1,"), (1, "lt as m2,"), (1, "nope as m3,"), (1, "lv as m4,"), (0, ")")],
            (4, 0),
        ),
        "ml_from_last" => (
            vec![(0, "from /leaf use ("), (1, "lu as m1,"), (1, "lt as m2,"), (1, "lv as m3,"), (1, "nope"), (0, ")")],
            (5, 0),
        ),
        "ml_op_paren" => (vec![(0, "pz :: ("), (1, "2 * ("), (2, "1 + \"a\""), (1, ")"), (0, ")")], (3, 0)),
        "ml_op_cond" if top => (
            vec![
                (0, "pf :: fn do"), (1, "if ("), (2, "ga > 0 and"), (2, "1 < \"a\""), (1, ") do"), (2, "ga"), (1, "end"),
                (0, "end"),
            ],
            (4, 0),
        ),
        "ml_op_cond" => (
            vec![(0, "if ("), (1, "ga > 0 and"), (1, "1 < \"a\""), (0, ") do"), (1, "ga"), (0, "end")],
            (3, 0),
        ),
        "ml_const_lambda" => (vec![(0, "pz :: apply(fn do"), (1, "ga = 5"), (0, "end)")], (2, 0)),
        "conflict_block" => (
            vec![(0, "<<<<<<< HEAD"), (0, "pa :: 1"), (0, "======="), (0, "pa :: 2"), (0, ">>>>>>> other")],
            (1, 0),
        ),
        "conflict_two" => (vec![(0, "<<<<<<< HEAD"), (0, "pa :: \"<<<<<<< mine\""), (0, "<<<<<<< other")], (1, 0)),
        "ml_dup_field_adj" => (vec![(0, "Pb :: blob {"), (1, "x: int,"), (1, "x: str,"), (0, "}")], (3, 0)),
        "ml_dup_field_gap" => (
            vec![(0, "Pb :: blob {"), (1, "x: int,"), (1, "y: int,"), (1, "x: str,"), (1, "z: int,"), (0, "}")],
            (4, 0),
        ),
        "ml_dup_field_last" => (
            vec![(0, "Pb :: blob {"), (1, "x: int,"), (1, "y: int,"), (1, "z: int,"), (1, "x: str"), (0, "}")],
            (5, 0),
        ),
        "ml_dup_field_col" => (vec![(0, "Pb :: blob {"), (1, "x: int,"), (1, "y: int, x: str,"), (0, "}")], (3, 8)),
        "ml_dup_variant_adj" => (vec![(0, "Pe :: enum"), (1, "Va,"), (1, "Va,"), (0, "end")], (3, 0)),
        "ml_dup_variant_gap" => (
            vec![(0, "Pe :: enum"), (1, "Va,"), (1, "Vb int,"), (1, "Va str,"), (1, "Vc,"), (0, "end")],
            (4, 0),
        ),
        "ml_dup_variant_last" => (vec![(0, "Pe :: enum"), (1, "Va"), (1, "Vb"), (1, "Vc"), (1, "Va"), (0, "end")], (5, 0)),
        "dup_field1" => return (vec![(0, construct(kind, top))], (1, 29)),
        "dup_variant1" => return (vec![(0, construct(kind, top))], (1, 23)),
        _ => return (vec![(0, construct(kind, top))], (1, 0)),
    };
    (lines.into_iter().map(|(l, t)| (l, t.to_string())).collect(), el)
}

/// SyltDiag!Elem2: the second offending element (line of the form, column) of a form that has two.
fn form_elem2(kind: &str) -> Option<(usize, usize)> {
    match kind {
        "conflict_two" => Some((3, 0)),
        _ => None,
    }
}

/// One preceding-text shape as source lines (SyltDiag!ShapeLines shows TLC the '@'-abstraction of these);
/// a "line" holds the newlines of its literal. `top`: written at the top level.
fn shape_lines(shape: &str, n: usize, top: bool) -> Option<Vec<String>> {
    Some(match shape {
        "ascii_comment" => vec![CMT.to_string()],
        "nonascii_comment" => vec!["// kommentar åäö → ✓ 日本".to_string()],
        "nonascii_string" => vec![format!("s{} :: \"grüße → ✓ 日本\"", n)],
        "ml_string2" => vec![wrap_str("init", content("two"), n, top)],
        "ml_string3" => vec![wrap_str("init", content("three"), n, top)],
        "blank_lines" => vec!["\n".to_string()],
        "cmt_endnl" => vec![CMT.to_string(), wrap_str("init", content("endnl"), n, top)],
        "cmt_startnl" => vec![CMT.to_string(), wrap_str("init", content("startnl"), n, top)],
        "cmt_onlynl" => vec![CMT.to_string(), wrap_str("init", content("onlynl"), n, top)],
        "endnl_cmt" => vec![format!("{} // trailing: x :: ) $", wrap_str("init", content("endnl"), n, top))],
        "nonascii_endnl" => vec![format!("s{} :: \"grüße → ✓ 日本\n\"", n)],
        "mk_lt_cmt" => vec!["// after a merge look for \"<<<<<<< HEAD\" in here".to_string()],
        "mk_lt_str" => vec![wrap_str("init", "<<<<<<< HEAD", n, top)],
        "mk_lt_mlstr" => vec![wrap_str("init", "first\n  <<<<<<< HEAD", n, top)],
        "mk_eq_mlstr" => vec![wrap_str("init", "first\n=======\nsecond", n, top)],
        "mk_gt_mlstr" => vec![wrap_str("init", "first\n>>>>>>> other", n, top)],
        "mk_eqgt_cmt" => vec!["// =======".to_string(), "// >>>>>>> other".to_string()],
        "mk_lt_two" => vec!["// <<<<<<< HEAD and <<<<<<<<<<<<<< again".to_string(), wrap_str("init", "x <<<<<<< y", n, top)],
        _ => {
            let rest = shape.strip_prefix("str_")?;
            let (ct, pl) = rest.split_once('_')?;
            vec![wrap_str(pl, content(ct), n, top)]
        }
    })
}

#[derive(Clone, Debug)]
struct Line {
    /// indentation level (inserted lines: relative to the place they are put at)
    level: usize,
    text: String,
    /// this line holds the offending element, `col` characters into its text
    planted: bool,
    col: usize,
    /// this line is the first line of the planted form
    fstart: bool,
    /// this line holds the second offending element (forms with two), `col2` characters into its text
    planted2: bool,
    col2: usize,
}

fn ln(level: usize, text: &str) -> Line {
    Line { level, text: text.to_string(), planted: false, col: 0, fstart: false, planted2: false, col2: 0 }
}

/// Where something can be put in a file template. `Nested(n)`: inside n further ifs inside the if-branch.
#[derive(Clone, Debug, PartialEq)]
enum Place {
    TopFirst,
    TopMid,
    TopLast,
    FnBody,
    IfBranch,
    Nested(usize),
}

fn place_of(pos: &str, depth: usize) -> Place {
    match pos {
        "top_first" => Place::TopFirst,
        "top_mid" => Place::TopMid,
        "top_last" => Place::TopLast,
        "fn_body" => Place::FnBody,
        "if_branch" => Place::IfBranch,
        "nested" => Place::Nested(depth),
        _ => tool_error("unknown position class"),
    }
}

/// The valid template of one file, with `inserts[place]` put at that place (in the given order).
fn template(file: &str, depth: usize, inserts: &[(Place, Line)]) -> Vec<Line> {
    let mut out: Vec<Line> = Vec::new();
    let put = |out: &mut Vec<Line>, place: Place, level: usize| {
        for (p, l) in inserts.iter() {
            if *p == place {
                let mut l = l.clone();
                l.level += level;
                out.push(l);
            }
        }
    };
    put(&mut out, Place::TopFirst, 0);
    out.push(ln(0, "use /leaf"));
    out.push(ln(0, "from /leaf use lv as lw"));
    if file == "main" {
        out.push(ln(0, "use other"));
        out.push(ln(0, "use sub/inner"));
    }
    out.push(ln(0, "ga :: 1"));
    out.push(ln(0, "gb := leaf.lv + lw"));
    out.push(ln(0, "sid :: fn s: str -> str do ret s end"));
    out.push(ln(0, "Bl :: blob { x: int, y: int }"));
    out.push(ln(0, "apply :: fn f: fn -> void do"));
    out.push(ln(1, "f()"));
    out.push(ln(0, "end"));
    // one definition of every kind (SyltDiag!OrigName): the dd_ kinds write a second one against them
    out.push(ln(0, "Dv :: 1"));
    out.push(ln(0, "Df :: fn -> int do ret 1 end"));
    out.push(ln(0, "Db :: blob {"));
    out.push(ln(1, "x: int,"));
    out.push(ln(0, "}"));
    out.push(ln(0, "De :: enum Ea, Eb end"));
    put(&mut out, Place::TopMid, 0);
    out.push(ln(0, "helper :: fn a: int, b: int -> int do"));
    out.push(ln(1, "c :: a + b"));
    out.push(ln(1, "d := c"));
    put(&mut out, Place::FnBody, 1);
    out.push(ln(1, "if d > 0 do"));
    out.push(ln(2, "d = d + 1"));
    put(&mut out, Place::IfBranch, 2);
    for i in 0..depth {
        out.push(ln(2 + i, &format!("if d > {} do", i + 1)));
        out.push(ln(3 + i, "d = d + ga"));
    }
    if depth > 0 {
        put(&mut out, Place::Nested(depth), 2 + depth);
    }
    for i in (0..depth).rev() {
        out.push(ln(2 + i, "end"));
    }
    out.push(ln(1, "end"));
    out.push(ln(1, "ret d"));
    out.push(ln(0, "end"));
    if file == "main" {
        out.push(ln(0, "start :: fn do"));
        out.push(ln(1, "x := helper(ga, gb)"));
        out.push(ln(1, "y :: other.helper(x, other.ga)"));
        out.push(ln(1, "z :: inner.helper(y, inner.gb)"));
        out.push(ln(1, "x = z"));
        out.push(ln(0, "end"));
    } else {
        out.push(ln(0, "gd :: helper(ga, 3)"));
    }
    put(&mut out, Place::TopLast, 0);
    out
}

#[derive(Clone, Copy, Debug, Default)]
struct Style {
    crlf: bool,
    tabs: bool,
}

/// Join lines; returns (text, 1-based character offset of the offending element, 1-based character offset of the
/// first non-blank character of the planted form's first line).
fn join(lines: &[Line], st: Style) -> (String, usize, usize, usize) {
    let unit = if st.tabs { "\t" } else { "    " };
    let nl = if st.crlf { "\r\n" } else { "\n" };
    let mut s = String::new();
    let (mut marker, mut fstart, mut marker2) = (0usize, 0usize, 0usize);
    for l in lines {
        s.push_str(&unit.repeat(l.level));
        if l.fstart {
            fstart = s.chars().count() + 1;
        }
        if l.planted {
            marker = s.chars().count() + 1 + l.col;
        }
        if l.planted2 {
            marker2 = s.chars().count() + 1 + l.col2;
        }
        s.push_str(&l.text.replace('\n', nl));
        s.push_str(nl);
    }
    (s, marker, fstart, marker2)
}

#[derive(Clone, Debug)]
struct Case {
    idx: usize,
    kind: String,
    file: String,
    pos: String,
    depth: usize,
    /// label of the preceding-text shape ("stack" for the random variations)
    shape: String,
    /// layout of leaf.sy / twin.sy: line of their definition of lv relative to the colliding `from .. use`
    rel: String,
    /// (place name, nesting depth of that place, shape) in file order per place
    shapes: Vec<(String, String)>,
    crlf: bool,
    tabs: bool,
}

fn case_at(idx: usize) -> Case {
    // same mixed-radix layout as SyltDiag!Case: kind fastest, then file, position, shape, rel
    let sh = shapes();
    let m = idx - 1;
    let (nk, nf, np, ns) = (kinds().len(), FILES.len(), POSS.len(), sh.len());
    let kind = kinds()[m % nk].as_str();
    let file = FILES[(m / nk) % nf];
    let pos = POSS[(m / (nk * nf)) % np];
    let shape = sh[(m / (nk * nf * np)) % ns].as_str();
    let rel = RELS[(m / (nk * nf * np * ns)) % RELS.len()];
    let shapes = if shape_lines(shape, 1, true).is_some() { vec![(pos.to_string(), shape.to_string())] } else { vec![] };
    Case {
        idx,
        kind: kind.into(),
        file: file.into(),
        pos: pos.into(),
        depth: 0,
        shape: shape.into(),
        rel: rel.into(),
        shapes,
        crlf: shape == "crlf",
        tabs: shape == "tabs",
    }
}

fn n_cross() -> usize {
    kinds().len() * FILES.len() * POSS.len() * shapes().len() * RELS.len()
}

fn case_json(c: &Case) -> Value {
    json!({"idx": c.idx, "kind": c.kind, "file": c.file, "pos": c.pos, "depth": c.depth, "shape": c.shape,
           "rel": c.rel, "shapes": c.shapes, "crlf": c.crlf, "tabs": c.tabs})
}

fn case_from_json(v: &Value) -> Case {
    let s = |k: &str| v[k].as_str().unwrap_or_else(|| tool_error(&format!("case field {} missing", k))).to_string();
    Case {
        idx: v["idx"].as_u64().unwrap_or(1) as usize,
        kind: s("kind"),
        file: s("file"),
        pos: s("pos"),
        depth: v["depth"].as_u64().unwrap_or(0) as usize,
        shape: s("shape"),
        rel: v["rel"].as_str().unwrap_or("def_earlier").to_string(),
        shapes: v["shapes"]
            .as_array()
            .map(|a| a.iter().map(|p| (p[0].as_str().unwrap().to_string(), p[1].as_str().unwrap().to_string())).collect())
            .unwrap_or_default(),
        crlf: v["crlf"].as_bool().unwrap_or(false),
        tabs: v["tabs"].as_bool().unwrap_or(false),
    }
}

struct Rendered {
    planted: Project,
    base: Project,
    path: String,
    text: String,
    marker: usize,
    fstart: usize,
    marker2: usize,
    leaf: String,
    twin: String,
    /// line on which leaf.sy and twin.sy define lv
    def_line: usize,
}

/// Line of the colliding name import of a FromKinds case: the last line that spells one of the kind's
/// `from .. use` introductions (SyltDiag!RefPos).
fn last_from_line(kind: &str, text: &str) -> usize {
    let spellings: &[&str] = match kind {
        "dup_from_import" | "dup_use_from" => &["from /leaf use lv as lw"],
        "dup_from_from" => &["from /leaf use lv as lw", "from /twin use lv as lw"],
        "dup_from_use" => &["from /twin use lv as leaf"],
        _ => &[],
    };
    let mut at = 0;
    for (i, l) in text.split('\n').enumerate() {
        if spellings.contains(&l.trim_matches(|c| c == ' ' || c == '\t' || c == '\r')) {
            at = i + 1;
        }
    }
    at
}

/// A module defining lv on line `line` (padded with comment lines).
fn module_text(line: usize, value: usize) -> String {
    format!("{}lv :: {}\nlu :: 4\nlt :: 5\n", "//p\n".repeat(line - 1), value)
}

fn render(c: &Case) -> Rendered {
    let st = Style { crlf: c.crlf, tabs: c.tabs };
    let top = is_top(&c.pos);
    let mut inserts: Vec<(Place, Line)> = Vec::new();
    for (n, (pl, sh)) in c.shapes.iter().enumerate() {
        let lines = shape_lines(sh, n + 1, is_top(pl)).unwrap_or_else(|| tool_error("shape without a line"));
        for text in lines {
            inserts.push((place_of(pl, c.depth), ln(0, &text)));
        }
    }
    let base_inserts = inserts.clone();
    let (flines, (eline, ecol)) = form(&c.kind, top);
    let (eline2, ecol2) = form_elem2(&c.kind).unwrap_or((0, 0));
    for (j, (level, text)) in flines.iter().enumerate() {
        let l = Line {
            level: *level,
            text: text.to_string(),
            planted: j + 1 == eline,
            col: ecol,
            fstart: j == 0,
            planted2: j + 1 == eline2,
            col2: ecol2,
        };
        inserts.push((place_of(&c.pos, c.depth), l));
    }
    let mut planted = BTreeMap::new();
    let mut base = BTreeMap::new();
    let mut text = String::new();
    let (mut marker, mut fstart, mut marker2) = (0, 0, 0);
    for f in FILES.iter() {
        let p = path_of(f).to_string();
        if *f == c.file {
            let (t, m, fs, m2) = join(&template(f, c.depth, &inserts), st);
            let (b, _, _, _) = join(&template(f, c.depth, &base_inserts), st);
            text = t.clone();
            marker = m;
            fstart = fs;
            marker2 = m2;
            planted.insert(p.clone(), t);
            base.insert(p, b);
        } else {
            let (t, _, _, _) = join(&template(f, 0, &[]), Style::default());
            planted.insert(p.clone(), t.clone());
            base.insert(p, t);
        }
    }
    // the modules names are imported from: lv is defined on a line number earlier than / equal to / later than
    // the line number of the colliding `from .. use` statement in the planted file (TLC re-checks: SyltDiag!RelOK)
    let def_line = match (is_from_kind(&c.kind), c.rel.as_str()) {
        (true, "def_equal") => last_from_line(&c.kind, &text),
        (true, "def_later") => last_from_line(&c.kind, &text) + 2,
        _ => 1,
    };
    if def_line == 0 || def_line == 2 && c.rel == "def_later" {
        tool_error("no name import in a from-import case");
    }
    let (leaf, twin) = (module_text(def_line, 2), module_text(def_line, 3));
    for prj in [&mut planted, &mut base] {
        prj.insert("leaf.sy".to_string(), leaf.clone());
        prj.insert("twin.sy".to_string(), twin.clone());
    }
    if marker == 0 || fstart == 0 {
        tool_error("planted line was not rendered");
    }
    Rendered {
        planted: Project { files: planted, main: "main.sy".into() },
        base: Project { files: base, main: "main.sy".into() },
        path: path_of(&c.file).to_string(),
        text,
        marker,
        fstart,
        marker2,
        leaf,
        twin,
        def_line,
    }
}

/// TLC cannot carry non-ASCII characters: show it a character-for-character abstraction ('@').
fn abs(s: &str) -> String {
    s.chars().map(|c| if c.is_ascii() { c } else { '@' }).collect()
}

/// Compile an unplanted program: (accepted, first error). Many cases share their base program (it depends on file,
/// position, shape and module layout, not on the kind), so results are kept per project text.
fn compile_base(p: &Project) -> (bool, String) {
    static CACHE: std::sync::OnceLock<std::sync::Mutex<std::collections::HashMap<String, (bool, String)>>> =
        std::sync::OnceLock::new();
    let cache = CACHE.get_or_init(Default::default);
    let key = serde_json::to_string(&p.files).unwrap();
    if let Some(hit) = cache.lock().unwrap().get(&key) {
        return hit.clone();
    }
    let res = compile(p);
    let err = match &res {
        CompileResult::Err { errors, .. } => errors.first().map(|e| format!("{}:{} {}", e.file, e.line, e.rendered)).unwrap_or_default(),
        CompileResult::Panic { message, .. } => message.clone(),
        _ => String::new(),
    };
    let out = (res.is_ok(), err);
    cache.lock().unwrap().insert(key, out.clone());
    out
}

/// (record for TLC, full case with the raw files for replays/evidence)
fn run_case(c: &Case) -> (Value, Value) {
    let r = render(c);
    let (base_ok, base_err) = compile_base(&r.base);
    let res = compile(&r.planted);
    let stub = std::env::var("C15_STUB").ok();
    let (efile, mut eline, nerr) = match &res {
        CompileResult::Err { errors, .. } if !errors.is_empty() => (errors[0].file.clone(), errors[0].line, errors.len()),
        _ => (String::new(), 0, 0),
    };
    // the second error (forms with two offending elements)
    let (efile2, eline2) = match &res {
        CompileResult::Err { errors, .. } if errors.len() > 1 => (errors[1].file.clone(), errors[1].line),
        _ => (String::new(), 0),
    };
    if stub.as_deref() == Some("line1") && eline > 0 {
        eline = 1;
    }
    let (mut efile, mut eline) = (efile, eline);
    if matches!(stub.as_deref(), Some("f1") | Some("lines")) && eline > 0 && efile == r.path {
        // f1: the regression fixed by e1d1e87, newlines inside string literals are not counted;
        // lines: they are counted with str::lines(), which drops a trailing empty line
        let before: String = r.text.chars().take(r.marker - 1).collect();
        let mut lost = 0;
        for (i, piece) in before.split('"').enumerate() {
            // the templates hold no quotes outside string literals: odd pieces are literal contents
            if i % 2 == 1 {
                let real = piece.matches('\n').count();
                lost += if stub.as_deref() == Some("f1") { real } else { real - piece.lines().count().saturating_sub(1).min(real) };
            }
        }
        eline = eline.saturating_sub(lost).max(1);
    }
    if stub.as_deref() == Some("stmt") && eline > 0 && efile == r.path {
        // the error is located at the first token of the enclosing statement instead of at the offending element
        let from: String = r.text.chars().take(r.fstart - 1).collect();
        let upto: String = r.text.chars().take(r.marker - 1).collect();
        eline = eline.saturating_sub(upto.matches('\n').count() - from.matches('\n').count()).max(1);
    }
    if stub.as_deref() == Some("xfile") && eline > 0 && is_from_kind(&c.kind) && c.rel == "def_later" {
        // line numbers related across files: the imported name's own definition "is written later"
        efile = "leaf.sy".to_string();
        eline = r.def_line;
    }
    if stub.as_deref() == Some("first") && eline > 0 {
        // a duplicate definition reported where the name was written FIRST
        if let Some((_, of)) = dd_pair(&c.kind) {
            let spelling = format!("{} :: ", DEF_FORMS[of].2);
            if let Some(i) = r.text.split('\n').position(|l| l.trim_start().starts_with(&spelling)) {
                efile = r.path.clone();
                eline = i + 1;
            }
        }
    }
    if stub.as_deref() == Some("decoy") && eline > 1 && efile == r.path && c.kind.starts_with("conflict") {
        // a begin marker that is no conflict, passed earlier in the file, costs the scan a line
        let before: String = r.text.chars().take(r.fstart - 1).collect();
        if before.contains("<<<<<<<") {
            eline -= 1;
        }
    }
    let trace = json!({
        "idx": c.idx, "kind": c.kind, "file": c.file, "pos": c.pos, "shape": c.shape, "rel": c.rel,
        "path": r.path, "text": abs(&r.text), "marker": r.marker, "fstart": r.fstart, "marker2": r.marker2,
        "leaf": r.leaf, "twin": r.twin,
        "base_ok": base_ok, "res": res.class(), "efile": efile, "eline": eline,
        "efile2": efile2, "eline2": eline2,
    });
    let first = match &res {
        CompileResult::Err { errors, .. } => errors.first().map(|e| e.rendered.clone()).unwrap_or_default(),
        CompileResult::Panic { message, .. } => message.clone(),
        _ => String::new(),
    };
    let full = json!({
        "case": case_json(c), "files": r.planted.files, "path": r.path, "marker": r.marker,
        "base_ok": base_ok, "base_error": base_err, "res": res.class(), "n_errors": nerr,
        "efile": efile, "eline": eline, "efile2": efile2, "eline2": eline2, "first_error_rendered": first,
    });
    (trace, full)
}

fn place_rank(p: &str) -> usize {
    match p {
        "top_first" => 0,
        "top_mid" => 1,
        "fn_body" => 2,
        "if_branch" => 3,
        "nested" => 4,
        _ => 5, // top_last
    }
}

/// Seeded random variation: several preceding shapes stacked at places before the planted construct,
/// optionally CRLF and/or tab indentation, planting up to three ifs deeper.
fn free_case(idx: usize, rng: &mut rand::rngs::StdRng) -> Case {
    const PL: [&str; 6] = ["top_first", "top_mid", "top_last", "fn_body", "if_branch", "nested"];
    let line_shapes: Vec<String> = shapes().into_iter().filter(|s| shape_lines(s, 1, true).is_some()).collect();
    loop {
        let kind = kinds()[rng.gen_range(0..kinds().len())].as_str();
        let pos = PL[rng.gen_range(0..PL.len())];
        let rel = if is_from_kind(kind) { RELS[rng.gen_range(0..RELS.len())] } else { RELS[0] };
        if !applicable(kind, pos, rel) {
            continue;
        }
        let depth = if pos == "nested" { rng.gen_range(1..4) } else { rng.gen_range(0..3) };
        let mut shapes = Vec::new();
        for _ in 0..rng.gen_range(2..5) {
            let cands: Vec<&str> =
                PL.iter().copied().filter(|p| place_rank(p) <= place_rank(pos) && (*p != "nested" || depth > 0)).collect();
            let pl = cands[rng.gen_range(0..cands.len())];
            shapes.push((pl.to_string(), line_shapes[rng.gen_range(0..line_shapes.len())].clone()));
        }
        return Case {
            idx,
            kind: kind.into(),
            file: FILES[rng.gen_range(0..3)].into(),
            pos: pos.into(),
            depth,
            shape: "stack".into(),
            rel: rel.into(),
            shapes,
            crlf: rng.gen_range(0..4) == 0,
            tabs: rng.gen_range(0..4) == 0,
        };
    }
}

fn env_list(name: &str) -> Option<Vec<String>> {
    std::env::var(name).ok().filter(|v| !v.is_empty()).map(|v| v.split(',').map(|x| x.to_string()).collect())
}

fn load_dir(root: &Path, rel: &str, files: &mut BTreeMap<String, String>) {
    let dir = if rel.is_empty() { root.to_path_buf() } else { root.join(rel) };
    for e in std::fs::read_dir(&dir).unwrap() {
        let e = e.unwrap();
        let name = e.file_name().to_string_lossy().to_string();
        let r = if rel.is_empty() { name.clone() } else { format!("{}/{}", rel, name) };
        if e.file_type().unwrap().is_dir() {
            load_dir(root, &r, files);
        } else if name.ends_with(".sy") {
            files.insert(r, std::fs::read_to_string(e.path()).unwrap());
        }
    }
}

fn emit(cases: &[Case], trace: &str, full: &str) {
    let recs = vharness::pool::par_map(cases, |_, c| run_case(c));
    let (t, f): (Vec<Value>, Vec<Value>) = recs.into_iter().unzip();
    write_ndjson(Path::new(trace), &t);
    write_ndjson(Path::new(full), &f);
    println!("{}", t.len());
}

fn main() {
    let args: Vec<String> = std::env::args().collect();
    if args.len() < 3 {
        tool_error("usage: c15 cross|free|one|probe ...");
    }
    match args[1].as_str() {
        "cross" => {
            let (only_s, only_k, only_f) = (env_list("C15_SHAPES"), env_list("C15_KINDS"), env_list("C15_FILES"));
            let keep = |l: &Option<Vec<String>>, v: &String| l.as_ref().map_or(true, |l| l.contains(v));
            let cases: Vec<Case> = (1..=n_cross())
                .map(case_at)
                .filter(|c| applicable(&c.kind, &c.pos, &c.rel))
                .filter(|c| keep(&only_s, &c.shape) && keep(&only_k, &c.kind) && keep(&only_f, &c.file))
                .collect();
            emit(&cases, &args[2], &args[3]);
        }
        "free" => {
            let count: usize = args[2].parse().unwrap();
            let mut rng = rand::rngs::StdRng::seed_from_u64(seed() ^ 0xC15);
            let cases: Vec<Case> = (1..=count).map(|i| free_case(i, &mut rng)).collect();
            emit(&cases, &args[3], &args[4]);
        }
        "one" => {
            let v: Value = serde_json::from_str(&std::fs::read_to_string(&args[2]).unwrap())
                .unwrap_or_else(|e| tool_error(&format!("bad case json: {}", e)));
            let c = case_from_json(&v);
            let (t, f) = run_case(&c);
            write_ndjson(Path::new(&args[3]), &[t]);
            println!("{}", serde_json::to_string(&f).unwrap());
        }
        "probe" => {
            let mut files = BTreeMap::new();
            load_dir(Path::new(&args[2]), "", &mut files);
            let p = Project { files, main: "main.sy".into() };
            match compile(&p) {
                CompileResult::Ok { .. } => println!("OK"),
                CompileResult::Err { errors, .. } => {
                    for e in errors {
                        println!("ERR kind={} file={} line={} col={} msg={}", e.kind, e.file, e.line, e.col_start, e.message);
                    }
                }
                CompileResult::Panic { message, .. } => println!("PANIC {}", message),
            }
        }
        _ => tool_error("unknown mode"),
    }
}
