//! C01 corpus recorder (trace-validation direction): the maintainers' own programs under /repo/tests are
//! compiled by the real compiler from disk, run in minilua, and the observed behaviour is RECORDED together
//! with the program converted from the real parser's AST into SyltSem's AST convention (binder ids instead of
//! names, modules flattened, standard-library names as `std` nodes). Nothing is judged here: TLC
//! (spec/Trace_Sem.tla) executes `tops` with the reference semantics and accepts or rejects each record.
//!
//!   c01c record <tests_dir> <out.ndjson> [<relative file> ...]
//!   c01c show <file.sy>                      print the converted program / the out-of-model reasons
//!
//! Record: {file, accepted, class, in_model, reasons:[..], tops:[..], prints:[..], status, detail, nodes}
//!
//! The converter implements the language's LEXICAL scoping (innermost enclosing definition that textually
//! precedes the use; a function-valued definition is visible in its own body; parameters; case bindings; top-level
//! names of the module, in any order; `use` namespaces; `from .. use ..`). Every binder gets its own integer id.
//! A program is `in-model` iff every construct and every standard-library function it uses is one SyltSem
//! evaluates; otherwise the reasons are listed and the record is counted, never judged.

use serde_json::{json, Value};
use std::collections::{BTreeSet, HashMap};
use std::path::{Path, PathBuf};
use sylt_common::FileOrLib;
use sylt_parser::expression::{ComparisonKind, ExpressionKind};
use sylt_parser::statement::StatementKind;
use sylt_parser::{Assignable, AssignableKind, Expression, Module, Op, Statement, VarKind};
use vharness::util::*;

const MAX_MAG: i64 = 1_000_000; // SyltValues!MaxMag
const MAX_EXP: i32 = 10; // SyltValues!MaxExp

/// (library module, definition) -> name of the SyltSem builtin that models it.
/// Anything of the standard library that is not listed is outside the model (reason `std:<lib>.<name>`).
fn std_builtin(lib: &str, name: &str) -> Option<&'static str> {
    Some(match (lib, name) {
        ("common", "print") => "print",
        ("common", "dbg") => "dbg",
        ("common", "spy") => "spy",
        ("common", "as_str") => "as_str",
        ("common", "as_float") => "as_float",
        ("common", "as_int") => "as_int",
        ("math", "abs") => "math.abs",
        ("math", "min") => "math.min",
        ("math", "max") => "math.max",
        ("math", "clamp") => "math.clamp",
        ("math", "sign") => "math.sign",
        ("math", "floor") => "math.floor",
        ("math", "div") => "math.div",
        ("list", "for_each") | ("list", "list_for_each") => "for_each",
        ("list", "map") | ("list", "list_map") => "map",
        ("list", "filter") | ("list", "list_filter") => "filter",
        ("list", "fold") | ("list", "list_fold") => "fold",
        ("list", "get") | ("list", "list_get") => "list.get",
        ("list", "set") | ("list", "list_set") => "list.set",
        ("list", "push") | ("list", "list_push") => "list.push",
        ("list", "prepend") | ("list", "list_prepend") => "list.prepend",
        ("list", "pop") | ("list", "list_pop") => "list.pop",
        ("list", "len") => "list.len",
        ("list", "find") | ("list", "list_find") => "list.find",
        ("list", "contains") => "list.contains",
        ("list", "last") => "list.last",
        ("maybe", "orDefault") => "maybe.orDefault",
        ("maybe", "andThen") => "maybe.andThen",
        ("maybe", "flatten") => "maybe.flatten",
        ("maybe", "isJust") => "maybe.isJust",
        ("maybe", "isNone") => "maybe.isNone",
        ("maybe", "map") => "maybe.map",
        ("unsafe", "unsafe_force") => "unsafe_force",
        ("dict", "new") | ("dict", "dict_new") => "dict.new",
        ("dict", "from_list") | ("dict", "dict_from_list") => "dict.from_list",
        ("dict", "update") | ("dict", "dict_update") => "dict.update",
        ("dict", "remove") | ("dict", "dict_remove") => "dict.remove",
        ("dict", "get") | ("dict", "dict_get") => "dict.get",
        ("dict", "map") | ("dict", "dict_map") => "dict.map",
        ("dict", "for_each") | ("dict", "dict_for_each") => "dict.for_each",
        ("dict", "contains_key") => "dict.contains_key",
        ("dict", "len") => "dict.len",
        ("set", "new") | ("set", "set_new") => "set.new",
        ("set", "from_list") | ("set", "set_from_list") => "set.from_list",
        ("set", "add") | ("set", "set_add") => "set.add",
        ("set", "remove") | ("set", "set_remove") => "set.remove",
        ("set", "contains") | ("set", "set_contains") => "set.contains",
        ("set", "map") | ("set", "set_map") => "set.map",
        ("set", "for_each") | ("set", "set_for_each") => "set.for_each",
        ("set", "len") => "set.len",
        _ => return None,
    })
}

#[derive(Clone, Debug, PartialEq)]
enum Name {
    /// a top-level value definition of module `m`
    Global { m: usize, name: String, id: i64 },
    /// a namespace (another module)
    Namespace(usize),
    /// a blob or enum declaration (no run-time meaning)
    Type,
    /// `x : T : external` in a user file
    External,
}

/// what an assignable denotes while it is being converted
enum R {
    Val(Value),
    Ns(usize),
    Type,
}

struct Conv<'a> {
    modules: &'a [(FileOrLib, Module)],
    ns: Vec<HashMap<String, Name>>,
    next_id: i64,
    scopes: Vec<HashMap<String, i64>>,
    reasons: BTreeSet<String>,
    cur: usize,
    nodes: usize,
}

fn tnone() -> Value {
    json!({"k":"tnone"})
}

fn is_lib(f: &FileOrLib) -> Option<&'static str> {
    match f {
        FileOrLib::Lib(l) => Some(*l),
        _ => None,
    }
}

/// f64 literal -> dyadic rational n / 2^d inside the model's limits
fn dyadic(f: f64) -> Option<(i64, i64)> {
    if !f.is_finite() {
        return None;
    }
    let mut x = f;
    for d in 0..=MAX_EXP {
        if x.fract() == 0.0 {
            if x.abs() >= MAX_MAG as f64 {
                return None;
            }
            return Some((x as i64, d as i64));
        }
        x *= 2.0;
    }
    None
}

fn ascii(s: &str) -> String {
    s.chars().map(|c| if c.is_ascii() && (c == '\n' || !c.is_ascii_control()) { c } else { '?' }).collect()
}

impl<'a> Conv<'a> {
    fn new(modules: &'a [(FileOrLib, Module)]) -> Self {
        Conv { modules, ns: vec![], next_id: 1, scopes: vec![], reasons: BTreeSet::new(), cur: 0, nodes: 0 }
    }

    fn why(&mut self, r: &str) {
        self.reasons.insert(r.to_string());
    }

    fn fresh(&mut self) -> i64 {
        let i = self.next_id;
        self.next_id += 1;
        i
    }

    fn module_index(&self, f: &FileOrLib) -> Option<usize> {
        self.modules.iter().position(|(g, _)| g == f)
    }

    /// the namespaces: top-level names of every module, then `use` / `from .. use ..` (to a fixpoint: an
    /// imported name may itself be imported by the module it comes from)
    fn build_namespaces(&mut self) {
        for (m, (_, module)) in self.modules.iter().enumerate() {
            let mut t = HashMap::new();
            for s in &module.statements {
                match &s.kind {
                    StatementKind::Definition { ident, .. } => {
                        let id = self.next_id;
                        self.next_id += 1;
                        t.insert(ident.name.clone(), Name::Global { m, name: ident.name.clone(), id });
                    }
                    StatementKind::ExternalDefinition { ident, .. } => {
                        if is_lib(&self.modules[m].0).is_some() {
                            let id = self.next_id;
                            self.next_id += 1;
                            t.insert(ident.name.clone(), Name::Global { m, name: ident.name.clone(), id });
                        } else {
                            t.insert(ident.name.clone(), Name::External);
                        }
                    }
                    StatementKind::Blob { name, .. } | StatementKind::Enum { name, .. } => {
                        t.insert(name.name.clone(), Name::Type);
                    }
                    _ => {}
                }
            }
            self.ns.push(t);
        }
        loop {
            let mut changed = false;
            for m in 0..self.modules.len() {
                for s in &self.modules[m].1.statements {
                    match &s.kind {
                        StatementKind::Use { name, file, .. } => {
                            if let Some(t) = self.module_index(file) {
                                if !self.ns[m].contains_key(name.name()) {
                                    self.ns[m].insert(name.name().to_string(), Name::Namespace(t));
                                    changed = true;
                                }
                            }
                        }
                        StatementKind::FromUse { imports, file, .. } => {
                            if let Some(t) = self.module_index(file) {
                                for (what, alias) in imports {
                                    let local = alias.as_ref().unwrap_or(what).name.clone();
                                    if self.ns[m].contains_key(&local) {
                                        continue;
                                    }
                                    if let Some(n) = self.ns[t].get(&what.name).cloned() {
                                        self.ns[m].insert(local, n);
                                        changed = true;
                                    }
                                }
                            }
                        }
                        _ => {}
                    }
                }
            }
            if !changed {
                break;
            }
        }
    }

    fn lookup_local(&self, name: &str) -> Option<i64> {
        self.scopes.iter().rev().find_map(|s| s.get(name).copied())
    }

    fn global_ref(&mut self, m: usize, name: &str, id: i64) -> Value {
        if let Some(lib) = is_lib(&self.modules[m].0) {
            match std_builtin(lib, name) {
                Some(b) => json!({"k":"std","name":b}),
                None => {
                    self.why(&format!("std:{}.{}", lib, name));
                    json!({"k":"nil"})
                }
            }
        } else {
            json!({"k":"var","b":id})
        }
    }

    fn name_in(&mut self, m: usize, name: &str) -> R {
        match self.ns[m].get(name).cloned() {
            Some(Name::Global { m: gm, name: gn, id }) => R::Val(self.global_ref(gm, &gn, id)),
            Some(Name::Namespace(t)) => R::Ns(t),
            Some(Name::Type) => R::Type,
            Some(Name::External) => {
                self.why("external");
                R::Val(json!({"k":"nil"}))
            }
            None => {
                self.why("unresolved-name");
                R::Val(json!({"k":"nil"}))
            }
        }
    }

    fn assignable(&mut self, a: &Assignable) -> R {
        self.nodes += 1;
        match &a.kind {
            AssignableKind::Read(id) => {
                if let Some(b) = self.lookup_local(&id.name) {
                    // the real resolver prefers a namespace of the same name in `x.y` (noted as undecided by the
                    // maintainers in tests/dependencies/access_shadowed_namespace.sy): not judged
                    if matches!(self.ns[self.cur].get(&id.name), Some(Name::Namespace(_))) {
                        self.why("local-shadows-namespace");
                    }
                    return R::Val(json!({"k":"var","b":b}));
                }
                if id.name == "self" {
                    return R::Val(json!({"k":"self"}));
                }
                let cur = self.cur;
                self.name_in(cur, &id.name)
            }
            AssignableKind::Access(inner, id) => match self.assignable(inner) {
                R::Ns(m) => self.name_in(m, &id.name),
                R::Type => R::Type,
                R::Val(v) => R::Val(json!({"k":"fld","e":v,"f":id.name})),
            },
            AssignableKind::Call(f, args) => {
                let fv = self.value_of(f);
                let av: Vec<Value> = args.iter().map(|e| self.expr(e)).collect();
                R::Val(json!({"k":"call","f":fv,"args":av}))
            }
            AssignableKind::ArrowCall(first, f, args) => {
                // `a -> f(b)` is `f(a, b)`: the callee is evaluated first, then the arguments left to right
                let fv = self.value_of(f);
                let mut av = vec![self.expr(first)];
                av.extend(args.iter().map(|e| self.expr(e)));
                R::Val(json!({"k":"call","f":fv,"args":av}))
            }
            AssignableKind::Index(inner, i) => {
                let v = self.value_of(inner);
                match &i.kind {
                    ExpressionKind::Int(n) if *n >= 0 && *n < 64 => R::Val(json!({"k":"idx","e":v,"i":n})),
                    _ => {
                        self.why("dynamic-index");
                        R::Val(json!({"k":"nil"}))
                    }
                }
            }
            AssignableKind::Expression(e) => R::Val(self.expr(e)),
            AssignableKind::Variant { enum_ass, variant, value } => {
                match self.assignable(enum_ass) {
                    R::Type => {}
                    _ => self.why("variant-of-non-enum"),
                }
                let v = self.expr(value);
                R::Val(json!({"k":"variant","enum":"","v":variant.name,"has":true,"e":v}))
            }
        }
    }

    fn value_of(&mut self, a: &Assignable) -> Value {
        match self.assignable(a) {
            R::Val(v) => v,
            _ => {
                self.why("namespace-or-type-as-value");
                json!({"k":"nil"})
            }
        }
    }

    fn bin(&mut self, op: &str, a: &Expression, b: &Expression) -> Value {
        let l = self.expr(a);
        let r = self.expr(b);
        json!({"k":"bin","op":op,"l":l,"r":r})
    }

    fn block(&mut self, body: &[Statement]) -> Vec<Value> {
        self.scopes.push(HashMap::new());
        let out: Vec<Value> = body.iter().filter_map(|s| self.stmt(s)).collect();
        self.scopes.pop();
        out
    }

    fn expr(&mut self, e: &Expression) -> Value {
        use ExpressionKind::*;
        self.nodes += 1;
        match &e.kind {
            Get(a) => self.value_of(a),
            Add(a, b) => self.bin("+", a, b),
            Sub(a, b) => self.bin("-", a, b),
            Mul(a, b) => self.bin("*", a, b),
            Div(a, b) => self.bin("/", a, b),
            Neg(a) => {
                let v = self.expr(a);
                json!({"k":"un","op":"-","a":v})
            }
            Not(a) => {
                let v = self.expr(a);
                json!({"k":"un","op":"not","a":v})
            }
            Comparison(a, k, b) => {
                let op = match k {
                    ComparisonKind::Equals => "==",
                    ComparisonKind::NotEquals => "!=",
                    ComparisonKind::Greater => ">",
                    ComparisonKind::GreaterEqual => ">=",
                    ComparisonKind::Less => "<",
                    ComparisonKind::LessEqual => "<=",
                };
                self.bin(op, a, b)
            }
            AssertEq(a, b) => self.bin("<=>", a, b),
            And(a, b) => self.bin("and", a, b),
            Or(a, b) => self.bin("or", a, b),
            Parenthesis(inner) => self.expr(inner),
            If(branches) => {
                let arms: Vec<Value> = branches
                    .iter()
                    .map(|b| match &b.condition {
                        Some(c) => {
                            let cv = self.expr(c);
                            let body = self.block(&b.body);
                            json!({"els":false,"c":cv,"body":body})
                        }
                        None => {
                            let body = self.block(&b.body);
                            json!({"els":true,"body":body})
                        }
                    })
                    .collect();
                json!({"k":"if","arms":arms})
            }
            Case { to_match, branches, fall_through } => {
                let m = self.expr(to_match);
                let arms: Vec<Value> = branches
                    .iter()
                    .map(|b| {
                        self.scopes.push(HashMap::new());
                        let (bind, id) = match &b.variable {
                            Some(v) => {
                                let id = self.fresh();
                                self.scopes.last_mut().unwrap().insert(v.name.clone(), id);
                                (true, id)
                            }
                            None => (false, 0),
                        };
                        let body: Vec<Value> = b.body.iter().filter_map(|s| self.stmt(s)).collect();
                        self.scopes.pop();
                        json!({"v":b.pattern.name,"bind":bind,"b":id,"body":body})
                    })
                    .collect();
                match fall_through {
                    Some(b) => {
                        let els = self.block(b);
                        json!({"k":"case","e":m,"arms":arms,"hasels":true,"els":els})
                    }
                    None => json!({"k":"case","e":m,"arms":arms,"hasels":false,"els":[]}),
                }
            }
            Function { params, body, pure, .. } => {
                self.scopes.push(HashMap::new());
                let ps: Vec<Value> = params
                    .iter()
                    .map(|(id, _)| {
                        let b = self.fresh();
                        self.scopes.last_mut().unwrap().insert(id.name.clone(), b);
                        json!({"b":b,"ty":tnone()})
                    })
                    .collect();
                // the body shares the parameters' frame (SyltSem!CallValue runs it with ExecSeq in the call frame)
                let bv: Vec<Value> = body.iter().filter_map(|s| self.stmt(s)).collect();
                self.scopes.pop();
                json!({"k":"fn","pure":pure,"params":ps,"ret":tnone(),"body":bv})
            }
            Blob { fields, .. } => {
                let fs: Vec<Value> = fields
                    .iter()
                    .map(|(n, e)| {
                        let v = self.expr(e);
                        json!({"f":n,"e":v})
                    })
                    .collect();
                json!({"k":"blob","name":"","fields":fs})
            }
            Tuple(es) => {
                let v: Vec<Value> = es.iter().map(|e| self.expr(e)).collect();
                json!({"k":"tuple","es":v})
            }
            List(es) => {
                let v: Vec<Value> = es.iter().map(|e| self.expr(e)).collect();
                json!({"k":"list","es":v})
            }
            Float(f) => match dyadic(*f) {
                Some((n, d)) => json!({"k":"float","n":n,"d":d}),
                None => {
                    self.why("float-literal-not-dyadic-or-too-large");
                    json!({"k":"nil"})
                }
            },
            Int(i) => {
                if *i >= MAX_MAG {
                    // beyond TLC's own integers: written out; SyltSem reads it as a 64-bit word (SyltNum64)
                    json!({"k":"raw","text":i.to_string(),"num":"int"})
                } else if *i <= -MAX_MAG {
                    self.why("int-literal-beyond-model-magnitude");
                    json!({"k":"nil"})
                } else {
                    json!({"k":"int","v":i})
                }
            }
            Str(s) => json!({"k":"str","v":ascii(s)}),
            Bool(b) => json!({"k":"bool","v":b}),
            Nil => json!({"k":"nil"}),
        }
    }

    fn define_local(&mut self, name: &str) -> i64 {
        let id = self.fresh();
        self.scopes.last_mut().unwrap().insert(name.to_string(), id);
        id
    }

    fn stmt(&mut self, s: &Statement) -> Option<Value> {
        use StatementKind::*;
        self.nodes += 1;
        Some(match &s.kind {
            EmptyStatement => return None,
            Use { .. } | FromUse { .. } | Blob { .. } | Enum { .. } => {
                if !self.scopes.is_empty() {
                    self.why("declaration-inside-function");
                }
                return None;
            }
            ExternalDefinition { .. } => {
                self.why("external");
                return None;
            }
            Assignment { kind, target, value } => {
                let op = match kind {
                    Op::Nop => "=",
                    Op::Add => "+=",
                    Op::Sub => "-=",
                    Op::Mul => "*=",
                    Op::Div => "/=",
                };
                // SyltSem: a variable target is resolved, the right-hand side evaluated, then the variable read
                // (op=) and written; a field target evaluates the object first
                let t = self.value_of(target);
                let e = self.expr(value);
                match t["k"].as_str() {
                    Some("var") | Some("fld") => {}
                    _ => self.why("assignment-target-not-variable-or-field"),
                }
                json!({"k":"asg","op":op,"t":t,"e":e})
            }
            Definition { ident, kind, value, .. } => {
                let kd = if *kind == VarKind::Const { "const" } else { "mut" };
                // a function-valued definition is visible in its own body; any other value is evaluated first
                let (b, e) = if matches!(value.kind, ExpressionKind::Function { .. }) {
                    let b = self.define_local(&ident.name);
                    (b, self.expr(value))
                } else {
                    let e = self.expr(value);
                    (self.define_local(&ident.name), e)
                };
                json!({"k":"def","b":b,"kind":kd,"ty":tnone(),"e":e,"n":""})
            }
            Loop { condition, body } => {
                let c = self.expr(condition);
                let bv = match &body.kind {
                    Block { statements } => self.block(statements),
                    _ => {
                        let one = std::slice::from_ref(&**body);
                        self.block(one)
                    }
                };
                json!({"k":"loop","c":c,"body":bv})
            }
            Break => json!({"k":"break"}),
            Continue => json!({"k":"continue"}),
            Ret { value } => match value {
                Some(v) => {
                    let e = self.expr(v);
                    json!({"k":"ret","has":true,"e":e})
                }
                None => json!({"k":"ret","has":false}),
            },
            Block { statements } => {
                let b = self.block(statements);
                json!({"k":"block","body":b})
            }
            StatementExpression { value } => {
                let e = self.expr(value);
                json!({"k":"expr","e":e})
            }
            Unreachable => json!({"k":"unreach"}),
        })
    }

    /// all user modules flattened: one `def` per top-level definition (the main module's `start` keeps its name)
    fn program(&mut self) -> Vec<Value> {
        self.build_namespaces();
        let mut tops = Vec::new();
        let main = self.modules.iter().position(|(f, _)| matches!(f, FileOrLib::File(_))).unwrap_or(0);
        let mut user = 0;
        for m in 0..self.modules.len() {
            if is_lib(&self.modules[m].0).is_some() {
                continue;
            }
            user += 1;
            self.cur = m;
            let module = &self.modules[m].1;
            for s in &module.statements {
                match &s.kind {
                    StatementKind::Definition { ident, kind, value, .. } => {
                        let id = match self.ns[m].get(&ident.name) {
                            Some(Name::Global { id, .. }) => *id,
                            _ => {
                                self.why("duplicate-top-level-name");
                                0
                            }
                        };
                        self.scopes.clear();
                        let e = self.expr(value);
                        let kd = if *kind == VarKind::Const { "const" } else { "mut" };
                        let n = if m == main && ident.name == "start" { "start" } else { "" };
                        tops.push(json!({"k":"def","b":id,"kind":kd,"ty":tnone(),"e":e,"n":n}));
                    }
                    StatementKind::ExternalDefinition { .. } => self.why("external"),
                    StatementKind::Blob { .. }
                    | StatementKind::Enum { .. }
                    | StatementKind::Use { .. }
                    | StatementKind::FromUse { .. }
                    | StatementKind::EmptyStatement => {}
                    _ => self.why("statement-at-top-level"),
                }
            }
        }
        let _ = user;
        tops
    }
}

fn walk(dir: &Path, out: &mut Vec<PathBuf>) {
    let mut entries: Vec<_> = std::fs::read_dir(dir).unwrap().map(|e| e.unwrap().path()).collect();
    entries.sort();
    for p in entries {
        if p.is_dir() {
            walk(&p, out);
        } else if p.extension().map(|e| e == "sy").unwrap_or(false) {
            out.push(p);
        }
    }
}

fn convert(path: &Path) -> Result<(Vec<Value>, Vec<String>, usize, usize), String> {
    match sylt_parser::tree(path, sylt::read_file, true) {
        Ok(ast) => {
            // the main module is the first *file* that was asked for: tree() visits it right after the preamble
            let mut modules = ast.modules.clone();
            if let Some(p) = modules.iter().position(|(f, _)| *f == FileOrLib::File(path.to_path_buf())) {
                let main = modules.remove(p);
                modules.insert(0, main);
            }
            let user_modules = modules.iter().filter(|(f, _)| matches!(f, FileOrLib::File(_))).count();
            let mut c = Conv::new(&modules);
            let tops = c.program();
            Ok((tops, c.reasons.into_iter().collect(), c.nodes, user_modules))
        }
        Err(_) => Err("parse-error".into()),
    }
}

fn record(root: &Path, f: &Path) -> Value {
    let src = std::fs::read_to_string(f).unwrap_or_default();
    let expect: Vec<String> =
        src.lines().filter_map(|l| l.trim().strip_prefix("// error:").map(|s| s.trim().to_string())).collect();
    let args = sylt::Args { args: vec![f.to_string_lossy().to_string()], ..Default::default() };
    let mut out: Vec<u8> = Vec::new();
    let res = std::panic::catch_unwind(std::panic::AssertUnwindSafe(|| {
        sylt::compile_with_reader_to_writer(&args, sylt::read_file, &mut out)
    }));
    let rel = f.strip_prefix(root).unwrap_or(f).to_string_lossy().to_string();
    let mut rec = json!({"file": rel, "expect": expect, "accepted": false, "in_model": false, "reasons": [],
                         "tops": [], "prints": [], "status": "-", "detail": "", "nodes": 0, "modules": 0});
    match res {
        Ok(Ok(())) => {
            rec["accepted"] = json!(true);
            rec["class"] = json!("ok");
            let lua = String::from_utf8_lossy(&out).to_string();
            let obs = vharness::luarun::run(&lua);
            rec["status"] = json!(obs.status.short());
            rec["detail"] = json!(format!("{:?}", obs.status));
            rec["steps"] = json!(obs.steps);
            let mut reasons: Vec<String> = Vec::new();
            if obs.prints.iter().any(|p| !p.is_ascii()) {
                reasons.push("non-ascii-output".into());
            }
            rec["prints"] = json!(obs.prints.iter().map(|p| ascii(p)).collect::<Vec<_>>());
            match obs.status.short().as_str() {
                "done" | "assert_failed" | "unreachable" => {}
                s if s.starts_with("lua_error") => {}
                s => reasons.push(format!("run:{}", s)),
            }
            let conv = std::panic::catch_unwind(std::panic::AssertUnwindSafe(|| convert(f)));
            match conv {
                Ok(Ok((tops, why, nodes, modules))) => {
                    reasons.extend(why);
                    rec["tops"] = json!(tops);
                    rec["nodes"] = json!(nodes);
                    rec["modules"] = json!(modules);
                    if !tops.iter().any(|t| t["n"] == "start") {
                        reasons.push("no-start".into());
                    }
                }
                Ok(Err(e)) => reasons.push(e),
                Err(_) => reasons.push("converter-panic".into()),
            }
            reasons.sort();
            reasons.dedup();
            rec["in_model"] = json!(reasons.is_empty());
            if !reasons.is_empty() {
                rec["tops"] = json!([]);
            }
            rec["reasons"] = json!(reasons);
        }
        Ok(Err(_)) => rec["class"] = json!("err"),
        Err(_) => rec["class"] = json!("panic"),
    }
    rec
}

fn main() {
    let args: Vec<String> = std::env::args().collect();
    if args.len() < 3 {
        tool_error("usage: c01c record <tests_dir> <out.ndjson> [files..] | c01c show <file.sy>");
    }
    vharness::project::quiet_panics();
    match args[1].as_str() {
        "show" => {
            let p = PathBuf::from(&args[2]);
            match convert(&p) {
                Ok((tops, why, nodes, modules)) => {
                    println!("{}", serde_json::to_string_pretty(&json!({"tops":tops,"reasons":why,"nodes":nodes,"modules":modules})).unwrap());
                }
                Err(e) => println!("error: {}", e),
            }
        }
        "record" => {
            if args.len() < 4 {
                tool_error("usage: c01c record <tests_dir> <out.ndjson> [files..]");
            }
            let root = PathBuf::from(&args[2]);
            let mut files = Vec::new();
            if args.len() > 4 {
                for r in &args[4..] {
                    files.push(root.join(r));
                }
            } else {
                walk(&root, &mut files);
            }
            let recs: Vec<Value> = vharness::pool::par_map(&files, |_, f| record(&root, f));
            write_ndjson(Path::new(&args[3]), &recs);
            let acc = recs.iter().filter(|r| r["accepted"] == true).count();
            let inm = recs.iter().filter(|r| r["in_model"] == true).count();
            println!("{} files, {} accepted, {} in-model", recs.len(), acc, inm);
        }
        _ => tool_error("unknown mode"),
    }
}
