//! C05 recorder: shape rules (blob / enum / tuple / loop) and the entry point.
//!   c05 record <cases.ndjson> <trace.ndjson>
//!   c05 print  <cases.ndjson> <n>          sources of case n (base and planted)
//!   c05 probe  <file-or-dir>               compile one program from disk (dir: main.sy + modules), print the result
//! Case (emitted by MC_Shapes): {id:{kind,shape,ctx,...}, clause, base:{main:[tops], other:[tops]?}, planted:{...}}
//! Record: {id, clause, base:{class, loads, stage, kinds, detail}, planted:{..same..}, src_base?, src_planted?}
//!   class ok|err|panic; loads yes|no|na (minilua load of the emitted Lua); stage syntax|later|none (did the parser reject?)
//!   c05 famrecord <cases.ndjson> <trace.ndjson>   families of SyltShapesFam: one program per case
//!   c05 famprint  <cases.ndjson> <n>              source of family case n
//! Family case (emitted by MC_ShapesFam): {key:[..], id:{kind,shape,sub,ctx}, clause, expect:"accept"|"reject", prog:{main:[tops]}}
//! Family record: {key, id, clause, expect, obs:{class, loads, stage, kinds, detail}, src?}  (src when the observation is not what `expect` says)
//!   Family programs use nothing of the standard library and are compiled without it (C05_FAM_STD=1: with it).
//! Rust only renders, compiles, loads and records; the expectation is evaluated by TLC (MC_Shapes, mode validate).
//! C05_STUB=accept: negative control - every planted program is recorded as accepted ("ok").
//! C05_STUB=noload: negative control - every accepted base is recorded as not loading.
//! C05_STUB=flip (famrecord): negative control - every observation is recorded as its opposite (accepted <-> rejected).

use serde_json::{json, Value};
use std::collections::BTreeMap;
use std::path::Path;
use vharness::printer::{print_program, PrintOpts};
use vharness::util::*;
use vharness::project::{compile_opts, CompileOpts};
use vharness::{CompileResult, Project};

fn project_of(p: &Value) -> Project {
    let opts = PrintOpts::default();
    let mut files = BTreeMap::new();
    files.insert("main.sy".to_string(), print_program(p["main"].as_array().expect("main tops"), &opts));
    if let Some(o) = p["other"].as_array() {
        if !o.is_empty() {
            files.insert("other.sy".to_string(), print_program(o, &opts));
        }
    }
    Project { files, main: "main.sy".into() }
}

fn source_text(p: &Project) -> String {
    if p.files.len() == 1 {
        return p.files["main.sy"].clone();
    }
    p.files.iter().map(|(k, v)| format!("// ---- file {}\n{}", k, v)).collect::<Vec<_>>().join("\n")
}

/// compile, and for accepted programs load the emitted Lua
fn observe(p: &Project) -> Value {
    observe_with(p, false)
}

fn observe_with(p: &Project, no_std: bool) -> Value {
    match compile_opts(p, &CompileOpts { no_std, ..Default::default() }).0 {
        CompileResult::Ok { lua } => match vharness::luarun::load_only(&lua) {
            Ok(()) => json!({"class": "ok", "loads": "yes", "stage": "none", "kinds": [], "detail": ""}),
            Err(m) => json!({"class": "ok", "loads": "no", "stage": "none", "kinds": [], "detail": m}),
        },
        CompileResult::Err { errors, bytes_written } => {
            let kinds: Vec<String> = errors
                .iter()
                .map(|e| {
                    if e.kind == "type" {
                        // message = "<TypeError variant debug>|text": keep the variant's name only
                        let head: String = e.message.chars().take_while(|c| c.is_ascii_alphanumeric()).collect();
                        format!("type:{}", head)
                    } else {
                        e.kind.clone()
                    }
                })
                .collect();
            let detail = errors.first().map(|e| format!("{}:{} {}", e.file, e.line, e.message)).unwrap_or_default();
            let stage = if errors.iter().any(|e| e.kind == "syntax") { "syntax" } else { "later" };
            json!({"class": "err", "loads": "na", "stage": stage, "kinds": kinds, "detail": detail, "bytes_written": bytes_written})
        }
        CompileResult::Panic { message, .. } => json!({"class": "panic", "loads": "na", "stage": "none", "kinds": [], "detail": message}),
    }
}

fn main() {
    let args: Vec<String> = std::env::args().collect();
    if args.len() < 3 {
        tool_error("usage: c05 record <cases> <trace> | print <cases> <n> | probe <path>");
    }
    match args[1].as_str() {
        "probe" => {
            let path = Path::new(&args[2]);
            let mut files = BTreeMap::new();
            if path.is_dir() {
                for e in std::fs::read_dir(path).unwrap() {
                    let e = e.unwrap();
                    let n = e.file_name().to_string_lossy().to_string();
                    if n.ends_with(".sy") {
                        files.insert(n, std::fs::read_to_string(e.path()).unwrap());
                    }
                }
            } else {
                files.insert("main.sy".to_string(), std::fs::read_to_string(path).unwrap());
            }
            let p = Project { files, main: "main.sy".into() };
            let o = observe(&p);
            println!("{}", o);
            if args.len() > 3 {
                if let CompileResult::Ok { lua } = vharness::compile(&p) {
                    println!("{}", vharness::project::body_of(&lua));
                }
            }
        }
        "print" => {
            let cases: Vec<Value> = read_ndjson(Path::new(&args[2]));
            let n: usize = args[3].parse().unwrap();
            println!("// ===== base\n{}", source_text(&project_of(&cases[n]["base"])));
            println!("// ===== planted\n{}", source_text(&project_of(&cases[n]["planted"])));
        }
        "record" => {
            if args.len() < 4 {
                tool_error("usage: c05 record <cases> <trace>");
            }
            let cases: Vec<Value> = read_ndjson(Path::new(&args[2]));
            let stub = std::env::var("C05_STUB").unwrap_or_default();
            let recs = vharness::pool::par_map(&cases, |_, c| {
                let pb = project_of(&c["base"]);
                let pp = project_of(&c["planted"]);
                let mut b = observe(&pb);
                let mut p = observe(&pp);
                if stub == "accept" {
                    p = json!({"class": "ok", "loads": "yes", "stage": "none", "kinds": [], "detail": "stub"});
                }
                if stub == "noload" && b["class"] == "ok" {
                    b["loads"] = json!("no");
                    b["detail"] = json!("stub");
                }
                let mut r = json!({"id": c["id"], "clause": c["clause"], "base": b, "planted": p});
                let fine = r["base"]["class"] == "ok" && r["base"]["loads"] == "yes" && r["planted"]["class"] == "err";
                if !fine {
                    r["src_base"] = json!(source_text(&pb));
                    r["src_planted"] = json!(source_text(&pp));
                }
                r
            });
            write_ndjson(Path::new(&args[3]), &recs);
        }
        "famprint" => {
            let cases: Vec<Value> = read_ndjson(Path::new(&args[2]));
            let n: usize = args[3].parse().unwrap();
            println!("// {} expect={}\n{}", cases[n]["key"], cases[n]["expect"], source_text(&project_of(&cases[n]["prog"])));
        }
        "famrecord" => {
            if args.len() < 4 {
                tool_error("usage: c05 famrecord <cases> <trace>");
            }
            let cases: Vec<Value> = read_ndjson(Path::new(&args[2]));
            let stub = std::env::var("C05_STUB").unwrap_or_default();
            let no_std = std::env::var("C05_FAM_STD").unwrap_or_default() != "1";
            let recs = vharness::pool::par_map(&cases, |_, c| {
                let p = project_of(&c["prog"]);
                let mut o = observe_with(&p, no_std);
                if stub == "flip" {
                    o = if o["class"] == "ok" {
                        json!({"class": "err", "loads": "na", "stage": "later", "kinds": ["stub"], "detail": "stub"})
                    } else {
                        json!({"class": "ok", "loads": "yes", "stage": "none", "kinds": [], "detail": "stub"})
                    };
                }
                let accept = c["expect"] == "accept";
                let fine = if accept { o["class"] == "ok" && o["loads"] == "yes" } else { o["class"] == "err" && o["stage"] != "syntax" };
                let mut r = json!({"key": c["key"], "id": c["id"], "clause": c["clause"], "expect": c["expect"], "obs": o});
                if !fine {
                    r["src"] = json!(source_text(&p));
                }
                r
            });
            write_ndjson(Path::new(&args[3]), &recs);
        }
        _ => tool_error("unknown mode"),
    }
}
